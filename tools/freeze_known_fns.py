#!/usr/bin/env python3
"""Regenerates refs/known_fns.json: the names of the local functions (all analysed configurations) that exist in
/repo *now*.  The interpreter treats any local function NOT in this list as a helper introduced by a later change and
looks inside it (rules/interp.py, `known_fns`).  Run this only when a rule is deliberately re-anchored on a new
function of the code base; it is never run by a check."""
import json
import os
import sys
sys.path.insert(0, os.path.join(os.path.dirname(os.path.dirname(os.path.abspath(__file__))), "rules"))
import facts

th, dirs, _ = facts.ensure_facts(["K1", "K2", "K3", "K4", "K5"])
out = {}
for cfg in ("K1", "K2", "K3", "K4", "K5"):
    for fname in facts.CONFIGS[cfg][1]:
        cr = facts.load(dirs, cfg, fname, expect_hash=th)
        out.setdefault(cr.name, set()).update(cr.bodies.keys())
path = os.path.join(facts.VERIF, "refs", "known_fns.json")
with open(path, "w") as fh:
    fh.write("{\n" + ",\n".join('"%s": [\n%s\n]' % (k, ",\n".join(json.dumps(x) for x in sorted(v))) for k, v in sorted(out.items())) + "\n}\n")
print({k: len(v) for k, v in out.items()})
