#!/usr/bin/env python3
"""Regenerates refs/known_fns.json and refs/known_sigs.json from /repo as it is *now*.

known_fns.json  - names of the local functions per crate (all analysed configurations).  The interpreter treats any
                  local function NOT in this list as a helper introduced by a later change and looks inside it.
known_sigs.json - per crate and configuration, for every named function: parameter names, parameter / return types and
                  the set of callees.  rules/facts.py uses it to recognise a *renamed or moved private function* (same
                  signature, overlapping callees, old name gone, new name unknown) and a *renamed parameter*, and
                  presents them to the rules under the names the rules were written against.

Run this only when the rules are deliberately re-anchored on the code base as it stands; it is never run by a check."""
import json
import os
import sys
sys.path.insert(0, os.path.join(os.path.dirname(os.path.dirname(os.path.abspath(__file__))), "rules"))
os.environ["VERIF_NO_CANON"] = "1"
import facts

CFGS = ["K0", "K1", "K2", "K3", "K4", "K5"]
th, dirs, _ = facts.ensure_facts(CFGS)
names = {}
sigs = {}
for cfg in CFGS:
    for fname in facts.CONFIGS[cfg][1]:
        cr = facts.load(dirs, cfg, fname, expect_hash=th)
        names.setdefault(cr.name, set()).update(cr.bodies.keys())
        key = "%s|%s|%s" % (cr.name, cfg, fname)
        sigs[key] = {"fns": {}, "items": {}, "adts": {}, "types": {}}
        for k, b in cr.bodies.items():
            if "{closure" in k:
                continue
            if b.get("dk") in ("Fn", "AssocFn"):
                sigs[key]["fns"][k] = facts.signature(cr, k, b)
            elif (b.get("dk") or "").startswith(("Const", "Static", "AssocConst")) and "hir" in b:
                sigs[key]["items"][k] = facts.item_fingerprint(b)
        for k, a in cr.adts.items():
            sigs[key]["types"][k] = [a.get("kind"), [v.get("name") for v in a.get("variants") or []]]
            if a.get("kind") == "Struct" and a.get("variants"):
                sigs[key]["adts"][k] = [[f.get("name"), f.get("ty")] for f in a["variants"][0].get("fields") or []]
path = os.path.join(facts.VERIF, "refs", "known_fns.json")
with open(path, "w") as fh:
    fh.write("{\n" + ",\n".join('"%s": [\n%s\n]' % (k, ",\n".join(json.dumps(x) for x in sorted(v))) for k, v in sorted(names.items())) + "\n}\n")
with open(os.path.join(facts.VERIF, "refs", "known_sigs.json"), "w") as fh:
    json.dump(sigs, fh, indent=0, sort_keys=True)
print({k: len(v) for k, v in names.items()}, {k: (len(v["fns"]), len(v["items"]), len(v["adts"])) for k, v in sigs.items()})
