#!/usr/bin/env python3
"""Regenerates MANIFEST.json from the table below (single source of truth for what is claimed)."""
import json, os, sys
HERE = os.path.dirname(os.path.dirname(os.path.abspath(__file__)))
sys.path.insert(0, os.path.join(HERE, "rules"))
props = [json.loads(l) for l in open(os.path.join(HERE, "properties.jsonl"))]

TRUST = "Trusted base: rustc's type checker/name resolution (facts are exported from the type-checked HIR/MIR), yasna's encoders, and the dependency behaviour named under 'not decided' in DESIGN.md for this property."

# id -> (technique, level text, level note) for implemented checks
CLAIMS = {}
def claim(pid, technique, text, note):
    CLAIMS[pid] = (technique, text, note)

exec(open(os.path.join(HERE, "tools", "claims.py")).read())

# rules added after the first version of tools/claims.py (seed rounds 5-8), one clause each
EXTRA = {
    "C01": " The BIT STRING of every signature arm holds exactly what the signer returned (only the signing call, its error conversion, the random source and the buffer it fills take part in the value).",
    "C03": " The Name importer: multi-valued RDNs refused (cardinality model over any spelling, also counts taken after items were consumed), UTF-8 decoding required only under the UTF-8/ASCII string tags, attribute types through the inverse of to_oid, values stored unaltered (no trimming / case folding / lossy decoding).",
    "C04": " The certificate version is the constant v3 on every path (DEFAULT v1 is never encoded).",
    "C07": " The iPAddress octet converter is a pure conversion chain (4 octets -> that IPv4 address, 16 -> that IPv6 address, other lengths an error).",
    "C08": " The CRL's authority key identifier goes through KeyIdMethod::derive (pre-specified ids unchanged, digests cut to 20 octets).",
    "C09": " No pre-encoded (raw) element is computed from a time field; every alternative of the value whose year selects the form is UTC-normalised or taken only when the offset is UTC.",
    "C10": " Every SET / SET OF element is written on exactly the paths on which its element writer was obtained (also through IMPLICIT re-tagging); panic sites of finite-domain functions are discharged by exhaustive evaluation; unwraps of slice-to-array conversions by the statically derived slice length; the string wrappers' admission predicates (on which the sink discharge rests).",
    "C11": " KeyPair::der_bytes is, per key kind, the key object's own public_key() unmodified; the signing arms as in C01; from_oid selects on equality of the whole arc sequence; under aws-lc-rs the RSA parser is chosen by the container kind (PKCS#8 vs PKCS#1).",
    "C15": " The to-be-signed call graph includes the local Iterator::next impls that for-loops drive; nothing that holds a std HashMap / HashSet is formatted on it.",
    "C16": " KeyIdMethod::derive, the CA importer and der_bytes are checked in all three builds (K1/K2/K3).",
    "C17": " The EKU converter has no rejecting path of its own; DnType OID tables, SAN and iPAddress converters, string alphabets/sinks as for generation.",
    "C18": " The SAN / KeyUsage / ExtendedKeyUsage / BasicConstraints writers and rcgen's own panic audit as compiled for the tool; main may delegate to a helper (ordering decided in the delegate); the string admission predicates as compiled for the tool.",
    "C19": " Back-end calls that serialise private key material run only on behalf of the key generators; the export accessors store nothing into shared or interior-mutable state; public-key values built from caller-supplied encodings retain only the subjectPublicKey the X.509 parser extracted.",
}
checks = []
na = []
for p in props:
    pid = p["id"]
    if pid in CLAIMS and os.path.exists(os.path.join(HERE, "rules", pid.lower() + ".py")):
        tech, text, note = CLAIMS[pid]
        text = text + EXTRA.get(pid, "") + " Also runs, under its own rule ids, the necessary conditions it shares with sibling properties (DESIGN.md section 4, 'Rules shared between properties')."
        checks.append({
            "property_id": pid,
            "quick_cmd": "./check %s --tier quick" % pid,
            "thorough_cmd": "./check %s --tier thorough" % pid,
            "evidence_file": "/verif/evidence/%s.json" % pid,
            "replay_cmd_template": "./check %s --explain {path}" % pid,
            "engine": "rcgen-facts+rules",
            "level_claimed": {"category": "other", "text": text, "design_ref": "DESIGN.md section 4, %s" % pid},
            "level_note": note + " " + TRUST,
            "technique": tech,
        })
    else:
        na.append({"property_id": pid, "reason": "check not implemented yet (build in progress; DESIGN.md section 4 lists the planned static rules)"})

m = {
    "version": 1,
    "setup_cmd": "./setup.sh",
    "hooks": {"guard": "rustls_rcgen_verif", "enable": "none needed: the checks read /repo's working tree through a rustc_private driver; no instrumentation exists in /repo",
              "baseline_off_cmd": "cd /repo && cargo test --workspace --no-fail-fast --offline", "source_commits": [], "add_only": True},
    "engines": [
        {"name": "rcgen-facts", "path": "/verif/driver", "serves_properties": [c["property_id"] for c in checks], "kind_free_text": "rustc_private driver run as RUSTC_WORKSPACE_WRAPPER under cargo +nightly check for each cfg configuration; exports typed HIR with resolved callees, reduced MIR CFGs and item tables as JSON"},
        {"name": "rules", "path": "/verif/rules", "serves_properties": [c["property_id"] for c in checks], "kind_free_text": "Python static rules over the exported facts: abstract interpretation of the DER writers into TLV schemas, propositional condition algebra with exhaustive assignment enumeration, value-origin resolution, table extraction vs RFC reference tables, who-may-call/read rules, MIR dominance"},
    ],
    "checks": checks,
    "notes": "Static analysis only: no rcgen code is executed by any check. Genuine defects found on the pinned tree are repaired by 'fix:' commits in /repo or listed in /verif/known_findings.json; see DESIGN.md section 5.",
    "not_applicable": na,
}
json.dump(m, open(os.path.join(HERE, "MANIFEST.json"), "w"), indent=1)
print("claimed:", [c["property_id"] for c in checks])
