#!/usr/bin/env python3
"""Rewrites the obligations column of the per-property table in DESIGN.md section 4 from /verif/evidence/*.json
(run after all twenty quick checks have been run on the pristine tree)."""
import json, re, os
HERE = os.path.dirname(os.path.dirname(os.path.abspath(__file__)))
p = os.path.join(HERE, "DESIGN.md")
s = open(p).read()
def count(pid):
    d = json.load(open(os.path.join(HERE, "evidence", pid + ".json")))
    cov = d.get("coverage", {})
    n = cov.get("obligations")
    known = cov.get("obligations", 0) - cov.get("discharged", cov.get("obligations", 0))
    return n, known, cov.get("configs_analysed")
out = []
for line in s.split("\n"):
    m = re.match(r"^\| (C\d\d) \|(.*)\|([^|]*)\|([^|]*)\|([^|]*)\|$", line)
    if m:
        pid = m.group(1)
        try:
            n, known, cfgs = count(pid)
        except Exception as e:
            out.append(line); continue
        if n:
            cell = " %s%s " % (n, " (%s known)" % known if known else "")
            line = "| %s |%s|%s|%s|%s|" % (pid, m.group(2), m.group(3), m.group(4), cell)
    out.append(line)
open(p, "w").write("\n".join(out))
print("ok")
