#!/bin/sh
# Offline setup: build the fact driver and warm the per-configuration dependency caches.
set -e
cd "$(dirname "$0")"
export CARGO_NET_OFFLINE=true
(cd driver && CARGO_TARGET_DIR=../.cache/driver-target cargo build --offline 2>&1 | tail -2)
python3 rules/facts.py K1 K2 K3 K4 K5 | head -1
# warm the stable-toolchain target dir used by the feature-matrix check
./check C16 --tier quick > /dev/null 2>&1 || true
