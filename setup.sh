#!/bin/sh
# Offline setup: build the fact driver and warm the per-configuration dependency caches.
set -e
cd "$(dirname "$0")"
export CARGO_NET_OFFLINE=true
(cd driver && CARGO_TARGET_DIR=../.cache/driver-target cargo build --offline 2>&1 | tail -2)
python3 rules/facts.py K1 K2 K3 K4 | head -1
