"""C07 - a CSR says exactly what its parameters say, or is refused."""
import formula as F
from formula import Or, And, Not, atom
import schema as S
import refs as R
import artrefs
import common
from common import CSR_FN
from interp import core, places, calls_of, roots, Interp, StructV, PhiV, Via

PROP = "C07"
CONFIGS_QUICK = ["K1", "K2"]
CONFIGS_THOROUGH = ["K1", "K2", "K0"]
EXPLANATION = (
    "Static: the CertificationRequestInfo writer is abstractly interpreted into a TLV tree and compared with the RFC 2986 reference "
    "(version 0, subject Name, SubjectPublicKeyInfo of the requester's key, [0] IMPLICIT SET OF attributes with one extensionRequest "
    "holding exactly KU/SAN/EKU/custom extensions, caller attributes embedded raw); the destructuring of the parameters is required to "
    "be exhaustive and every field is classified refused/emitted/exempt; the refusal condition is compared with the disjunction of the "
    "non-default tests of the refused fields and must return Err(UnsupportedInCsr) before anything is signed; the extension-request "
    "guard is compared with the disjunction of the emission conditions inside the attribute writer; the request parser's tables are "
    "checked to be inverses of the writer's. Decides these structural clauses, not a decoder's output or round-trip value equality.")
ASSUMPTIONS = ["yasna encoders; x509-parser's decoding of requested extensions"]

REFUSED = {
    "serial_number": "some(self.serial_number)",
    "is_ca": "!variant(self.is_ca,NoCa)",
    "name_constraints": "some(self.name_constraints)",
    "crl_distribution_points": "!empty(self.crl_distribution_points)",
    "use_authority_key_identifier_extension": "true(self.use_authority_key_identifier_extension)",
}
EMITTED = ["distinguished_name", "subject_alt_names", "key_usages", "extended_key_usages", "custom_extensions"]
EXEMPT = {"not_before": "validity cannot be expressed in PKCS#10", "not_after": "validity cannot be expressed in PKCS#10",
          "key_identifier_method": "not distinguishable from the default in the current API (documented in the source)"}


def check_fields(cfg, crate, rep):
    b = crate.body(CSR_FN)
    rep.fn(CSR_FN)
    key = "%s|%s" % (cfg, CSR_FN)
    # exhaustive destructuring: let Self { .. } = self with no rest
    lets = [s for n in common.hir_walk(b["hir"]) if n["k"] == "Block" for s in n["stmts"] if s["k"] == "Let" and s["pat"]["k"] == "Struct" and s["pat"].get("res") in ("selfty", "def")]
    ok = len(lets) == 1 and not lets[0]["pat"]["rest"]
    rep.ob("C07.fields", key + "|exhaustive-destructuring", ok, "the parameters are destructured without `..` so a new field cannot be ignored silently", found=len(lets))
    adt = crate.adts.get("certificate::CertificateParams")
    fields = [f["name"] for f in adt["variants"][0]["fields"]] if adt else []
    if lets:
        bound = [f["name"] for f in lets[0]["pat"]["fields"]]
        rep.ob("C07.fields", key + "|all-fields-bound", sorted(bound) == sorted(fields), "every CertificateParams field is bound", expected=sorted(fields), found=sorted(bound))
    for f in fields:
        cls = "refused" if f in REFUSED else "emitted" if f in EMITTED else "exempt" if f in EXEMPT else None
        rep.ob("C07.fields", key + "|classified|" + f, cls is not None, "field is classified (refused / emitted / exempt) in the rule's table", found=cls)
    # refusal formula
    I = Interp(crate, no_inline={common.SIGN_DER})
    I.run_fn(CSR_FN)
    errs = [(c, v, n) for c, v, n, f in I.fails if f == CSR_FN and "UnsupportedInCsr" in core(v).r()]
    rep.ob("C07.fields", key + "|refusal-site", len(errs) == 1, "one `return Err(UnsupportedInCsr)`", found=len(errs))
    if errs:
        Rf = errs[0][0]
        want = Or(*[F.parse(x) for x in REFUSED.values()])
        Rf_n = _norm_eq(Rf)
        for ce in F.counterexamples(want, Rf_n, "equiv"):
            rep.fail("C07.fields", key + "|refusal|" + F.show_asg(ce), "the refusal condition differs from 'some unsupported field is non-default' when " + F.show_asg(ce) +
                     (" (the field would be silently dropped)" if F.evalf(want, ce) else " (a supported request is refused)"), sp=errs[0][2].get("sp"), expected=F.show(want), found=F.show(Rf_n))
        if not F.counterexamples(want, Rf_n, "equiv"):
            rep.ob("C07.fields", key + "|refusal", True, "refusal <=> OR(non-default(refused field))")
        rep.sample({"rule": "C07.fields", "cfg": cfg, "refusal": F.show(Rf_n)})
        # the refusal precedes signing: sign_der call happens under !R
        sd = [(c, a, n, cond, f) for c, a, n, cond, f in I.calls if c == common.SIGN_DER and f == CSR_FN]
        rep.ob("C07.fields", key + "|refusal-before-signing", len(sd) == 1 and _after_fail(I, sd[0][2], errs[0][2]), "the refusal is decided before sign_der is called", found=len(sd))


def _norm_eq(f):
    """eq atoms are symmetric; normalise the rendering used in the reference."""
    if f is True or f is False:
        return f
    if f[0] == "atom":
        k = f[1]
        if k[0] == "eq":
            a, b = sorted([k[1], k[2]])
            return ("atom", ("eq", a, b))
        return f
    if f[0] == "not":
        return Not(_norm_eq(f[1]))
    if f[0] == "and":
        return And(*[_norm_eq(g) for g in f[1]])
    return Or(*[_norm_eq(g) for g in f[1]])


def _after_fail(I, call_node, fail_node):
    def line(n):
        try:
            return int(n.get("sp", ":0").rsplit(":", 1)[1])
        except Exception:
            return 0
    return line(fail_node) < line(call_node)


def check_schema(cfg, crate, rep):
    art = common.artefact(crate, CSR_FN)
    key = "%s|%s" % (cfg, CSR_FN)
    if art.tbs is None:
        rep.fail("C07.schema", key + "|tbs", "no CertificationRequestInfo found")
        return None
    m = S.Matcher(art.I, rep, "C07.schema", key)
    m.match_list(S.canon_ref(artrefs.csr_info()), art.tbs, ("CertificationRequestInfo",))
    rep.floor("C07.schema", "schema nodes matched (%s)" % cfg, m.n, 30)
    rep.sample({"rule": "C07.schema", "cfg": cfg, "tree_head": [l.split("   --")[0] for l in S.render(art.I, art.tbs)][:12]})
    return art


def check_guard(cfg, art, rep):
    key = "%s|%s" % (cfg, CSR_FN)
    # the extension request attribute: SEQUENCE { OID ext-req, SET { SEQUENCE { exts } } }
    reqs = []
    for n, p, c, r in S.walk(art.tbs):
        if n["t"] == "Seq" and n["c"] and S.oid_key(art.I, n) == "oid:1.2.840.113549.1.9.14":
            reqs.append((n, c))
    rep.ob("C07.guard", key + "|one-extension-request", len(reqs) == 1, "at most one extensionRequest attribute site", found=len(reqs))
    if len(reqs) != 1:
        return
    n, G = reqs[0]
    inner = None
    for k, p, c, r in S.walk(n["c"]):
        if k["t"] == "Set":
            seqs = [x for x in k["c"] if x["t"] == "Seq"]
            if seqs:
                inner = seqs[0]
                break
    if inner is None:
        rep.fail("C07.guard", key + "|shape", "extensionRequest does not hold SET { SEQUENCE { .. } }")
        return
    es = []
    for c, reps, node in S.flatten(inner["c"]):
        es.append(And(c, Not(atom("empty", S.rep_str(reps[0])))) if reps else c)
    E = Or(*es)
    for ce in F.counterexamples(E, G, "implies"):
        rep.fail("C07.guard", key + "|requested=>attribute|" + F.show_asg(ce), "a requested extension is dropped because the extensionRequest attribute is not written when " + F.show_asg(ce), sp=n.get("sp"), expected=F.show(E), found=F.show(G))
    for ce in F.counterexamples(G, E, "implies"):
        rep.fail("C07.guard", key + "|attribute=>nonempty|" + F.show_asg(ce), "an empty extensionRequest is written when " + F.show_asg(ce), sp=n.get("sp"), expected=F.show(E), found=F.show(G))
    if not F.counterexamples(E, G, "equiv"):
        rep.ob("C07.guard", key + "|equiv", True, "write_extension_request <=> OR(emission conditions)")
    rep.sample({"rule": "C07.guard", "cfg": cfg, "guard": F.show(G), "emissions": [F.show(e) for e in es]})


def check_back(cfg, crate, rep):
    """Parser tables are inverses of the writer's (x509-parser configurations only)."""
    fn = "csr::CertificateSigningRequestParams::from_der"
    if fn not in crate.bodies:
        rep.fail("C07.back", "%s|%s" % (cfg, fn), "request parser missing in this configuration")
        return
    rep.fn(fn, "KeyUsagePurpose::from_u16")
    b = crate.body(fn)
    calls = common.calls_in(b)
    names = [c for c, n, ps in calls]
    # KU: from_u16(flags.reverse_bits())
    # the value stored into key_usages: from_u16(reverse_bits(<the extension's flags>)), however it is spelt
    Ik = Interp(crate)
    Ik.run_fn(fn)
    kus = [(p_[1]) for t_, k_, p_, n_, f_, c_ in Ik.muts if k_ == "assign" and p_ and p_[0] == ".key_usages" and f_ == fn]
    from interp import calls_of as _co, places as _pl
    ok = len(kus) == 1 and any(x.endswith("KeyUsagePurpose::from_u16") for x in _co(kus[0])) and any(x.endswith("::reverse_bits") for x in _co(kus[0])) and (any(pl_.endswith(".flags") for pl_ in _pl(kus[0])) or "sel:.flags" in roots(kus[0]))
    rep.ob("C07.back", "%s|%s|key-usage" % (cfg, fn), ok, "key usage flags are bit-reversed (x509-parser stores them LSB-first) and decoded by from_u16", found=[core(x).r()[-120:] for x in kus])
    # from_u16 is the inverse of the writer's to_u16 table: decided by exhaustive constant propagation (analysis L) over
    # every combination of the nine defined bits, every single bit of the word, and all-ones
    import ceval
    E = ceval.Eval(crate)
    vals = ceval.enum_values(crate, "KeyUsagePurpose") or []
    bad = {}
    try:
        mask = {v.variant.split("::")[-1]: E.call("KeyUsagePurpose::to_u16", [v]) for v in vals}
        defined = sorted(mask.values(), reverse=True)
        probes = set(1 << i for i in range(16)) | {0, 0xFFFF}
        for combo in range(1 << len(defined)):
            probes.add(sum(m for i, m in enumerate(defined) if combo >> i & 1))
        for x in sorted(probes):
            got = E.call("KeyUsagePurpose::from_u16", [x])
            gnames = [g.variant.split("::")[-1] for g in got]
            want_set = {nm for nm, m in mask.items() if m & x}
            if set(gnames) != want_set or len(gnames) != len(set(gnames)):
                bad[hex(x)] = "%s, expected %s" % (sorted(gnames), sorted(want_set))
    except (ceval.Unsupported, ceval.Panic) as e:
        bad["evaluation"] = "%s: %s" % (type(e).__name__, e)
    rep.ob("C07.back", "%s|KeyUsagePurpose::from_u16" % cfg, len(vals) == 9 and not bad, "from_u16(x) is exactly the set of usages whose to_u16 bit is set in x (every subset of the nine defined bits, every single bit, all-ones)",
           expected="%d probes agree" % (len(bad) and 0 or 530), found={k: bad[k] for k in sorted(bad)[:4]} or "all probes agree")
    # EKU flags -> variants
    Ie = Interp(crate)
    Ie.run_fn(fn)
    pairs = common.eku_pairs_interp(Ie)
    want = {"any": "Any", "server_auth": "ServerAuth", "client_auth": "ClientAuth", "code_signing": "CodeSigning", "email_protection": "EmailProtection", "time_stamping": "TimeStamping", "ocsp_signing": "OcspSigning"}
    rep.ob("C07.back", "%s|%s|eku-flags" % (cfg, fn), pairs == want, "each standard EKU flag maps to the like-named variant", expected=want, found=pairs)
    # SAN via try_from_general
    # (the call may sit in a helper introduced later: the interpreter's call log covers inlined helpers)
    san_conv = [a_ for c_, a_, n_, cnd_, f_ in Ie.calls if c_.endswith("SanType::try_from_general")]
    san_src = any(a_ and ".general_names" in core(a_[0]).r() for a_ in san_conv)
    rep.ob("C07.back", "%s|%s|san" % (cfg, fn), "SanType::try_from_general" in names or (bool(san_conv) and san_src), "SAN entries are converted by the shared GeneralName converter", found=[core(a_[0]).r()[-80:] for a_ in san_conv if a_])
    san_back(cfg, crate, rep)


def eku_pairs(body):
    """`if eku.<flag> { ..(ExtendedKeyUsagePurpose::<V>) }` pairs in a body."""
    pairs = {}
    for n in common.hir_walk(body["hir"]):
        if n["k"] == "If" and n["c"]["k"] == "Field" and n["c"].get("ty") == "bool":
            flag = n["c"]["name"]
            vs = [x["def"].split("::")[-1] for x in common.hir_walk(n["t"]) if x["k"] == "Path" and x.get("res") == "def" and "ExtendedKeyUsagePurpose::" in (x.get("def") or "")]
            if len(vs) == 1:
                pairs[flag] = vs[0]
    return pairs


def san_back(cfg, crate, rep):
    """GeneralName -> SanType: the converter's result, specialised for every GeneralName variant it distinguishes,
    constructs the SanType variant of the same kind (whatever the shape: `Ok(match ..)`, per-arm `.map(Variant)`,
    helper functions)."""
    from interp import specialise, variant_assignment, flatten_phi
    fn = "SanType::try_from_general"
    rep.fn(fn)
    I = Interp(crate)
    out = I.run_fn(fn)
    v = out["value"]
    fails = [(c, x) for c, x, n_, f in I.fails if f == fn]
    tested = common.guard_variants(v, "name")
    for c, x in fails:
        for a in F.atoms(c):
            if a[0] == "variant" and a[1] == "name" and a[2] not in tested:
                tested.append(a[2])
    got = {}
    for g in tested:
        x = specialise(v, variant_assignment(v, "name", g))
        vs = sorted(common.struct_variants(x, "SanType::"))
        if vs:
            got[g] = vs
    want = {"RFC822Name": ["Rfc822Name"], "DNSName": ["DnsName"], "URI": ["URI"], "IPAddress": ["IpAddress"], "OtherName": ["OtherName"]}
    rep.ob("C07.back", "%s|%s" % (cfg, fn), got == want, "GeneralName -> SanType arms are the inverse of the writer's tag table", expected=want, found=got)
    # the iPAddress arm hands the octets to the octet converter and stores what it returns
    xi = specialise(v, variant_assignment(v, "name", "IPAddress"))
    pay = [sv_.fields.get("0") for sv_ in common.find_structs(xi, "SanType::IpAddress")]
    okp = bool(pay) and all(p_ is not None and sorted(c_ for c_ in calls_of(p_) if not c_.startswith("<")) == ["ip_addr_from_octets"] and "name#IPAddress.0" in roots(p_) and not [r_ for r_ in roots(p_) if r_.startswith("op:")] for p_ in pay)
    rep.ob("C07.back", "%s|%s|ip-octets" % (cfg, fn), okp, "the iPAddress arm stores exactly what the octet converter returns for the name's octets", found=[core(p_).r()[:120] for p_ in pay if p_ is not None])
    ip_octets(cfg, crate, rep)


def _ip_chain(pay, bad):
    """(width, family) of one success payload of the octet converter when it is a pure conversion chain, else (None, _)"""
    import re
    from interp import Sel, Param, MutV, OpV, CallV
    w = fam = None
    cur = pay
    while True:
        if isinstance(cur, StructV) and (cur.variant or "") in ("std::net::IpAddr::V4", "std::net::IpAddr::V6") and "0" in cur.fields and fam is None:
            fam = 4 if cur.variant.endswith("V4") else 16      # `IpAddr::V4(..)` written out instead of `.into()`
            cur = cur.fields["0"]
        elif isinstance(cur, Via) and cur.name in ("into", "from", "try_from", "try_into", "deref", "clone", "copied", "to_owned", "inlined", "?", "borrow", "as_ref"):
            cal = getattr(cur, "callee", "") or ""
            m = re.search(r"<std::net::Ip(v4|v6)?Addr as std::convert::From<\[u8; (\d+)\]>>::from", cal)
            if m:
                w = int(m.group(2))
                if (m.group(1) == "v4" and w != 4) or (m.group(1) == "v6" and w != 16) or w not in (4, 16):
                    bad.append("conversion %s" % cal)
            cur = cur.inner
        elif isinstance(cur, Sel) and cur.sel in ("#Ok.0", "?"):
            cur = cur.base
        elif isinstance(cur, CallV) and cur.callee in ("std::result::Result::ok", "std::option::Option::copied", "std::option::Option::cloned") and len(cur.args) == 1:
            cur = cur.args[0]        # `try_from(..).ok()` then `Some(x)`: still the checked conversion's success value
        elif isinstance(cur, MutV) and isinstance(cur.base, OpV) and cur.base.op == "repeat" and len(cur.ops) == 1 and cur.ops[0][0] == "call" \
                and cur.ops[0][1] == "copy_from_slice" and len(cur.ops[0]) == 3:
            cur = cur.ops[0][2]          # a zeroed array filled with the octets (the length is copy_from_slice's own check)
        else:
            break
    if fam is not None and w is not None and fam != w:
        bad.append("IpAddr::V%s built from %d octets" % ("4" if fam == 4 else "6", w))
    if not (isinstance(cur, Param) and cur.r() == "octets") or w is None:
        bad.append("address is not a plain conversion of the octets: %s" % core(pay).r()[:120])
        return None, fam
    return w, fam


def ip_octets(cfg, crate, rep, rule="C07.back"):
    """iPAddress octets -> IpAddr: 16 octets are the IPv6 address with exactly those octets, 4 octets the IPv4 address,
    anything else an error.  Decided on the value: every success alternative is a chain of `From`/`Into`/deref
    conversions (no other call, no arithmetic) from the checked slice-to-array conversion of the input to
    `Ipv6Addr: From<[u8; 16]>` resp. `Ipv4Addr: From<[u8; 4]>`, and the remaining alternative is an `Err`."""
    import re
    from interp import flatten_phi, Sel, Param
    fn = "ip_addr_from_octets"
    if fn not in crate.bodies:
        rep.fail(rule, "%s|%s" % (cfg, fn), "octet converter not found")
        return
    rep.fn(fn)
    I = Interp(crate)
    v = I.run_fn(fn)["value"]
    widths, bad, errs = [], [], 0
    for c, x in flatten_phi(v):
        x0 = x
        while isinstance(x0, Via) and x0.name in ("inlined", "?"):
            x0 = x0.inner
        if not isinstance(x0, StructV) or x0.variant not in ("Ok", "Err"):
            bad.append("alternative is not Ok(..)/Err(..): %s" % core(x).r()[:80])
            continue
        if x0.variant == "Err":
            errs += 1
            continue
        payloads_ = [p_ for _, p_ in flatten_phi(x0.fields.get("0"))]
        for pay_ in payloads_:
            w, fam = _ip_chain(pay_, bad)
            if w is not None:
                widths.append(w)

    # an early `return Err(..)` is an error alternative too
    errs += len([1 for c_, x_, n_, f_ in I.fails if isinstance(core(x_), StructV) and core(x_).variant == "Err"])
    ok = not bad and sorted(widths) == [4, 16] and errs >= 1
    rep.ob(rule, "%s|%s" % (cfg, fn), ok, "4 / 16 iPAddress octets are imported as exactly that IPv4 / IPv6 address; other lengths are an error", found=bad or {"widths": sorted(widths), "error alternatives": errs})


def run(ctx):
    rep = ctx.rep
    for cfg in (CONFIGS_QUICK if ctx.tier == "quick" else CONFIGS_THOROUGH):
        crate = ctx.crate(cfg)
        check_fields(cfg, crate, rep)
        art = check_schema(cfg, crate, rep)
        if art is not None:
            check_guard(cfg, art, rep)
        if cfg in ("K1", "K2"):
            check_back(cfg, crate, rep)
            # "the same key algorithm": the parsed request's public key carries the algorithm of the request's own
            # signature algorithm and the SPKI is bound to it (C06.bind / C06.key)
            import c06
            def _c06():
                body = crate.body(c06.FN)
                I6 = Interp(crate)
                I6.run_fn(c06.FN)
                c06.bind(cfg, crate, I6, rep, "%s|%s" % (cfg, c06.FN))
            common.borrow_rules(rep, _c06, "C06.", "C07.key")
            # "parsing it back returns the requested subject name": the request's Name comes back through the shared Name
            # importer (tag table, values unaltered, refusals instead of silent changes)
            import c03
            common.borrow_rules(rep, lambda: c03.check_import(cfg, crate, rep), "C03.", "C07.name")
            # "exactly the requested key usages": the shared KeyUsage writer ORs one distinct bit per purpose
            import c02
            c02.ku_encoding(cfg, crate, rep, rule="C07.ku")
