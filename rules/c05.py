"""C05 - output satisfies the structural MUSTs of the RFC 5280 / RFC 2986 profile."""
import formula as F
from formula import Or, And, Not, atom
import schema as S
import common
from common import CERT_FN, CSR_FN, CRL_FN
from interp import core, places, calls_of, Interp, StructV, PhiV, Via, MutV, IndexV, CallV, Const, OpV

PROP = "C05"
CONFIGS_QUICK = ["K1", "K2", "K3"]
CONFIGS_THOROUGH = ["K1", "K2", "K3", "K0"]
EXPLANATION = (
    "Static queries over the abstract TLV trees of the three artefact writers (every branch, every cfg configuration): version numbers "
    "and their unconditional presence; per-extension criticality constants against the RFC 5280 table, with subjectAltName's flag "
    "required to be exactly `subject name is empty`; the automatic serial is a slice of at most 20 digest octets whose first octet is "
    "and-ed with a mask that clears bit 7 before the write, written as a positive INTEGER; name constraints are written only when not "
    "both lists are empty and each list only when non-empty; no rcgen-chosen extension OID can be written twice on one path (pairwise "
    "exclusive emission conditions, by enumeration); mandatory CRL fields/extensions are unconditional and revokedCertificates is absent "
    "iff nothing is revoked; the CSR attributes element is unconditional with at most one extensionRequest. "
    "Not decided: non-zero-ness of the automatic serial (fails only for an all-zero 160-bit digest prefix).")
ASSUMPTIONS = ["yasna encoders", "SHA-256 output is 32 octets (slice 0..20 is in range)"]

CRIT = {"oid:2.5.29.19": True, "oid:2.5.29.30": True, "oid:2.5.29.15": True, "oid:2.5.29.14": False, "oid:2.5.29.35": False,
        "oid:2.5.29.37": False, "oid:2.5.29.31": False, "oid:2.5.29.20": False, "oid:2.5.29.21": False, "oid:2.5.29.24": False,
        "oid:2.5.29.28": True}
NAMES = {"oid:2.5.29.19": "basicConstraints", "oid:2.5.29.30": "nameConstraints", "oid:2.5.29.15": "keyUsage", "oid:2.5.29.14": "subjectKeyIdentifier",
         "oid:2.5.29.35": "authorityKeyIdentifier", "oid:2.5.29.37": "extKeyUsage", "oid:2.5.29.31": "cRLDistributionPoints", "oid:2.5.29.20": "cRLNumber",
         "oid:2.5.29.21": "reasonCode", "oid:2.5.29.24": "invalidityDate", "oid:2.5.29.28": "issuingDistributionPoint", "oid:2.5.29.17": "subjectAltName"}


def extensions(art):
    """(node, cond, reps, key) for every Extension-shaped SEQUENCE {OID, [BOOLEAN], OCTET STRING}."""
    out = []
    for n, p, c, r in S.walk(art.tbs):
        if n["t"] == "Seq" and n["c"]:
            kids = S.flatten(n["c"])
            if len(kids) >= 2 and kids[0][2]["t"] == "Prim" and kids[0][2]["kind"] == "OID" and kids[-1][2]["t"] == "Prim" and kids[-1][2]["kind"] == "OCTET STRING" and all(k[2]["t"] == "Prim" for k in kids):
                out.append((n, c, r, S.oid_key(art.I, n), kids))
    return out


def check_versions(cfg, arts, rep):
    cert, csr, crl = arts
    def first(art):
        kids = S.flatten(art.tbs[0]["c"]) if art.tbs and art.tbs[0]["t"] == "Seq" else []
        return kids[0] if kids else None
    k = first(cert)
    ok = k is not None and k[0] is True and k[2]["t"] == "Tagged" and S.tag_str(cert.I, k[2]["tag"]) == "[0]" and k[2]["mode"] == "explicit" and len(k[2]["c"]) == 1 and k[2]["c"][0].get("kind") == "INTEGER" and cert.I.concrete(k[2]["c"][0]["args"][0]) == 2
    rep.ob("C05.version", "%s|%s" % (cfg, CERT_FN), ok, "certificate version is [0] EXPLICIT INTEGER 2 (v3), unconditionally", sp=k[2].get("sp") if k else None)
    k = first(csr)
    ok = k is not None and k[0] is True and k[2].get("kind") == "INTEGER" and csr.I.concrete(k[2]["args"][0]) == 0
    rep.ob("C05.version", "%s|%s" % (cfg, CSR_FN), ok, "CSR version is INTEGER 0", sp=k[2].get("sp") if k else None)
    k = first(crl)
    ok = k is not None and k[0] is True and k[2].get("kind") == "INTEGER" and crl.I.concrete(k[2]["args"][0]) == 1
    rep.ob("C05.version", "%s|%s" % (cfg, CRL_FN), ok, "CRL version is INTEGER 1 (v2), present unconditionally", sp=k[2].get("sp") if k else None)


def check_crit(cfg, arts, rep):
    n = 0
    for art in arts:
        for node, cond, reps, key, kids in extensions(art):
            bools = [k for k in kids if k[2]["kind"] == "BOOLEAN"]
            n += 1
            fnkey = "%s|%s|%s" % (cfg, art.fn, NAMES.get(key, key))
            if key == "oid:2.5.29.17":
                f = S.alias(bools[0][0]) if len(bools) == 1 else False
                want = F.parse("empty(self.distinguished_name)")
                ces = F.counterexamples(want, f, "equiv")
                rep.ob("C05.crit", fnkey, not ces and len(bools) == 1 and art.I.concrete(bools[0][2]["args"][0]) is True,
                       "subjectAltName is critical exactly when the subject name is empty (RFC 5280 4.1.2.6)", expected="critical iff empty(self.distinguished_name)", found=F.show(f), sp=node.get("sp"))
            elif key in CRIT:
                if CRIT[key]:
                    ok = len(bools) == 1 and bools[0][0] is True and art.I.concrete(bools[0][2]["args"][0]) is True
                else:
                    ok = len(bools) == 0
                rep.ob("C05.crit", fnkey + ("|" + F.show(cond) if False else ""), ok, "%s criticality must be %s" % (NAMES[key], CRIT[key]), expected=CRIT[key], found=[(F.show(b[0]), art.I.concrete(b[2]["args"][0])) for b in bools], sp=node.get("sp"))
            elif key == "dynamic":
                # custom extension: flag from the element itself
                ok = len(bools) == 1 and F.atoms(bools[0][0]) and all(a[0] == "true" and a[1].endswith(".critical") for a in F.atoms(bools[0][0]))
                rep.ob("C05.crit", fnkey, ok, "custom extension criticality is the caller's flag", found=[F.show(b[0]) for b in bools], sp=node.get("sp"))
            else:
                rep.fail("C05.crit", fnkey, "extension OID without a reference criticality", sp=node.get("sp"))
    rep.floor("C05.crit", "extension sites (%s)" % cfg, n, 18)
    # acme identifier constructor
    crate = arts[0].crate
    fn = "certificate::CustomExtension::new_acme_identifier"
    rep.fn(fn)
    v = core(Interp(crate).run_fn(fn)["value"])
    ok = isinstance(v, StructV) and Interp(crate).concrete(v.fields.get("critical")) is True
    rep.ob("C05.crit", "%s|%s" % (cfg, fn), ok, "acmeIdentifier is critical (RFC 8737)", found=v.r()[:120])


def check_serial(cfg, cert, rep):
    kids = S.flatten(cert.tbs[0]["c"])
    ser = [k for k in kids if k[2]["t"] == "Prim" and k[2]["kind"] == "INTEGER"]
    key = "%s|%s" % (cfg, CERT_FN)
    autos = [k for k in ser if not any(p.startswith("self.serial_number") for p in places(k[2]["args"][0]))]
    given = [k for k in ser if any(p.startswith("self.serial_number") for p in places(k[2]["args"][0]))]
    rep.ob("C05.serial", key + "|explicit", len(given) == 1 and cert.I.concrete(given[0][2]["args"][1]) is True and given[0][2]["m"] == "write_bigint_bytes", "explicit serial is written as a positive big INTEGER")
    if cfg == "K3":
        rep.ob("C05.serial", key + "|auto-absent", len(autos) == 0, "without a crypto back end there is no automatic serial (MissingSerialNumber)")
        return
    if len(autos) != 1:
        rep.fail("C05.serial", key + "|auto", "expected exactly one automatic-serial write", found=len(autos))
        return
    node = autos[0][2]
    v = node["args"][0]
    pos = cert.I.concrete(node["args"][1]) is True and node["m"] == "write_bigint_bytes"
    rep.ob("C05.serial", key + "|positive", pos, "automatic serial is written with positive = true", sp=node.get("sp"))
    mv = v
    while isinstance(mv, Via):
        mv = mv.inner
    masked = False
    sliced = False
    detail = core(v).r()
    if isinstance(mv, MutV):
        for o in mv.ops:
            if o[0] in ("&=",) and o[1] == "[0]":
                m = cert.I.concrete(o[2])
                if isinstance(m, int) and (m & 0x80) == 0 and m != 0:
                    masked = True
        base = core(mv.base)
        fills = [o for o in mv.ops if o[0] == "call" and o[1] in ("copy_from_slice", "clone_from_slice") and len(o) == 3]
        if isinstance(mv.base, OpV) and mv.base.op == "repeat" and len(fills) == 1 and mv.ops[0] is fills[0]:
            # a zeroed fixed-size buffer filled with the digest prefix: `let mut sl = [0u8; 20]; sl.copy_from_slice(&h[0..20])`
            base = core(fills[0][2])
        if isinstance(base, IndexV):
            rb = common.range_bounds(cert.I, base.idx)
            if rb and rb[0] == 0 and 1 <= rb[1] <= 20:
                sliced = True
            dg = core(base.base)
            rep.ob("C05.serial", key + "|from-key-digest", isinstance(dg, CallV) and dg.callee.endswith("digest::digest") and places(dg) == {"pub_key"}, "automatic serial is a digest of the subject public key", found=dg.r()[:160])
    rep.ob("C05.serial", key + "|at-most-20-octets", sliced, "at most 20 octets are taken (RFC 5280 4.1.2.2)", found=detail[:200], sp=node.get("sp"))
    rep.ob("C05.serial", key + "|top-bit-cleared", masked, "the first octet is and-ed with a mask clearing bit 7 before the write (otherwise a leading 0x00 makes it 21 octets)", found=detail[:200], sp=node.get("sp"))
    rep.sample({"rule": "C05.serial", "cfg": cfg, "value": detail[:200]})


def check_nc(cfg, cert, rep):
    exts = [e for e in extensions(cert) if e[3] == "oid:2.5.29.30"]
    key = "%s|%s|nameConstraints" % (cfg, CERT_FN)
    if len(exts) != 1:
        rep.fail("C05.nc_empty", key, "expected one name constraints site", found=len(exts))
        return
    node, cond, reps, k, kids = exts[0]
    both_empty = F.parse("empty(self.name_constraints?.permitted_subtrees) && empty(self.name_constraints?.excluded_subtrees)")
    ces = F.counterexamples(cond, Not(both_empty), "implies")
    rep.ob("C05.nc_empty", key + "|omitted-when-empty", not ces, "an empty NameConstraints value is never written", found=F.show(cond), sp=node.get("sp"))
    inner = kids[-1][2].get("inner", [])
    tagged = [(n, c) for n, p, c, r in S.walk(inner) if n["t"] == "Tagged" and not r and S.tag_str(cert.I, n["tag"]) in ("[0]", "[1]") and len(p) == 1]
    want = {"[0]": "!empty(self.name_constraints?.permitted_subtrees)", "[1]": "!empty(self.name_constraints?.excluded_subtrees)"}
    seen = set()
    for n, c in tagged:
        t = S.tag_str(cert.I, n["tag"])
        seen.add(t)
        ces = F.counterexamples(c, F.parse(want[t]), "equiv")
        rep.ob("C05.nc_empty", key + "|subtree" + t, not ces, "subtree list %s is written iff it is non-empty" % t, expected=want[t], found=F.show(c), sp=n.get("sp"))
    rep.ob("C05.nc_empty", key + "|both-lists", seen == {"[0]", "[1]"}, "permitted [0] and excluded [1] lists both have a writer", found=sorted(seen))


def check_dup(cfg, arts, rep):
    for art in arts:
        by = {}
        for node, cond, reps, key, kids in extensions(art):
            if key.startswith("oid:"):
                scope = tuple(S.rep_str(x) for x in reps)
                by.setdefault((scope, key), []).append((cond, node))
        for (scope, key), sites in by.items():
            for i in range(len(sites)):
                for j in range(i + 1, len(sites)):
                    both = And(sites[i][0], sites[j][0])
                    sat = any(F.evalf(both, a) for a in F.assignments(F.atoms(both)))
                    rep.ob("C05.dup", "%s|%s|%s#%d-%d" % (cfg, art.fn, NAMES.get(key, key), i, j), not sat,
                           "extension %s can be written twice on one path" % NAMES.get(key, key), found="%s  AND  %s" % (F.show(sites[i][0]), F.show(sites[j][0])), sp=sites[j][1].get("sp"))
            if len(sites) == 1:
                rep.ob("C05.dup", "%s|%s|%s" % (cfg, art.fn, NAMES.get(key, key)), True, "single site")


def check_crl(cfg, crl, rep):
    key = "%s|%s" % (cfg, CRL_FN)
    kids = S.flatten(crl.tbs[0]["c"])
    labels = []
    for c, r, n in kids:
        labels.append((n["t"] if n["t"] != "Prim" else n["kind"], c))
    # version, algid, issuer unconditional
    for i, what in enumerate(["version", "signature AlgorithmIdentifier", "issuer"]):
        rep.ob("C05.crl", key + "|" + what, i < len(kids) and kids[i][0] is True, "%s is present unconditionally" % what)
    times = [k for k in kids if k[2]["t"] == "Prim" and k[2]["kind"] in ("UTCTime", "GeneralizedTime")]
    for fld in ("self.this_update", "self.next_update"):
        cs = [k[0] for k in times if places(k[2]["args"][0]) == {fld}]
        tot = Or(*cs)
        ok = cs and not F.counterexamples(tot, True, "equiv")
        rep.ob("C05.crl", key + "|" + fld, ok, "%s is always written (conforming issuers MUST include nextUpdate)" % fld.split(".")[1], found=F.show(tot))
    rev = [k for k in kids if k[2]["t"] == "Seq" and any(r and places(r[0]) == {"self.revoked_certs"} for _, r, _ in S.flatten(k[2]["c"]))]
    ok = len(rev) == 1 and not F.counterexamples(rev[0][0], F.parse("!empty(self.revoked_certs)"), "equiv")
    rep.ob("C05.crl", key + "|revokedCertificates", ok, "revokedCertificates is absent iff nothing is revoked", found=[F.show(k[0]) for k in rev])
    blk = [k for k in kids if k[2]["t"] == "Tagged" and S.tag_str(crl.I, k[2]["tag"]) == "[0]"]
    rep.ob("C05.crl", key + "|crlExtensions", len(blk) == 1 and blk[0][0] is True and blk[0][2]["mode"] == "explicit", "crlExtensions [0] EXPLICIT is always present")
    conds = {e[3]: e[1] for e in extensions(crl) if not e[2]}
    rep.ob("C05.crl", key + "|aki", conds.get("oid:2.5.29.35") is True, "authority key identifier is always present", found=F.show(conds.get("oid:2.5.29.35", False)))
    rep.ob("C05.crl", key + "|crlNumber", conds.get("oid:2.5.29.20") is True, "CRL number is always present", found=F.show(conds.get("oid:2.5.29.20", False)))
    idp = conds.get("oid:2.5.29.28", False)
    rep.ob("C05.crl", key + "|idp", not F.counterexamples(idp, F.parse("some(self.issuing_distribution_point)"), "equiv"), "issuing distribution point present iff requested", found=F.show(idp))


def check_csr(cfg, csr, rep):
    key = "%s|%s" % (cfg, CSR_FN)
    kids = S.flatten(csr.tbs[0]["c"])
    attrs = [k for k in kids if k[2]["t"] == "Tagged" and S.tag_str(csr.I, k[2]["tag"]) == "[0]"]
    ok = len(attrs) == 1 and attrs[0][0] is True and attrs[0][2].get("was_implicit_over") == "SetOf" and kids[-1] is attrs[0]
    rep.ob("C05.csr", key + "|attributes", ok, "attributes [0] IMPLICIT SET OF is always present (even when empty) and is the last element")
    reqs = [n for n, p, c, r in S.walk(csr.tbs) if n["t"] == "Seq" and n["c"] and S.oid_key(csr.I, n) == "oid:1.2.840.113549.1.9.14"]
    rep.ob("C05.csr", key + "|one-extension-request", len(reqs) == 1, "at most one extensionRequest attribute", found=len(reqs))


def run(ctx):
    rep = ctx.rep
    for cfg in (CONFIGS_QUICK if ctx.tier == "quick" else CONFIGS_THOROUGH):
        crate = ctx.crate(cfg)
        arts = [common.artefact(crate, f) for f in (CERT_FN, CSR_FN, CRL_FN)]
        rep.fn(CERT_FN, CSR_FN, CRL_FN)
        if any(a.tbs is None for a in arts):
            rep.fail("C05.internal", "%s|tbs" % cfg, "an artefact writer is not routed through sign_der")
            continue
        check_versions(cfg, arts, rep)
        check_crit(cfg, arts, rep)
        check_serial(cfg, arts[0], rep)
        check_nc(cfg, arts[0], rep)
        check_dup(cfg, arts, rep)
        check_crl(cfg, arts[2], rep)
        if cfg == "K1":
            # SAN criticality is decided from the name's map while the subject is written from its order list: the
            # invariants tying the two together (C20) are necessary for "critical exactly when the subject is empty"
            import c20
            common.borrow_rules(rep, lambda: (c20.writers(cfg, crate, rep), c20.push(cfg, crate, rep), c20.remove(cfg, crate, rep), c20.iteration(cfg, crate, rep)), "C20.", "C05.dn")
        check_csr(cfg, arts[1], rep)
