"""Reference trees for the CSR and CRL to-be-signed structures (RFC 2986 section 4, RFC 5280 section 5)."""
import refs as R
from refs import Seq, Set, SetOf, Tagged, Prim, Cond, Rep, Choice, Time, P, C, ext

WEXT = "!empty(self.key_usages) || !empty(self.subject_alt_names) || !empty(self.extended_key_usages) || !empty(self.custom_extensions)"


def san_ext(san="self.subject_alt_names"):
    el = san + "[]"
    return Cond("!empty(%s)" % san, [ext(R.OID_SAN, "empty(self.distinguished_name)", [Seq([Rep(san, [Choice(el, {
        "Rfc822Name": [Tagged(1, "implicit", [Prim("IA5String", P(san))])],
        "DnsName": [Tagged(2, "implicit", [Prim("IA5String", P(san))])],
        "URI": [Tagged(6, "implicit", [Prim("IA5String", P(san))])],
        "IpAddress": [Tagged(7, "implicit", [Choice(el + "#IpAddress.0", {
            "V4": [Prim("OCTET STRING", P(san, via=["octets"]))],
            "V6": [Prim("OCTET STRING", P(san, via=["octets"]))]})])],
        "OtherName": [Tagged(0, "implicit", [Seq([Prim("OID", P(san)), Tagged(0, "explicit", [Choice(el + "#OtherName.0.1", {"Utf8String": [Prim("UTF8String", P(san))]})])])])],
    })])])])])


def ku_ext():
    return Cond("!empty(self.key_usages)", [ext(R.OID_KU, True, [Prim("BIT STRING", P("self.key_usages", via=["KeyUsagePurpose::to_u16"], loose=True))])])


def eku_ext():
    return Cond("!empty(self.extended_key_usages)", [ext(R.OID_EKU, False, [Seq([Rep("self.extended_key_usages", [Prim("OID", P("self.extended_key_usages", via=["ExtendedKeyUsagePurpose::oid"]))])])])])


def custom_exts():
    return Rep("self.custom_extensions", [Seq([
        Prim("OID", P("self.custom_extensions")),
        Cond("true(self.custom_extensions[].critical)", [Prim("BOOLEAN", C(True))]),
        Prim("OCTET STRING", inner=[{"t": "Raw", "v": P("self.custom_extensions", via=["CustomExtension::content"])}])])])


def csr_info():
    return [Seq([
        Prim("INTEGER", C(0)),
        R.name("self.distinguished_name"),
        R.spki("subject_key"),
        Tagged(0, "implicit", [SetOf([
            Cond(WEXT, [Seq([Prim("OID", C(R.OID_EXT_REQ)), Set([Seq([ku_ext(), san_ext(), eku_ext(), custom_exts()], unordered=True)])])]),
            Rep("attrs", [Seq([Prim("OID", P("attrs")), {"t": "Raw", "v": P("attrs")}])]),
        ])]),
    ])]


def crl_aki(v, I):
    from interp import core, places, calls_of, CallV
    v0 = core(v)
    if not isinstance(v0, CallV) or not v0.callee.endswith("KeyIdMethod::derive"):
        return "CRL authority key identifier is not KeyIdMethod::derive(..)"
    if places(v0.args[0]) != {"self.key_identifier_method"}:
        return "derive() applied to %s, expected the CRL's key_identifier_method" % sorted(places(v0.args[0]))
    if places(v0.args[1]) != {"issuer.key_pair"} or not any(c.endswith("public_key_der") for c in calls_of(v0.args[1])):
        return "derive() input is not the issuer key's SubjectPublicKeyInfo"
    return None


def crl_reason(v, I):
    """reasonCode: the entry's own reason, either cast to its discriminant or mapped variant by variant to a constant
    (the mapping itself is compared with RFC 5280 5.3.1 by C08.reason)"""
    import formula as F
    from interp import core, places, roots, PhiV, Via
    place = "self.revoked_certs[].reason_code?"
    if isinstance(v, Via) and v.name.startswith("as:") and core(v).r() == place and not [r for r in roots(v) if r.startswith(("op:", "call:"))]:
        return None
    v0 = core(v)
    if isinstance(v0, PhiV):
        for c, x in v0.alts:
            if any(a[0] != "variant" or a[1] != place for a in F.atoms(c)):
                return "reason code selected by something other than the entry's reason: %s" % F.show(c)[:120]
            if I.concrete(x) is None:
                return "reason code alternative is not a constant: %s" % core(x).r()[:80]
        return None
    return "reason code is not derived from the entry's reason (%s)" % v0.r()[:100]


def tbs_cert_list(strict_invalidity=True):
    rc = "self.revoked_certs"
    e = rc + "[]"
    idp = "self.issuing_distribution_point?"
    inv = [Prim("GeneralizedTime", P(rc, via_any=[["dt_to_generalized"], ["dt_strip_nanos", "GeneralizedTime::from_datetime"]]))] if strict_invalidity else [Time(e + ".invalidity_date?")]
    return [Seq([
        Prim("INTEGER", C(1)),
        R.alg_ident("issuer.key_pair.alg", "issuer.key_pair.alg"),
        R.name("issuer.distinguished_name"),
        Time("self.this_update"),
        Time("self.next_update"),
        Cond("!empty(%s)" % rc, [Seq([Rep(rc, [Seq([
            Prim("INTEGER", P(rc), args=[C(True)]),
            Time(e + ".revocation_time"),
            Cond("ANY", [Seq([
                Cond("some(%s.reason_code)" % e, [ext(R.OID_CRL_REASON, False, [Prim("ENUMERATED", {"pred": crl_reason})])]),
                Cond("some(%s.invalidity_date)" % e, [ext(R.OID_INVALIDITY, False, inv)]),
            ], unordered=True)]),
        ])])])]),
        Tagged(0, "explicit", [Seq([
            ext(R.OID_AKI, False, [Seq([Tagged(0, "implicit", [Prim("OCTET STRING", {"pred": crl_aki})])])]),
            ext(R.OID_CRL_NUMBER, False, [Prim("INTEGER", P("self.crl_number"), args=[C(True)])]),
            Cond("some(self.issuing_distribution_point)", [ext(R.OID_IDP, True, [Seq([
                R.distribution_point_name(idp + ".distribution_point.uris"),
                Cond("some(%s.scope)" % idp, [Choice(idp + ".scope?", {
                    "UserCertsOnly": [Tagged(1, "implicit", [Prim("BOOLEAN", C(True))])],
                    "CaCertsOnly": [Tagged(2, "implicit", [Prim("BOOLEAN", C(True))])]})]),
            ])])]),
        ], unordered=True)]),
    ])]
