"""Shared extraction helpers used by several property modules."""
import interp as IP
import schema as S
from interp import core, DerV, PhiV, CallV, StructV, Via


def find_der(v):
    """First DerV reachable in a value (through Ok(..), `?`, into(), phi)."""
    v = core(v)
    if isinstance(v, DerV):
        return v
    kids = []
    if isinstance(v, PhiV):
        kids = [x for _, x in v.alts]
    elif isinstance(v, CallV):
        kids = v.args
    elif isinstance(v, StructV):
        kids = list(v.fields.values())
    for k in kids:
        r = find_der(k)
        if r is not None:
            return r
    return None


CERT_FN = "certificate::CertificateParams::serialize_der_with_signer"
CSR_FN = "certificate::CertificateParams::serialize_request_with_attributes"
CRL_FN = "crl::CertificateRevocationListParams::serialize_der"
SIGN_DER = "key_pair::KeyPair::sign_der"


class Artefact:
    """Interpretation of one artefact serializer: outer tree, TBS tree, interpreter."""

    def __init__(self, crate, fn):
        self.crate = crate
        self.fn = fn
        self.I = IP.Interp(crate)
        self.out = self.I.run_fn(fn)
        d = find_der(self.out["value"])
        if d is None:
            raise IP.InterpError("no DER value produced by %s" % fn)
        self.outer = S.norm(d.items)
        # outer = SEQUENCE { RAW(tbs), AlgorithmIdentifier, BIT STRING }
        self.tbs = None
        if len(self.outer) == 1 and self.outer[0]["t"] == "Seq":
            kids = self.outer[0]["c"]
            if kids and kids[0]["t"] == "Raw" and "inner" in kids[0]:
                self.tbs = kids[0]["inner"]


_cache = {}


def artefact(crate, fn):
    k = (crate.path, fn)
    if k not in _cache:
        _cache[k] = Artefact(crate, fn)
    return _cache[k]


def find_nodes(items, pred):
    return [(n, path, cond, reps) for n, path, cond, reps in S.walk(items) if pred(n)]


def hir_walk(n):
    """Yield every dict node of a HIR tree."""
    stack = [n]
    while stack:
        x = stack.pop()
        if isinstance(x, dict):
            if "k" in x:
                yield x
            stack.extend(x.values())
        elif isinstance(x, list):
            stack.extend(x)
