"""Shared extraction helpers used by several property modules."""
import interp as IP
import schema as S
from interp import core, DerV, PhiV, CallV, StructV, Via


def find_der(v):
    """First DerV reachable in a value (through Ok(..), `?`, into(), phi)."""
    v = core(v)
    if isinstance(v, DerV):
        return v
    kids = []
    if isinstance(v, PhiV):
        kids = [x for _, x in v.alts]
    elif isinstance(v, CallV):
        kids = v.args
    elif isinstance(v, StructV):
        kids = list(v.fields.values())
    for k in kids:
        r = find_der(k)
        if r is not None:
            return r
    return None


CERT_FN = "certificate::CertificateParams::serialize_der_with_signer"
CSR_FN = "certificate::CertificateParams::serialize_request_with_attributes"
CRL_FN = "crl::CertificateRevocationListParams::serialize_der"
SIGN_DER = "key_pair::KeyPair::sign_der"


class Artefact:
    """Interpretation of one artefact serializer: outer tree, TBS tree, interpreter."""

    def __init__(self, crate, fn):
        self.crate = crate
        self.fn = fn
        self.I = IP.Interp(crate)
        self.out = self.I.run_fn(fn)
        d = find_der(self.out["value"])
        if d is None:
            raise IP.InterpError("no DER value produced by %s" % fn)
        self.outer = S.norm(d.items)
        # outer = SEQUENCE { RAW(tbs), AlgorithmIdentifier, BIT STRING }
        self.tbs = None
        if len(self.outer) == 1 and self.outer[0]["t"] == "Seq":
            kids = self.outer[0]["c"]
            if kids and kids[0]["t"] == "Raw" and "inner" in kids[0]:
                self.tbs = kids[0]["inner"]


_cache = {}


def artefact(crate, fn):
    k = (crate.path, fn)
    if k not in _cache:
        _cache[k] = Artefact(crate, fn)
    return _cache[k]


def find_nodes(items, pred):
    return [(n, path, cond, reps) for n, path, cond, reps in S.walk(items) if pred(n)]


def hir_walk(n):
    """Yield every dict node of a HIR tree."""
    stack = [n]
    while stack:
        x = stack.pop()
        if isinstance(x, dict):
            if "k" in x:
                yield x
            stack.extend(x.values())
        elif isinstance(x, list):
            stack.extend(x)


def hir_walk_p(n, parents=()):
    """Yield (node, parents) for every HIR node; parents is the tuple of enclosing nodes (outermost first)."""
    if isinstance(n, dict):
        if "k" in n:
            yield n, parents
            parents = parents + (n,)
        for v in n.values():
            yield from hir_walk_p(v, parents)
    elif isinstance(n, list):
        for x in n:
            yield from hir_walk_p(x, parents)


def calls_in(body):
    """All Call/MethodCall nodes of a body with their resolved callee (inst preferred)."""
    out = []
    for n, ps in hir_walk_p(body["hir"]):
        if n["k"] in ("Call", "MethodCall") and (n.get("callee") or n.get("inst")):
            out.append((n.get("inst") or n.get("callee"), n, ps))
    return out


def all_bodies(crate):
    for name, b in crate.bodies.items():
        if "hir" in b:
            yield name, b


def is_test_fn(name):
    return "::tests::" in name or "::test::" in name or name.startswith("tests::") or "::test_" in name


# ---------------------------------------------------------------------------
# reduced MIR: dominators (analysis E)

def mir_blocks(body):
    return {b["id"]: b for b in body["mir"]["blocks"] if not b.get("cleanup")}


def mir_dominators(body):
    """dom[b] = set of blocks dominating b (entry = 0), unwind edges excluded."""
    blocks = mir_blocks(body)
    ids = sorted(blocks)
    preds = {i: set() for i in ids}
    for i in ids:
        for s in blocks[i]["term"]["succ"]:
            if s in preds:
                preds[s].add(i)
    dom = {i: set(ids) for i in ids}
    dom[0] = {0}
    changed = True
    while changed:
        changed = False
        for i in ids:
            if i == 0:
                continue
            ps = [dom[p] for p in preds[i]]
            new = (set.intersection(*ps) if ps else set()) | {i}
            if new != dom[i]:
                dom[i] = new
                changed = True
    return dom


def mir_calls(body, pred):
    """(block id, terminator) of Call terminators whose callee/inst satisfies pred."""
    out = []
    for i, b in mir_blocks(body).items():
        t = b["term"]
        if t["k"] == "Call":
            c = facts_norm(t.get("inst") or t.get("callee") or "")
            if pred(c):
                out.append((i, t))
    return out


def facts_norm(p):
    import facts
    return facts.norm_path(p)


def mir_reachable(body, start):
    blocks = mir_blocks(body)
    seen = set()
    st = [start]
    while st:
        x = st.pop()
        if x in seen or x not in blocks:
            continue
        seen.add(x)
        st.extend(blocks[x]["term"]["succ"])
    return seen


def range_bounds(I, idx):
    """(lo, hi_exclusive) of a constant slice range value (a..b, ..b, a..=b, ..=b), or None."""
    from interp import core, StructV, CallV
    r = core(idx)
    if isinstance(r, StructV) and (r.adt or "").startswith("std::ops::Range"):
        lo = I.concrete(r.fields["start"]) if "start" in r.fields else 0
        hi = I.concrete(r.fields["end"]) if "end" in r.fields else None
        if "Inclusive" in r.adt and isinstance(hi, int):
            hi += 1
        if isinstance(lo, int) and isinstance(hi, int):
            return lo, hi
    if isinstance(r, CallV) and "RangeInclusive::new" in r.callee and len(r.args) == 2:
        lo, hi = I.concrete(r.args[0]), I.concrete(r.args[1])
        if isinstance(lo, int) and isinstance(hi, int):
            return lo, hi + 1
    return None


EKU_FLAGS = {"any": "Any", "server_auth": "ServerAuth", "client_auth": "ClientAuth", "code_signing": "CodeSigning",
             "email_protection": "EmailProtection", "time_stamping": "TimeStamping", "ocsp_signing": "OcspSigning"}


def eku_pairs_interp(I):
    """{x509-parser EKU flag -> ExtendedKeyUsagePurpose variant} from the interpreter's mutation log: every insertion of a
    purpose (insert_extended_key_usage / push onto an extended_key_usages list) with the flag its path condition tests."""
    import formula as F
    from interp import core, StructV
    pairs = {}
    for tgt, kind, payload, n, f, cond in I.muts:
        is_ins = kind.endswith("insert_extended_key_usage") or kind.endswith("Vec::push")
        if not is_ins or not payload:
            continue
        v = core(payload[0])
        if not (isinstance(v, StructV) and v.variant and "ExtendedKeyUsagePurpose::" in v.variant):
            continue
        flags = [a[1].rsplit(".", 1)[-1] for a in F.atoms(cond) if a[0] == "true" and a[1].rsplit(".", 1)[-1] in EKU_FLAGS and not F.counterexamples(cond, ("atom", a), "implies")]
        for fl in flags:
            pairs.setdefault(fl, set()).add(v.variant.split("::")[-1])
    return {k: (sorted(v)[0] if len(v) == 1 else sorted(v)) for k, v in pairs.items()}


# ---------------------------------------------------------------------------------------------------------------------
# decision tables: the behaviour of a small conversion function as {assignment of named conditions -> outcome}
# ---------------------------------------------------------------------------------------------------------------------
def upper_bound(I, a):
    """(place, inclusive upper bound) when atom `a` is a pure `place <= K` test (any spelling), else None."""
    if a[0] == "inrange" and a[2] in (0, None) and isinstance(a[3], int):
        return a[1], a[3] - (0 if a[4] else 1)
    if a[0] == "cmp":
        vals = I.atom_vals.get(a)
        if not vals or len(vals) != 2:
            return None
        op = a[1]
        l, r = vals
        cl, cr = I.concrete(l), I.concrete(r)
        if isinstance(cr, int) and not isinstance(cr, bool) and cl is None and op in ("<=", "<"):
            return a[2], cr - (1 if op == "<" else 0)
        if isinstance(cl, int) and not isinstance(cl, bool) and cr is None and op in (">=", ">"):
            return a[3], cl - (1 if op == ">" else 0)
    return None


def distribute(v, depth=0):
    """[(condition, value)] with every case split inside the value -- at the top, or inside constructor fields
    (`Ok(Ca(match n { None => Unconstrained, Some(n) => Constrained(n) }))`) -- pulled out to the top."""
    import formula as F
    from interp import core, PhiV, StructV, flatten_phi
    v0 = core(v)
    if isinstance(v0, PhiV):
        out = []
        for c, x in flatten_phi(v0):
            for c2, y in distribute(x, depth + 1):
                cc = F.And(c, c2)
                if cc is not False:
                    out.append((cc, y))
        return out
    if isinstance(v0, StructV) and depth < 5 and v0.fields:
        combos = [(True, {})]
        for k, f in v0.fields.items():
            alts = distribute(f, depth + 1)
            combos = [(F.And(c, c2), dict(d, **{k: y})) for c, d in combos for c2, y in alts]
            if len(combos) > 64:
                return [(True, v)]
        if len(combos) == 1 and combos[0][0] is True:
            return [(True, v)]
        return [(c, StructV(v0.adt, v0.variant, d, node=getattr(v0, "node", None))) for c, d in combos if c is not False]
    return [(True, v)]


def decision_table(I, out, fn, classify, names):
    """Evaluate fn's result for every assignment of the named boolean conditions.
    classify(atom) -> (name, polarity) | None.  Returns ({assignment-tuple: outcome}, error)."""
    import itertools
    import formula as F
    from interp import core, PhiV, StructV
    from interp import flatten_phi
    v0 = core(out["value"])
    alts = []
    fails = [(c, v) for c, v, n, f in I.fails if f == fn or f in I.inlined]
    for c, x in distribute(v0):
        x0 = core(x)
        if isinstance(x0, StructV) and x0.variant == "Err":
            fails.append((c, x0))      # an error returned as a value is an error all the same
        else:
            alts.append((c, x))
    amap = {}
    for c, _ in alts + fails:
        for a in F.atoms(c):
            if a in amap:
                continue
            k = classify(a)
            if k is None:
                return None, "condition not recognised: %s" % F.show_atom(a)[-160:]
            amap[a] = k
    table = {}
    for bits in itertools.product([False, True], repeat=len(names)):
        env = dict(zip(names, bits))
        asg = {a: (env[k[0]] == k[1]) for a, k in amap.items()}
        hit_f = [v for c, v in fails if F.evalf(c, asg)]
        hit = [v for c, v in alts if F.evalf(c, asg)]
        if hit_f:
            table[bits] = ("Err", hit_f[0])
        elif len(hit) == 1:
            table[bits] = ("Val", hit[0])
        else:
            return None, "at %s: %d alternatives apply" % (env, len(hit))
    return table, None


def borrow_rules(rep, run_other, from_prefix, to_rule):
    """Run rule functions of a sibling property module and re-label the obligations they record (a necessary
    condition shared by two properties is checked by both, so that each property's check stands on its own)."""
    n0 = len(rep.obligations)
    run_other()
    for o in rep.obligations[n0:]:
        if o["rule"].startswith(from_prefix):
            o["key"] = o["key"].replace(o["rule"], to_rule, 1)
            o["rule"] = to_rule


def concretise(I, f):
    """The formula with the constant operands of comparison / equality atoms replaced by their evaluated values
    (named constants, `u8::MAX as u32`, ... -> digits), so that integer semantics can be applied to it."""
    import formula as F
    if f is True or f is False:
        return f
    if f[0] == "atom":
        a = f[1]
        if a[0] in ("cmp", "eq"):
            vals = I.atom_vals.get(a)
            if vals and len(vals) == 2:
                l, r = vals
                cl, cr = I.concrete(l), I.concrete(r)
                def txt(c, old):
                    return str(c) if isinstance(c, int) and not isinstance(c, bool) else old
                if a[0] == "cmp":
                    return ("atom", ("cmp", a[1], txt(cl, a[2]), txt(cr, a[3])))
                # eq atoms are stored in canonical order (non-constant first): keep the order, replace by value
                from interp import core
                sides = {core(l).r(): cl, core(r).r(): cr}
                return ("atom", ("eq", txt(sides.get(a[1]), a[1]), txt(sides.get(a[2]), a[2])))
        return f
    if f[0] == "not":
        return F.Not(concretise(I, f[1]))
    parts = [concretise(I, g) for g in f[1]]
    return F.And(*parts) if f[0] == "and" else F.Or(*parts)


_OWN_CACHE = {}


def known_owners(crate, fn):
    """The functions the rules know (refs/known_fns.json) on whose behalf `fn` runs: `fn` itself when it is known,
    otherwise every known function that reaches it through helpers introduced by later changes only.  A who-may-X rule
    phrased over known functions then survives the extraction of a shared helper."""
    from interp import known_fns
    import c10
    key = (id(crate), fn)
    if key in _OWN_CACHE:
        return _OWN_CACHE[key]
    kn = known_fns(crate.name)
    gk = ("graph", id(crate))
    if gk not in _OWN_CACHE:
        _OWN_CACHE[gk] = c10.call_graph(crate)[0]
    G = _OWN_CACHE[gk]
    owners, todo, seen = set(), [fn.split("::{closure")[0]], set()
    while todo:
        f = todo.pop()
        if f in seen:
            continue
        seen.add(f)
        if f in kn:
            owners.add(f)
            continue
        callers = {c.split("::{closure")[0] for c, es in G.items() if f in es and c.split("::{closure")[0] != f}
        if not callers:
            owners.add(f)
        todo.extend(callers)
    _OWN_CACHE[key] = owners
    return owners


def find_structs(v, needle, acc=None):
    """the enum-variant constructions whose path contains `needle`, anywhere inside a value"""
    from interp import StructV, PhiV, Via, Sel, TupleV, ArrayV, CallV
    if acc is None:
        acc = []
    if isinstance(v, StructV):
        if v.variant and needle in v.variant:
            acc.append(v)
        for x in v.fields.values():
            find_structs(x, needle, acc)
    elif isinstance(v, PhiV):
        for _, x in v.alts:
            find_structs(x, needle, acc)
    elif isinstance(v, Via):
        find_structs(v.inner, needle, acc)
    elif isinstance(v, Sel):
        find_structs(v.base, needle, acc)
    elif isinstance(v, (TupleV, ArrayV)):
        for x in v.items:
            find_structs(x, needle, acc)
    elif isinstance(v, CallV):
        for x in v.args:
            find_structs(x, needle, acc)
    return acc


def struct_variants(v, needle, acc=None):
    """short names of the enum-variant constructions whose path contains `needle`, anywhere inside a value"""
    from interp import core, StructV, PhiV, Via, Sel, TupleV, ArrayV, CallV, MutV, IterMapV
    if acc is None:
        acc = set()
    if isinstance(v, StructV):
        if v.variant and needle in v.variant:
            acc.add(v.variant.split("::")[-1])
        for x in v.fields.values():
            struct_variants(x, needle, acc)
    elif isinstance(v, PhiV):
        for _, x in v.alts:
            struct_variants(x, needle, acc)
    elif isinstance(v, Via):
        struct_variants(v.inner, needle, acc)
    elif isinstance(v, Sel):
        struct_variants(v.base, needle, acc)
    elif isinstance(v, (TupleV, ArrayV)):
        for x in v.items:
            struct_variants(x, needle, acc)
    elif isinstance(v, CallV):
        for x in v.args:
            struct_variants(x, needle, acc)
    elif isinstance(v, MutV):
        struct_variants(v.base, needle, acc)
        for o in v.ops:
            for x in o[2:]:
                if hasattr(x, "r"):
                    struct_variants(x, needle, acc)
    elif isinstance(v, IterMapV):
        struct_variants(v.result, needle, acc)
    return acc


def guard_variants(v, place):
    """variant names tested of `place` in the guards of the case splits inside v"""
    from interp import split_guards
    import formula as F
    out = []
    for g in split_guards(v):
        for a in F.atoms(g):
            if a[0] == "variant" and a[1] == place and a[2] not in out:
                out.append(a[2])
    return out


def err_propagates(I, fn, is_callee):
    """Does `fn` (already interpreted by I) return Err whenever its single call of a callee satisfying `is_callee`
    returns Err - whatever the spelling (`?`, `map_err(..)?`, `if r.is_err() { return Err(..) }`, a match)?
    Returns (ok, explanation, call node)."""
    import formula as F
    from interp import CallV
    vcalls = [(c, a, n, cond) for c, a, n, cond, f in I.calls if f == fn and is_callee(c)]
    if len(vcalls) != 1:
        return False, "expected exactly one call, found %d" % len(vcalls), None
    c_, a_, n_, cond_v = vcalls[0]
    vp = CallV(c_, a_).r()
    err_case = ("atom", ("variant", vp, "Err"))
    exits = [cnd for cnd, v, nn, f in I.fails if f == fn]
    for tv, tn, tf, tc in I.tries:
        if tf == fn:
            exits.append(F.And(tc, F.Not(I._try_success(tv, tn))))
    if not exits:
        return False, "the function has no error exit at all", n_
    ces = F.counterexamples(F.And(cond_v, err_case), F.Or(*exits), "implies")
    if ces:
        return False, "a path continues although the call returned Err: %s" % F.show_asg(ces[0])[:200], n_
    return True, "Err => exit", n_


def mir_calls_deep(crate, body, pred, _depth=0):
    """Like mir_calls, but a call of a local function the rules do not know (a helper introduced by a later change)
    stands for the calls inside that helper: it is reported once per matching call in the helper (transitively), at the
    block of the helper call in `body`."""
    from interp import known_fns
    out = []
    kn = known_fns(crate.name)
    for i, b in mir_blocks(body).items():
        t = b["term"]
        if t["k"] != "Call":
            continue
        c = facts_norm(t.get("inst") or t.get("callee") or "")
        c0 = facts_norm(t.get("callee") or "")
        if pred(c) or pred(c0):
            out.append((i, t))
            continue
        tgt = c if c in crate.bodies else (c0 if c0 in crate.bodies else None)
        if tgt and tgt not in kn and "mir" in crate.bodies[tgt] and _depth < 4:
            for _ in mir_calls_deep(crate, crate.bodies[tgt], pred, _depth + 1):
                out.append((i, t))
    return out
