"""Shared extraction helpers used by several property modules."""
import interp as IP
import schema as S
from interp import core, DerV, PhiV, CallV, StructV, Via


def find_der(v):
    """First DerV reachable in a value (through Ok(..), `?`, into(), phi)."""
    v = core(v)
    if isinstance(v, DerV):
        return v
    kids = []
    if isinstance(v, PhiV):
        kids = [x for _, x in v.alts]
    elif isinstance(v, CallV):
        kids = v.args
    elif isinstance(v, StructV):
        kids = list(v.fields.values())
    for k in kids:
        r = find_der(k)
        if r is not None:
            return r
    return None


CERT_FN = "certificate::CertificateParams::serialize_der_with_signer"
CSR_FN = "certificate::CertificateParams::serialize_request_with_attributes"
CRL_FN = "crl::CertificateRevocationListParams::serialize_der"
SIGN_DER = "key_pair::KeyPair::sign_der"


class Artefact:
    """Interpretation of one artefact serializer: outer tree, TBS tree, interpreter."""

    def __init__(self, crate, fn):
        self.crate = crate
        self.fn = fn
        self.I = IP.Interp(crate)
        self.out = self.I.run_fn(fn)
        d = find_der(self.out["value"])
        if d is None:
            raise IP.InterpError("no DER value produced by %s" % fn)
        self.outer = S.norm(d.items)
        # outer = SEQUENCE { RAW(tbs), AlgorithmIdentifier, BIT STRING }
        self.tbs = None
        if len(self.outer) == 1 and self.outer[0]["t"] == "Seq":
            kids = self.outer[0]["c"]
            if kids and kids[0]["t"] == "Raw" and "inner" in kids[0]:
                self.tbs = kids[0]["inner"]


_cache = {}


def artefact(crate, fn):
    k = (crate.path, fn)
    if k not in _cache:
        _cache[k] = Artefact(crate, fn)
    return _cache[k]


def find_nodes(items, pred):
    return [(n, path, cond, reps) for n, path, cond, reps in S.walk(items) if pred(n)]


def hir_walk(n):
    """Yield every dict node of a HIR tree."""
    stack = [n]
    while stack:
        x = stack.pop()
        if isinstance(x, dict):
            if "k" in x:
                yield x
            stack.extend(x.values())
        elif isinstance(x, list):
            stack.extend(x)


def hir_walk_p(n, parents=()):
    """Yield (node, parents) for every HIR node; parents is the tuple of enclosing nodes (outermost first)."""
    if isinstance(n, dict):
        if "k" in n:
            yield n, parents
            parents = parents + (n,)
        for v in n.values():
            yield from hir_walk_p(v, parents)
    elif isinstance(n, list):
        for x in n:
            yield from hir_walk_p(x, parents)


def calls_in(body):
    """All Call/MethodCall nodes of a body with their resolved callee (inst preferred)."""
    out = []
    for n, ps in hir_walk_p(body["hir"]):
        if n["k"] in ("Call", "MethodCall") and (n.get("callee") or n.get("inst")):
            out.append((n.get("inst") or n.get("callee"), n, ps))
    return out


def all_bodies(crate):
    for name, b in crate.bodies.items():
        if "hir" in b:
            yield name, b


def is_test_fn(name):
    return "::tests::" in name or "::test::" in name or name.startswith("tests::") or "::test_" in name


# ---------------------------------------------------------------------------
# reduced MIR: dominators (analysis E)

def mir_blocks(body):
    return {b["id"]: b for b in body["mir"]["blocks"] if not b.get("cleanup")}


def mir_dominators(body):
    """dom[b] = set of blocks dominating b (entry = 0), unwind edges excluded."""
    blocks = mir_blocks(body)
    ids = sorted(blocks)
    preds = {i: set() for i in ids}
    for i in ids:
        for s in blocks[i]["term"]["succ"]:
            if s in preds:
                preds[s].add(i)
    dom = {i: set(ids) for i in ids}
    dom[0] = {0}
    changed = True
    while changed:
        changed = False
        for i in ids:
            if i == 0:
                continue
            ps = [dom[p] for p in preds[i]]
            new = (set.intersection(*ps) if ps else set()) | {i}
            if new != dom[i]:
                dom[i] = new
                changed = True
    return dom


def mir_calls(body, pred):
    """(block id, terminator) of Call terminators whose callee/inst satisfies pred."""
    out = []
    for i, b in mir_blocks(body).items():
        t = b["term"]
        if t["k"] == "Call":
            c = facts_norm(t.get("inst") or t.get("callee") or "")
            if pred(c):
                out.append((i, t))
    return out


def facts_norm(p):
    import facts
    return facts.norm_path(p)


def mir_reachable(body, start):
    blocks = mir_blocks(body)
    seen = set()
    st = [start]
    while st:
        x = st.pop()
        if x in seen or x not in blocks:
            continue
        seen.add(x)
        st.extend(blocks[x]["term"]["succ"])
    return seen
