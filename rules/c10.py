"""C10 - the public API never panics: panic-site audit and asserting-sink discharge."""
import formula as F
import schema as S
import common
import facts
import re
from interp import known_fns
from common import CERT_FN, CSR_FN, CRL_FN
from interp import core, places, calls_of, roots, Interp, CallV, PhiV, StructV, Via, MutV, Def, Const

PROP = "C10"
CONFIGS_QUICK = ["K1", "K2", "K3", "K4"]
CONFIGS_THOROUGH = ["K1", "K2", "K3", "K4", "K0", "K5"]
EXPLANATION = (
    "Static: (audit) every explicit panic construct in the non-test, non-derived MIR of rcgen and the CLI (calls into core::panicking, "
    "Option/Result unwrap/expect, slice/array Index(Mut) calls, Assert terminators for bounds, overflow and division) is enumerated per "
    "cfg configuration and must match an entry of the audited table keyed (function, construct) with a class: announced (the public "
    "function's rustdoc says it panics, checked on the extracted doc string), unreachable (exhaustiveness of the algorithm comparison "
    "chain is re-derived: the panic's path condition negates an equality against every algorithm static of the configuration and "
    "SignatureAlgorithm has only private fields), guarded (the site's path condition contains the required length test), structural "
    "(index literals below the chunks_exact width; shift table below the bit width; constant non-zero divisors), or invariant (reason "
    "recorded). An unlisted site, or more sites than audited, is a violation. (sinks) every call of a yasna function that asserts on its "
    "arguments (write_ia5_string, write_printable_string, write_oid, UTCTime/GeneralizedTime::from_datetime, SET/SET OF element writers) "
    "found in the abstract TLV trees must discharge the assertion by provenance: the argument comes from a validated wrapper whose "
    "alphabet is contained in the sink's, is a crate constant / algorithm-static field whose evaluated value satisfies the precondition, "
    "or is dominated by a condition that implies it. Undischarged sinks are genuine panics for constructible parameters; those recorded in "
    "known_findings.json are reported as KNOWN-FINDING. Not decided: panics/aborts/non-termination inside dependencies other than the "
    "modelled argument asserts; allocation failure.")
ASSUMPTIONS = [
    "yasna 0.5.2 argument asserts are exactly the modelled ones (write_ia5_string: ASCII; write_printable_string: its alphabet; write_oid: >= 2 arcs, first < 3, second < 40 unless first == 2; UTCTime::from_datetime: UTC year 1950..=2049 and zero nanoseconds; GeneralizedTime::from_datetime: UTC year 0..=9999; SET/SET OF: every element non-empty)",
    "x509-parser, pem, ring, aws-lc-rs, time do not panic on the inputs rcgen hands them",
    "arithmetic overflow sites classified 'invariant' cannot be reached with realistic sizes (lengths far below usize::MAX / 8)",
]

YASNA_VERSION = "0.5.2"

# (crate, function, construct) -> (max sites, class, reason)
AUDIT = {
    ("rcgen", "certificate::CustomExtension::new_acme_identifier", "call:panicking::assert_failed"): (1, "announced", "rustdoc: panics if the digest is not 32 bytes"),
    ("rcgen", "key_pair::KeyPair::serialize_der", "call:panicking::panic_fmt"): (1, "announced", "rustdoc: panics if called on a remote key pair"),
    ("rcgen", "key_pair::KeyPair::serialized_der", "call:panicking::panic_fmt"): (1, "announced", "rustdoc: panics if called on a remote key pair"),
    ("rcgen", "certificate::date_time_ymd", "call:Result::expect"): (2, "announced-by-property", "impossible calendar dates (named as an announced exception in the property statement)"),
    ("rcgen", "key_pair::KeyPair::from_pkcs8_der_and_sign_algo", "call:panicking::panic_fmt"): (1, "unreachable-exh", "every algorithm static is compared before the panic; SignatureAlgorithm cannot be constructed outside the crate"),
    ("rcgen", "key_pair::KeyPair::from_der_and_sign_algo", "call:panicking::panic_fmt"): (1, "unreachable-exh", "every algorithm static is compared before the panic"),
    ("rcgen", "certificate::CertificateParams::convert_x509_general_subtrees", "call:Index::index"): (4, "guarded-len", "range indexing ..4/4.. (..16/16..) under the arm guard len == 8 (32)"),
    ("rcgen", "certificate::CertificateParams::convert_x509_general_subtrees", "call:Result::unwrap"): (4, "guarded-len", "try_into of a slice whose length is fixed by the arm guard"),
    ("rcgen", "string::BmpString::from_utf16be", "assert:BoundsCheck"): (2, "chunks", "chunk[i] with i < 2 on chunks_exact(2)"),
    ("rcgen", "string::UniversalString::from_utf32be", "assert:BoundsCheck"): (4, "chunks", "chunk[i] with i < 4 on chunks_exact(4)"),
    ("rcgen", "string::BmpString::from_utf16be", "assert:RemainderByZero"): (1, "const-divisor", "len % 2"),
    ("rcgen", "string::UniversalString::from_utf32be", "assert:RemainderByZero"): (1, "const-divisor", "len % 4"),
    ("rcgen", "certificate::CertificateParams::write_key_usage", "assert:DivisionByZero"): (1, "const-divisor", "(bits + 7) / 8"),
    ("rcgen", "KeyUsagePurpose::to_u16", "assert:Overflow(Shr)"): (1, "shift-table", "FLAG >> n with n in 0..=8 < 16"),
    ("rcgen", "KeyIdMethod::derive", "call:Index::index"): (1, "invariant", "digest[0..20]: SHA-256/384/512 outputs are >= 32 octets (range checked by C02.ski)"),
    ("rcgen", "certificate::CertificateParams::serialize_der_with_signer", "call:Index::index"): (1, "invariant", "SHA-256 digest [0..20] (range checked by C05.serial)"),
    ("rcgen", "certificate::CertificateParams::serialize_der_with_signer", "call:IndexMut::index_mut"): (1, "invariant", "sl[0] on the 20-element vector just built"),
    ("rcgen", "certificate::CertificateParams::write_key_usage", "assert:Overflow(Sub)"): (1, "invariant", "16 - trailing_zeros(u16) where trailing_zeros <= 16"),
    ("rcgen", "certificate::CertificateParams::write_key_usage", "assert:Overflow(Add)"): (1, "invariant", "bits + 7 with bits <= 16"),
    ("rcgen", "certificate::CertificateParams::write_key_usage", "call:Index::index"): (1, "invariant", "bytes[..(bits + 7) / 8] with bits <= 16 on a 2-byte array"),
    ("rcgen", "key_pair::KeyPair::generate_for", "call:Result::unwrap"): (2, "invariant", "re-parse of the PKCS#8 document the back end generated a moment ago"),
    ("rcgen", "dt_strip_nanos", "call:Result::expect"): (1, "invariant", "Time::from_hms of hour/minute/second taken from a valid time"),
    ("rcgen", "key_pair::serialize_public_key_der", "assert:Overflow(Mul)"): (1, "invariant", "pk.len() * 8 for public keys of at most a few hundred octets"),
}
KNOWN_ASSERTS = ("BoundsCheck", "Overflow", "DivisionByZero", "RemainderByZero")
PANICKY = ("core::panicking", "::unwrap", "::expect", "unwrap_failed", "expect_failed", "::unwrap_err", "::expect_err", "Index::index", "IndexMut::index_mut", "begin_panic", "assert_failed")
NOT_PANICKY = ("unwrap_or", "unwrap_or_default", "unwrap_or_else")
# std functions that take a position / size and panic when it is out of range, not on a character boundary, or zero
# (documented "# Panics" sections); each call site is audited like an explicit panic site unless its position argument is
# evidently harmless (see std_position_ok)
PANICKY_STD = (
    "std::string::String::truncate", "std::string::String::remove", "std::string::String::insert", "std::string::String::insert_str", "std::string::String::split_off",
    "std::string::String::drain", "std::string::String::replace_range", "core::str::<impl str>::split_at", "core::str::<impl str>::split_at_mut",
    "std::vec::Vec::remove", "std::vec::Vec::insert", "std::vec::Vec::swap_remove", "std::vec::Vec::split_off", "std::vec::Vec::drain", "std::vec::Vec::extend_from_within",
    "core::slice::<impl [T]>::split_at", "core::slice::<impl [T]>::split_at_mut", "core::slice::<impl [T]>::swap", "core::slice::<impl [T]>::rotate_left", "core::slice::<impl [T]>::rotate_right",
    "core::slice::<impl [T]>::copy_within", "core::slice::<impl [T]>::chunks", "core::slice::<impl [T]>::chunks_exact", "core::slice::<impl [T]>::chunks_mut", "core::slice::<impl [T]>::chunks_exact_mut",
    "core::slice::<impl [T]>::rchunks", "core::slice::<impl [T]>::windows", "core::slice::<impl [T]>::copy_from_slice", "core::slice::<impl [T]>::clone_from_slice",
    "std::iter::Iterator::step_by", "std::char::from_digit", "core::char::methods::<impl char>::from_digit", "std::cell::RefCell::borrow", "std::cell::RefCell::borrow_mut",
    "std::collections::VecDeque::remove", "std::collections::VecDeque::insert", "std::collections::VecDeque::swap",
)

# yasna's PrintableString acceptance set (writer/mod.rs, write_printable_string)
YASNA_PRINTABLE = set(b" =") | set(range(ord("'"), ord(":") + 1)) - {ord("*")} | set(range(ord("A"), ord("Z") + 1)) | set(range(ord("a"), ord("z") + 1))


def full_range_index(crate, body_name, term):
    """the indexing expression(s) on the call's source line are all `x[..]` (RangeFull)"""
    b = crate.bodies.get(body_name) or {}
    if "hir" not in b and "{closure" in body_name:
        b = crate.bodies.get(body_name.split("::{closure")[0]) or {}
    nodes = [n for n in common.hir_walk(b.get("hir") or {}) if n.get("k") == "Index" and n.get("sp") == term.get("sp")]
    return bool(nodes) and all((n["idx"].get("ty") or "").endswith("std::ops::RangeFull") for n in nodes)


def _peel(e):
    while e and e.get("k") in ("AddrOf", "Deref", "Paren") or (e and e.get("k") == "Unary" and e.get("op") == "*"):
        e = e.get("e")
    return e


_CUR_CRATE = [None]


def _int_lit(e):
    """the value of an integer literal or of a constant expression over literals and integer `const` items"""
    e = _peel(e)
    while e and e.get("k") == "Cast":
        e = _peel(e.get("e"))
    if e is None:
        return None
    if e.get("k") == "Lit" and isinstance(e.get("v"), int) and not isinstance(e.get("v"), bool):
        return e.get("v")
    if e.get("k") == "Path" and e.get("res") == "def" and "Const" in (e.get("dk") or "") and "Ctor" not in (e.get("dk") or "") and _CUR_CRATE[0] is not None:
        import ceval, facts
        try:
            v = ceval.Eval(_CUR_CRATE[0], budget=200_000).const(facts.norm_path(e.get("def")))
        except Exception:
            return None
        return v if isinstance(v, int) and not isinstance(v, bool) else None
    if e.get("k") == "Binary" and e.get("op") in ("+", "-", "*"):
        l_, r_ = _int_lit(e.get("l")), _int_lit(e.get("r"))
        if l_ is None or r_ is None:
            return None
        v = l_ + r_ if e["op"] == "+" else (l_ - r_ if e["op"] == "-" else l_ * r_)
        return v if 0 <= v < 2 ** 63 else None
    return None


def slice_len(b, at, e, depth=0):
    """The statically known length of the slice expression `e` evaluated at node `at` of body `b`, or None.
    Only immutable locals are followed (a binding that is never assigned / mutably borrowed)."""
    if depth > 6:
        return None
    e = _peel(e)
    if e is None:
        return None
    if e.get("k") == "Index" and (e.get("idx") or {}).get("k") == "Struct":
        pass
    if e.get("k") == "Index":
        idx = e.get("idx") or {}
        ty = idx.get("ty") or ""
        flds = {f_.get("name"): f_.get("e") for f_ in (idx.get("fields") or [])}
        # `x[a..b]` / `x[..b]` has length b - a / b whenever it is evaluated at all (the indexing itself is a separate,
        # separately audited site)
        if ty.endswith("Range<usize>") and _int_lit(flds.get("start")) is not None and _int_lit(flds.get("end")) is not None and _int_lit(flds.get("end")) >= _int_lit(flds.get("start")):
            return _int_lit(flds.get("end")) - _int_lit(flds.get("start"))
        if ty.endswith("RangeTo<usize>") and _int_lit(flds.get("end")) is not None:
            return _int_lit(flds.get("end"))
        base = slice_len(b, at, e.get("base"), depth + 1)
        if ty.endswith("RangeTo<usize>") and _int_lit(flds.get("end")) is not None and base is not None and _int_lit(flds.get("end")) <= base:
            return _int_lit(flds.get("end"))
        if ty.endswith("RangeFrom<usize>") and _int_lit(flds.get("start")) is not None and base is not None and _int_lit(flds.get("start")) <= base:
            return base - _int_lit(flds.get("start"))
        if ty.endswith("RangeFull"):
            return base
        return None
    if e.get("k") != "Path" or e.get("res") != "local":
        return None
    hid = e.get("hid")
    if hid in _assigned_locals(b["hir"]):
        return None
    # (1) a guard on the path to `at`: `<local>.len() == N`
    def conj(c):
        return conj(c["l"]) + conj(c["r"]) if c.get("k") == "Binary" and c.get("op") == "&&" else [c]

    def eq_len(c):
        for c_ in conj(c):
            if c_.get("k") == "Binary" and c_.get("op") == "==":
                for l_, r_ in ((c_["l"], c_["r"]), (c_["r"], c_["l"])):
                    l0 = _peel(l_)
                    if l0 and l0.get("k") == "MethodCall" and l0.get("name") == "len" and (l0.get("callee") or "").endswith(("<impl [T]>::len", "Vec::len")) and _int_lit(r_) is not None:
                        lr = _peel(l0.get("recv"))
                        if lr and lr.get("k") == "Path" and lr.get("hid") == hid:
                            return _int_lit(r_)
        return None
    for node, ps in common.hir_walk_p(b["hir"]):
        if node is at:
            for p_ in ps:
                if p_.get("k") == "Match":
                    for a in p_["arms"]:
                        if a.get("guard") and any(x is at for x in common.hir_walk(a["body"])) and eq_len(a["guard"]) is not None:
                            return eq_len(a["guard"])
                    sc = _peel(p_.get("scrut"))
                    if sc and sc.get("k") == "MethodCall" and sc.get("name") == "len" and (_peel(sc.get("recv")) or {}).get("hid") == hid:
                        for a in p_["arms"]:
                            if a["pat"].get("k") == "Expr" and isinstance(a["pat"]["e"].get("v"), int) and any(x is at for x in common.hir_walk(a["body"])):
                                return a["pat"]["e"]["v"]
                if p_.get("k") == "If" and p_["c"].get("k") != "LetCond" and any(x is at for x in common.hir_walk(p_["t"])) and eq_len(p_["c"]) is not None:
                    return eq_len(p_["c"])
            break
    # (3) the element parameter of a closure driven by `x.chunks_exact(k)` / `x.windows(k)` (every element has length k)
    for node, ps in common.hir_walk_p(b["hir"]):
        if node.get("k") == "Closure" and len(node.get("params") or []) == 1 and node["params"][0].get("k") == "Binding" and node["params"][0].get("hid") == hid and ps:
            par = ps[-1]
            if par.get("k") == "MethodCall" and par.get("name") in ("all", "any", "map", "for_each", "filter", "filter_map", "find", "find_map", "position", "try_for_each", "flat_map", "take_while", "skip_while", "inspect"):
                src = _peel(par.get("recv"))
                while src and src.get("k") == "MethodCall" and src.get("name") in ("rev", "skip", "take", "step_by", "by_ref", "peekable"):
                    src = _peel(src.get("recv"))
                if src and src.get("k") == "MethodCall" and src.get("name") in ("chunks_exact", "windows", "rchunks_exact") and (src.get("callee") or "").startswith("core::slice::") \
                        and _int_lit((src.get("args") or [None])[0]):
                    return _int_lit(src["args"][0])
            return None
    # (2) bound by `let (a, b) = x.split_at(k)` / `let a = <slice expr>`
    for node in common.hir_walk(b["hir"]):
        if node.get("k") == "Let" and node.get("init") is not None and node.get("els") is None:
            pat = node["pat"]
            init = _peel(node["init"])
            if pat.get("k") == "Binding" and pat.get("hid") == hid and not pat.get("mut"):
                return slice_len(b, node["init"], node["init"], depth + 1)
            if pat.get("k") == "Tuple" and len(pat.get("pats") or []) == 2 and init and init.get("k") == "MethodCall" and init.get("name") in ("split_at",) \
                    and "str" not in (init.get("callee") or ""):
                for i_, sp_ in enumerate(pat["pats"]):
                    if sp_.get("k") == "Binding" and sp_.get("hid") == hid and not sp_.get("mut"):
                        k_ = _int_lit((init.get("args") or [None])[0])
                        whole = slice_len(b, init, init.get("recv"), depth + 1)
                        if k_ is None or whole is None or k_ > whole:
                            return None
                        return k_ if i_ == 0 else whole - k_
    return None


def exact_len_conversion(crate, b, e, depth=0):
    """`e` is a conversion of a byte slice into `[u8; N]` / `&[u8; N]` that succeeds exactly when the slice has N
    elements (`try_into`, `<[u8; N]>::try_from`, either followed by `.ok()`, or a helper added by a later change whose
    whole body is such a conversion of its parameter): returns the slice expression, else None."""
    e = _peel(e)
    if e is None or depth > 3:
        return None
    k = e.get("k")
    if k == "Block" and not e.get("stmts") and e.get("expr"):
        return exact_len_conversion(crate, b, e["expr"], depth)
    if k == "MethodCall" and e.get("name") == "ok" and (e.get("callee") or "").endswith("Result::ok"):
        return exact_len_conversion(crate, b, e.get("recv"), depth)
    src = None
    if k == "MethodCall" and e.get("name") == "try_into":
        src = e.get("recv")
    elif k == "Call" and (e.get("callee") or "").endswith("::try_from") and len(e.get("args") or []) == 1:
        src = e["args"][0]
    if src is not None:
        import re as _re
        sty = ((_peel(src) or {}).get("ty") or src.get("ty") or "").replace("&", "").replace("mut ", "").strip()
        if sty in ("[u8]", "std::vec::Vec<u8>", "Vec<u8>") and _re.search(r"\[u8; \w+\]", e.get("ty") or ""):
            return src
        return None
    if k == "Call" and common.facts_norm(e.get("callee") or "") in crate.bodies and common.facts_norm(e.get("callee") or "") not in known_fns(crate.name):
        hb = crate.bodies[common.facts_norm(e["callee"])]
        inner = _peel(exact_len_conversion(crate, hb, hb.get("hir"), depth + 1)) if hb.get("hir") else None
        if inner and inner.get("k") == "Path" and inner.get("res") == "local":
            for i_, p_ in enumerate(hb.get("params", [])):
                if p_.get("k") == "Binding" and p_.get("hid") == inner.get("hid") and not p_.get("mut") and i_ < len(e.get("args") or []):
                    return e["args"][i_]
    return None


def exact_len_unwraps(crate, bn):
    """every `unwrap()` / `expect()` of the body is applied to an exact-length conversion of a slice whose length is, on
    that path, the array length asked for"""
    import re as _re
    b = crate.bodies.get(bn) or {}
    if "hir" not in b and "::{closure" in bn:
        b = crate.bodies.get(bn.split("::{closure")[0]) or {}
    if "hir" not in b:
        return False
    n_ = 0
    for node in common.hir_walk(b["hir"]):
        if node.get("k") == "MethodCall" and node.get("name") in ("unwrap", "expect") and (node.get("callee") or "").endswith(("Option::unwrap", "Option::expect", "Result::unwrap", "Result::expect")):
            n_ += 1
            r = node.get("recv")
            m = _re.search(r"\[u8; (\d+)\]", (r or {}).get("ty") or "")
            src = exact_len_conversion(crate, b, r)
            if not m or src is None or slice_len(b, node, src) != int(m.group(1)):
                return False
    return n_ > 0


def _body_hir(crate, bn):
    b = crate.bodies.get(bn) or {}
    if "hir" not in b and "::{closure" in bn:
        b = crate.bodies.get(bn.split("::{closure")[0]) or {}
    return b.get("hir")


def len_plus_len(crate, bn):
    """every `+` of the body whose type is usize adds buffer lengths and small literals only"""
    hir = _body_hir(crate, bn)
    if hir is None:
        return False
    def is_len(e):
        e = _peel(e)
        if e is None:
            return False
        if e.get("k") == "MethodCall" and e.get("name") == "len" and (e.get("callee") or "").endswith(("<impl [T]>::len", "Vec::len", "String::len", "<impl str>::len")):
            return True
        if _int_lit(e) is not None and 0 <= _int_lit(e) <= 4096:
            return True
        if e.get("k") == "Binary" and e.get("op") == "+":
            return is_len(e.get("l")) and is_len(e.get("r"))
        return False
    adds = [n for n in common.hir_walk(hir) if n.get("k") == "Binary" and n.get("op") == "+" and (n.get("ty") or "") == "usize"]
    return bool(adds) and all(is_len(n) for n in adds)


def literal_array_index(crate, bn):
    """every Index expression of the body with a literal index addresses a fixed-size array within its length, and there
    is no other kind of (non-range) index expression"""
    import re as _re
    hir = _body_hir(crate, bn)
    if hir is None:
        return False
    idxs = [n for n in common.hir_walk(hir) if n.get("k") == "Index" and not ((n.get("idx") or {}).get("ty") or "").startswith("std::ops::Range")]
    if not idxs:
        return False
    for n in idxs:
        i_ = _int_lit(n.get("idx"))
        m = _re.search(r"\[[^;\[\]]+; (\d+)\]$", ((n.get("base") or {}).get("ty") or "").lstrip("&").replace("mut ", ""))
        if i_ is None or not m or not (0 <= i_ < int(m.group(1))):
            return False
    return True


def std_position_ok(crate, body_name, callee, term):
    """A position-taking std call that cannot panic by construction:
       chunks* / windows / step_by with a non-zero literal size; Vec::insert(0, _); a position that is the literal 0 for
       split_at / rotate; split_at(k) of an immutable local slice under a `len == N` / `len >= N` guard with N >= k; copy_from_slice / clone_from_slice into a fixed-size array under a `len == N` test of the source
       (decided on the HIR call node at the same source line)."""
    b = crate.bodies.get(body_name) or {}
    if "hir" not in b and "::{closure" in body_name:
        b = crate.bodies.get(body_name.split("::{closure")[0]) or {}      # a closure's expressions are in its parent's HIR
    last = callee.split("::")[-1]
    line = term.get("sp")
    nodes = [n for n in common.hir_walk(b.get("hir") or {}) if n.get("k") == "MethodCall" and n.get("name") == last and n.get("sp") == line]
    if len(nodes) != 1:
        return False
    n = nodes[0]
    args = n.get("args") or []

    _CUR_CRATE[0] = crate
    lit = _int_lit
    if last in ("chunks", "chunks_exact", "chunks_mut", "chunks_exact_mut", "rchunks", "windows", "step_by"):
        return bool(args) and (lit(args[0]) or 0) > 0
    if last in ("insert",) and "Vec" in callee:
        return bool(args) and lit(args[0]) == 0
    if last in ("remove", "swap_remove") and "Vec" in callee and args:
        # `if let Some(i) = v.iter().position(..) { v.remove(i); .. }`: the index was just found in the same vector (forward
        # iteration, nothing in between)
        def _place(e):
            e = _peel(e)
            if e is None:
                return None
            if e.get("k") == "Field":
                b_ = _place(e.get("base"))
                return None if b_ is None else b_ + "." + e.get("name", "?")
            if e.get("k") == "Path" and e.get("res") == "local":
                return "#%s" % e.get("hid")
            return None
        a0 = _peel(args[0])
        tgt = _place(n.get("recv"))
        if not a0 or a0.get("k") != "Path" or a0.get("res") != "local" or tgt is None:
            return False
        for node, ps in common.hir_walk_p(b["hir"]):
            if node is n:
                for p_ in reversed(ps):
                    if p_.get("k") == "If" and (p_.get("c") or {}).get("k") == "LetCond":
                        lc = p_["c"]
                        init = _peel(lc.get("init"))
                        pat = lc.get("pat") or {}
                        binds = [x for x in common.hir_walk(pat) if x.get("k") == "Binding" and x.get("hid") == a0.get("hid")]
                        if not binds or not init or init.get("k") != "MethodCall" or init.get("name") != "position":
                            return False
                        it = _peel(init.get("recv"))
                        if not it or it.get("k") != "MethodCall" or it.get("name") != "iter" or _place(it.get("recv")) != tgt:
                            return False
                        # first thing done in the branch
                        then = p_.get("t") or {}
                        first = (then.get("stmts") or [{}])[0].get("e") if then.get("stmts") else then.get("expr")
                        return first is not None and any(x is n for x in common.hir_walk(first)) and not [x for x in common.hir_walk(first) if x.get("k") == "MethodCall" and x is not n and _place(x.get("recv")) == tgt]
                return False
        return False
    if last in ("split_at", "split_at_mut", "rotate_left", "rotate_right", "split_off") and "str" not in callee and "String" not in callee:
        if bool(args) and lit(args[0]) == 0:
            return True
        # a literal position k on an immutable local slice, inside a match arm / `if` whose guard has the conjunct
        # `<that local>.len() == N` or `>= N` with N >= k
        k = lit(args[0]) if args else None
        r = n.get("recv")
        while r and r.get("k") in ("AddrOf", "Deref"):
            r = r.get("e")
        if k is None or last not in ("split_at", "split_at_mut") or not r or r.get("k") != "Path" or r.get("res") != "local":
            return False
        hid = r.get("hid")
        if hid in _assigned_locals(b["hir"]):
            return False
        whole_ = slice_len(b, n, n.get("recv"))
        if whole_ is not None and k <= whole_:
            return True        # the slice's length is fixed on this path (a `len == N` guard, a `match x.len() { N => .. }` arm)

        def conj(e):
            if e.get("k") == "Binary" and e.get("op") == "&&":
                return conj(e["l"]) + conj(e["r"])
            return [e]

        def bounds(e):
            for c_ in conj(e):
                if c_.get("k") == "Binary" and c_.get("op") in ("==", ">=") and c_["l"].get("k") == "MethodCall" and c_["l"].get("name") == "len" \
                        and (c_["l"].get("callee") or "").endswith(("<impl [T]>::len", "Vec::len")) and lit(c_["r"]) is not None:
                    lr = c_["l"].get("recv")
                    while lr and lr.get("k") in ("AddrOf", "Deref"):
                        lr = lr.get("e")
                    if lr and lr.get("k") == "Path" and lr.get("hid") == hid and lit(c_["r"]) >= k:
                        return True
            return False
        for node, ps in common.hir_walk_p(b["hir"]):
            if node is n:
                for p_ in ps:
                    if p_.get("k") == "Match":
                        for a in p_["arms"]:
                            if a.get("guard") and any(x is n for x in common.hir_walk(a["body"])) and bounds(a["guard"]):
                                return True
                    if p_.get("k") == "If" and p_["c"].get("k") != "LetCond" and any(x is n for x in common.hir_walk(p_["t"])) and bounds(p_["c"]):
                        return True
                return False
        return False
    if last in ("copy_from_slice", "clone_from_slice"):
        import re as _re
        m = _re.search(r"\[\w+; (\d+)\]", (n.get("recv") or {}).get("ty", ""))
        if not m:
            return False
        width = int(m.group(1))
        # the source's length is derivable: a head / tail of an immutable local slice whose length is fixed by the
        # enclosing `len == N` guard (`x.split_at(k)` -> (k, N - k); `x[..k]` -> k; `x[k..]` -> N - k)
        if args and slice_len(b, n, args[0]) == width:
            return True
        # the enclosing arms / ifs test `<src>.len() == width` (match on len with a literal arm, or an == comparison)
        for node, ps in common.hir_walk_p(b["hir"]):
            if node is n:
                for p_ in ps:
                    if p_.get("k") == "Match" and p_["scrut"].get("k") == "MethodCall" and p_["scrut"].get("name") == "len":
                        for a in p_["arms"]:
                            if a["pat"].get("k") == "Expr" and a["pat"]["e"].get("v") == width and any(x is n for x in common.hir_walk(a["body"])):
                                return True
                return False
    return False


def sites(crate):
    out = []
    for name, b in crate.bodies.items():
        if "mir" not in b:
            continue
        owner = facts.norm_path(b["parent_fn"]) if b.get("parent_fn") else name
        if common.is_test_fn(owner) or owner in crate.derived_fns:
            continue
        for blk in b["mir"]["blocks"]:
            if blk.get("cleanup"):
                continue
            t = blk["term"]
            if t["k"] == "Call":
                c0 = facts.norm_path(t.get("callee") or "")
                if any(p in c0 for p in PANICKY) and not c0.endswith(NOT_PANICKY):
                    if c0.endswith(("Index::index", "IndexMut::index_mut")) and full_range_index(crate, name, t):
                        continue      # `x[..]` cannot be out of range
                    out.append((owner, "call:" + "::".join(c0.split("::")[-2:]), t, name))
                elif c0 in PANICKY_STD and not std_position_ok(crate, name, c0, t):
                    out.append((owner, "call:" + "::".join(c0.split("::")[-2:]), t, name))
            elif t["k"] == "Assert":
                if t["assert"].startswith(KNOWN_ASSERTS):
                    out.append((owner, "assert:" + t["assert"], t, name))
    return out


def audit(cfg, crate, cname, rep):
    _CUR_CRATE[0] = crate
    by = {}
    by_body = {}
    G = None
    for owner, cons, t, body in sites(crate):
        if owner not in known_fns(crate.name):
            # a helper introduced by a later change: its sites belong to the (single) audited function that calls it
            if G is None:
                G, _ = call_graph(crate)
            o1 = attributed_owner(crate, G, owner)
            if o1 == owner and o1 not in known_fns(crate.name):
                # a helper shared by several audited functions (a common `-> !` failure routine): each of them has the site
                owners_ = sorted(common.known_owners(crate, owner))
                if len(owners_) > 1 and all(o_ in known_fns(crate.name) for o_ in owners_):
                    for o_ in owners_:
                        by.setdefault((cname, o_, cons), []).append(t)
                        by_body.setdefault((cname, o_, cons), []).append((o_, cons, t, body))
                    continue
            owner = o1
        by.setdefault((cname, owner, cons), []).append(t)
        by_body.setdefault((cname, owner, cons), []).append((owner, cons, t, body))
    n = 0
    for key, ts in sorted(by.items()):
        n += len(ts)
        ent = AUDIT.get(key)
        k = "%s|%s|%s|%s" % (cfg, key[0], key[1], key[2])
        if ent is None and key[2] == "assert:Overflow(Add)" and all(len_plus_len(crate, bn) for bn in sorted({t_[3] for t_ in by_body.get(key, [])})):
            rep.ob("C10.audit", k + "|len-plus-len", True, "overflow check of `<buffer>.len() + <buffer>.len()` (+ small literals): two in-memory buffers are together shorter than usize::MAX")
            continue
        if ent is None and key[2] == "assert:BoundsCheck" and all(literal_array_index(crate, bn) for bn in sorted({t_[3] for t_ in by_body.get(key, [])})):
            rep.ob("C10.audit", k + "|literal-array-index", True, "every index expression of the function that is not otherwise audited is a literal below the length of a fixed-size array")
            continue
        if ent is None and key[2] == "assert:Overflow(Mul)" and all(len_times_small(crate, bn, 1) for bn in sorted({t_[3] for t_ in by_body.get(key, [])})):
            rep.ob("C10.audit", k + "|len-times-constant", True, "overflow check of `<buffer>.len() * c` with c <= 8: an in-memory buffer is far shorter than usize::MAX / 8")
            continue
        if ent is None and key[2] in ("call:Option::unwrap", "call:Option::expect", "call:Result::unwrap", "call:Result::expect") \
                and all(exact_len_unwraps(crate, bn) for bn in sorted({t_[3] for t_ in by_body.get(key, [])})):
            rep.ob("C10.audit", k + "|exact-length-conversion", True, "every unwrap of the function is applied to a slice-to-array conversion of a slice whose length is fixed to the array length on that path")
            continue
        def _finite():
            return finite_discharge(crate, key[1], sorted({t_[3] for t_ in by_body.get(key, [])}), key[2])
        if ent is None and key[2].startswith(("assert:Overflow", "assert:BoundsCheck", "assert:DivisionByZero", "assert:RemainderByZero", "call:")):
            ok_fd, why_fd = _finite()
            if ok_fd:
                rep.ob("C10.audit", k + "|finite-domain", True, "panic site discharged by exhaustive constant propagation: " + why_fd)
                continue
        if ent is None:
            rep.fail("C10.audit", k, "unaudited panic site: %d occurrence(s) of %s in %s; reachable panics must be replaced by an Err return or audited" % (len(ts), key[2], key[1]), sp=ts[0].get("sp"))
            continue
        mx, cls, reason = ent
        rep.ob("C10.audit", k + "|count", len(ts) <= mx, "more panic sites of this kind than were audited", expected="<= %d" % mx, found=len(ts), sp=ts[-1].get("sp"))
        ok, detail = mechanised(cfg, crate, key, cls, ts, sorted({t_[3] for t_ in by_body.get(key, [])}))
        if not ok:
            # the audited idiom is gone: the site may still be provably safe on its (finite) domain
            ok_fd, why_fd = _finite()
            if ok_fd:
                rep.ob("C10.audit", k + "|finite-domain", True, "panic site discharged by exhaustive constant propagation: " + why_fd)
                continue
        rep.ob("C10.audit", k + "|" + cls, ok, "%s: %s%s" % (cls, reason, ("; " + detail) if detail else ""), sp=ts[0].get("sp"))
    return n


def attributed_owner(crate, G, fn):
    """nearest audited (known) function through which the new helper `fn` is exclusively reached"""
    seen = set()
    cur = fn
    for _ in range(8):
        if cur in known_fns(crate.name) or cur in seen:
            return cur
        seen.add(cur)
        callers = sorted({c.split("::{closure")[0] for c, es in G.items() if cur in es and c.split("::{closure")[0] != cur})
        if len(callers) != 1:
            return fn
        cur = callers[0]
    return fn


_FINITE = {"bool": 2, "u8": 256, "i8": 256, "u16": 65536, "i16": 65536}


def _domain(crate, ty):
    """all values of a small finite type, or None"""
    import ceval
    ty = (ty or "").lstrip("&").replace("mut ", "").strip()
    if ty == "bool":
        return [False, True]
    if ty in ("u8", "u16"):
        return list(range(_FINITE[ty]))
    if ty in ("i8", "i16"):
        h = _FINITE[ty] // 2
        return list(range(-h, h))
    if ty.startswith(("yasna::DERWriter", "yasna::writer::DERWriter")):
        return [ceval.OPAQUE]       # an output sink: its state does not influence any arithmetic (effects are not modelled)
    vals = ceval.enum_values(crate, ty)
    if vals:
        return vals
    m = re.match(r"^std::option::Option<(.+)>$", ty)
    if m:
        inner = _domain(crate, m.group(1))
        if inner is not None:
            return [ceval.NONE] + [ceval.Some(x) for x in inner]
    return None


_FD_CACHE = {}


def finite_discharge(crate, owner, body_names, construct):
    """Prove that no arithmetic / bounds assert of `owner` can fire.
    (a) every parameter of the function has a small finite type: the whole function is evaluated for every argument
        tuple (<= 70000) - no Panic may occur;
    (b) otherwise, for every arithmetic / index expression of the function, the expression alone is evaluated for every
        value of its free local variables, which must all have small finite types.
    Unsupported constructs make the proof fail (the site is then reported as unaudited)."""
    import ceval
    import itertools
    for bn in body_names or [owner]:
        b = crate.bodies.get(bn)
        if (b is None or "hir" not in b) and "{closure" in bn:
            b = crate.bodies.get(bn.split("::{closure")[0])      # a closure's expressions are in its parent's HIR
        if b is None or "hir" not in b:
            return False, "no HIR for %s" % bn
        in_closure = "{closure" in bn
        if in_closure:
            # a closure handed to a writer runs as part of its parent: evaluate the parent (the evaluator runs closures
            # given to unmodelled calls with opaque arguments)
            pb_ = crate.bodies.get(bn.split("::{closure")[0])
            if pb_ is not None and "hir" in pb_ and pb_.get("params") is not None and all(_domain(crate, p_.get("ty")) is not None for p_ in pb_["params"]):
                b, bn, in_closure = pb_, bn.split("::{closure")[0], False
        doms = [_domain(crate, p_.get("ty")) for p_ in b.get("params", [])] if not in_closure else [None]
        size = 1
        for d in doms:
            size *= len(d) if d is not None else 10 ** 9
        if b.get("params") is not None and all(d is not None for d in doms) and size <= 70000:
            ck_ = (id(crate), bn)
            if ck_ in _FD_CACHE:
                r_ = _FD_CACHE[ck_]
                if r_ is not True:
                    return False, r_
                why = "%s evaluated for all %d argument tuples without a failing check" % (bn, size)
                continue
            E = ceval.Eval(crate, budget=20_000_000)
            # effect-capturing mode with a pattern that matches nothing: unmodelled foreign calls (encoders, constructors of
            # foreign types) yield an opaque value; using such a value in a condition or in arithmetic is still Unsupported
            E.capture = "<nothing>"
            try:
                for args in itertools.product(*doms):
                    E.call(bn, list(args))
            except ceval.Panic as e:
                _FD_CACHE[ck_] = "%s panics for %s: %s" % (bn, args, e)
                return False, _FD_CACHE[ck_]
            except ceval.Unsupported as e:
                _FD_CACHE[ck_] = "not evaluable: %s" % e
                return False, _FD_CACHE[ck_]
            _FD_CACHE[ck_] = True
            why = "%s evaluated for all %d argument tuples without a failing check" % (bn, size)
            continue
        # (b) expression-level (arithmetic / bounds asserts only: a panicking call needs the whole function)
        if not construct.startswith("assert:"):
            return False, "%s: not every parameter has a small finite type" % bn
        kind = construct.split(":", 1)[1]
        want_ops = {"Overflow(Add)": "+", "Overflow(Sub)": "-", "Overflow(Mul)": "*", "Overflow(Shl)": "<<", "Overflow(Shr)": ">>", "DivisionByZero": "/", "RemainderByZero": "%", "Overflow(Div)": "/", "Overflow(Rem)": "%", "Overflow(Neg)": "neg"}
        exprs = []
        for n in common.hir_walk(b["hir"]):
            if kind.startswith("BoundsCheck") and n["k"] == "Index":
                exprs.append(n)
            elif n["k"] in ("Binary", "AssignOp") and want_ops.get(kind) == n.get("op", "").rstrip("="):
                if ceval.int_ty(n.get("ty")) or ceval.int_ty((n.get("l") or {}).get("ty")):
                    exprs.append(n)
        if not exprs:
            return False, "no matching expression found in %s" % bn
        total = 0
        if kind in ("Overflow(Shl)", "Overflow(Shr)"):
            # a shift only fails when the amount is >= the width: a literal amount below the width of the shifted type
            # is safe whatever the shifted value is
            def _lit_amount_ok(ex):
                r_ = ex.get("r") or {}
                while r_.get("k") in ("Cast", "AddrOf"):
                    r_ = r_["e"]
                t_ = ceval.int_ty(ex.get("ty")) or ceval.int_ty((ex.get("l") or {}).get("ty"))
                return r_.get("k") == "Lit" and isinstance(r_.get("v"), int) and t_ is not None and 0 <= r_["v"] < t_[1]
            if all(_lit_amount_ok(ex) for ex in exprs):
                why = "%d shift(s) in %s by a literal amount below the operand width" % (len(exprs), bn)
                continue
        for ex in exprs:
            if ex["k"] == "AssignOp":
                return False, "compound assignment"
            free = {}
            for m_ in common.hir_walk(ex):
                if m_["k"] == "Path" and m_.get("res") == "local":
                    free[m_["hid"]] = m_.get("ty")
                if m_["k"] in ("Closure", "Ret", "Break", "Continue", "Assign", "AssignOp", "Try"):
                    return False, "expression has control flow / effects"
            doms = [(hid, _domain(crate, ty)) for hid, ty in sorted(free.items())]
            size = 1
            for _, d in doms:
                size *= len(d) if d is not None else 10 ** 9
            if any(d is None for _, d in doms) or size > 70000:
                return False, "free variables of the expression at %s are not of small finite types (%s)" % (ex.get("sp"), sorted(set(free.values())))
            E = ceval.Eval(crate, budget=20_000_000)
            try:
                for vals in itertools.product(*[d for _, d in doms]):
                    E.ev(ex, {hid: v for (hid, _), v in zip(doms, vals)})
            except ceval.Panic as e:
                return False, "expression at %s panics for %s: %s" % (ex.get("sp"), vals, e)
            except ceval.Unsupported as e:
                return False, "not evaluable: %s" % e
            total += size
        why = "%d expression(s) of %s evaluated for all %d value tuples of their free variables" % (len(exprs), bn, total)
    return True, why


def len_times_small(crate, fn, count):
    """Every multiplication in `fn` (closures included) is `<x>.len() * c` / `c * <x>.len()` with a literal c <= 8."""
    bodies = [b for k_, b in crate.bodies.items() if (k_ == fn) and "hir" in b]
    if not bodies:
        return False
    muls = [n for n in common.hir_walk(bodies[0]["hir"]) if n["k"] == "Binary" and n["op"] == "*"]
    if len(muls) < count or not muls:
        return False
    def is_len(e):
        while e["k"] in ("AddrOf", "Unary", "Cast"):
            e = e["e"]
        return e["k"] == "MethodCall" and e["name"] == "len"
    def small(e):
        return e["k"] == "Lit" and isinstance(e.get("v"), int) and 0 < e["v"] <= 8
    return all((is_len(m["l"]) and small(m["r"])) or (is_len(m["r"]) and small(m["l"])) for m in muls)


def mechanised(cfg, crate, key, cls, ts, bodies=None):
    cname, fn, cons = key
    if cls == "announced":
        f = crate.fns.get(fn)
        doc = (f or {}).get("doc", "")
        return ("anic" in doc and (f or {}).get("reachable", False)), "rustdoc %s" % ("mentions the panic" if "anic" in doc else "does NOT mention a panic")
    if cls == "unreachable-exh":
        I = Interp(crate)
        I.run_fn(fn)
        conds = [cnd for c, a, n, cnd, f in I.calls if c.endswith("panicking::panic_fmt") and f == fn]
        if len(conds) != 1:
            return False, "panic call not found by the interpreter"
        compared = set()
        for a in F.atoms(conds[0]):
            if a[0] == "eq":
                for x in a[1:]:
                    if isinstance(x, str) and "sign_algo::algo::PKCS_" in x:
                        compared.add(x.split("::")[-1].replace("{}", ""))
        # under the panic's path condition every comparison must be false
        neg = all(not F.evalf(conds[0], {b: (b == a) for b in F.atoms(conds[0])}) for a in F.atoms(conds[0]) if a[0] == "eq")
        statics = {s.split("::")[-1] for s in crate.statics if s.startswith("sign_algo::algo::PKCS_")}
        adt = crate.adts.get("sign_algo::SignatureAlgorithm")
        private = adt is not None and all(f["vis"] != "pub" for f in adt["variants"][0]["fields"])
        return (compared == statics and neg and private and len(statics) >= 7), "compared %d of %d statics; fields private: %s" % (len(compared & statics), len(statics), private)
    if cls == "guarded-len":
        if cons in ("call:Result::unwrap", "call:Option::unwrap") and not all(exact_len_unwraps(crate, bn_) for bn_ in (bodies or [fn])):
            return False, "an unwrap of the function is not applied to a slice-to-array conversion of a slice whose length is, on that path, the array length"
        I = Interp(crate)
        I.run_fn(fn)
        ok = True
        cnt = 0
        for c, a, n, cnd, f in I.calls:
            if f == fn and (c.endswith(("Result::unwrap", "Option::unwrap")) or c.endswith("::index") or "Index::index" in c):
                cnt += 1
                lens = [x for x in F.atoms(cnd) if x[0] == "eq" and "len(" in str(x[1]) and x[2] in ("8", "32", 8, 32)]
                if not lens:
                    ok = False
        return ok and cnt >= 1, "%d site(s) under a len == 8|32 condition" % cnt
    if cls == "chunks":
        b = crate.body(fn)
        width = None
        idx = []
        for n in common.hir_walk(b["hir"]):
            if n["k"] == "MethodCall" and n["name"] == "chunks_exact" and n["args"] and n["args"][0]["k"] == "Lit":
                width = n["args"][0]["v"]
            if n["k"] == "Index" and n["idx"]["k"] == "Lit":
                idx.append(n["idx"]["v"])
        return (width is not None and idx and max(idx) < width), "chunks_exact(%s), indices %s" % (width, sorted(set(idx)))
    if cls == "const-divisor":
        b = crate.body(fn)
        divs = [n for n in common.hir_walk(b["hir"]) if n["k"] == "Binary" and n["op"] in ("/", "%")]
        ok = divs and all(d["r"]["k"] == "Lit" and d["r"].get("v") not in (0, None) for d in divs)
        return bool(ok), "divisors %s" % [d["r"].get("v") for d in divs]
    if cls == "shift-table":
        tab = None
        I = Interp(crate)
        v = core(I.run_fn(fn)["value"])
        from interp import OpV
        if isinstance(v, OpV) and v.op == ">>" and isinstance(core(v.args[1]), PhiV):
            vals = [I.concrete(x) for c, x in core(v.args[1]).alts]
            return all(isinstance(x, int) and 0 <= x < 16 for x in vals), "shift amounts %s" % vals
        return False, "shift table not extractable"
    return True, ""


# ---------------------------------------------------------------------------
# sinks

def oid_ok(c):
    return isinstance(c, list) and len(c) >= 2 and all(isinstance(x, int) and x >= 0 for x in c) and c[0] < 3 and (c[0] >= 2 or c[1] < 40)


def alg_static_oids_ok(crate, I):
    bad = []
    for s in crate.statics:
        if s.startswith("sign_algo::algo::PKCS_"):
            v = core(I.const_value(s))
            if not isinstance(v, StructV):
                bad.append(s)
                continue
            oids = I.concrete(v.fields.get("oids_sign_alg")) or []
            comps = I.concrete(v.fields.get("oid_components"))
            allo = list(oids) + [comps]
            pv = core(v.fields.get("params"))
            if isinstance(pv, StructV) and pv.fields.get("hash_algorithm") is not None:
                allo.append(I.concrete(pv.fields["hash_algorithm"]))
            if not all(oid_ok(o) for o in allo):
                bad.append(s)
    return bad


def sinks(cfg, crate, rep):
    n = 0
    I0 = Interp(crate)
    bad_alg = alg_static_oids_ok(crate, I0)
    rep.ob("C10.sinks", "%s|algorithm-static-oids" % cfg, not bad_alg, "every OID stored in an algorithm static satisfies write_oid's precondition (evaluated)", found=bad_alg)
    for fn in (CERT_FN, CSR_FN, CRL_FN):
        art = common.artefact(crate, fn)
        rep.fn(fn)
        for node, path, cond, reps in S.walk(art.outer):
            if node["t"] == "Prim":
                m = node["m"]
                arg = node["args"][0] if node["args"] else None
                where = node.get("fn")
                if m == "write_ia5_string":
                    n += 1
                    via = calls_of(arg)
                    ok = any(v.endswith("string::Ia5String::as_str") or v.endswith("Ia5String as std::convert::AsRef<str>>::as_ref") for v in via)
                    rep.ob("C10.sinks", "write_ia5_string|%s" % "+".join(sorted({_gen(p) for p in places(arg)})), ok,
                           "yasna's write_ia5_string asserts ASCII: a plain String reaches it, so a caller-constructible non-ASCII value panics during serialisation (the argument does not come from a validated Ia5String)",
                           expected="argument obtained through Ia5String::as_str", found=core(arg).r()[:160], sp=node.get("sp"))
                elif m == "write_printable_string":
                    n += 1
                    via = calls_of(arg)
                    wrapped = any(v.endswith("string::PrintableString::as_str") for v in via)
                    alpha = printable_alphabet(crate)
                    contained = alpha is not None and alpha <= YASNA_PRINTABLE
                    extra = sorted(chr(x) for x in (alpha - YASNA_PRINTABLE)) if alpha is not None else None
                    rep.ob("C10.sinks", "write_printable_string", wrapped and contained,
                           "yasna's write_printable_string asserts its own alphabet, which lacks %s that rcgen's PrintableString admits: a valid PrintableString containing it panics during serialisation" % extra,
                           expected="wrapper alphabet contained in the sink's", found="admitted but not writable: %s" % extra, sp=node.get("sp"))
                elif m == "write_oid":
                    n += 1
                    oid_sink(cfg, crate, art, node, arg, where, rep)
                elif m in ("write_utctime", "write_generalized_time"):
                    n += 1
                    time_sink(cfg, art, node, arg, cond, where, rep)
            if node.get("nexts") is not None and (node["t"] in ("Set", "SetOf") or (node["t"] == "Tagged" and node.get("was_implicit_over") in ("Set", "SetOf"))):
                n += 1
                kids = S.flatten(node["c"])
                ok = len(kids) == len(node["nexts"])
                if ok:
                    # ... on exactly the paths on which it was obtained: `let w = set.next(); if c { w.write(..) }` leaves an
                    # empty element behind when c is false
                    for (kc, kreps, kn), nx in zip(kids, node["nexts"]):
                        nc = nx[0]
                        same = (kc is nc) or (kc == nc)
                        if not same:
                            try:
                                same = not F.counterexamples(kc, nc, "equiv")
                            except ValueError:
                                same = False
                        if not same:
                            ok = False
                rep.ob("C10.sinks", "%s|%s-elements|%s" % (cfg, node["t"], fn.split("::")[-1]), ok, "every element writer obtained from a SET / SET OF writer is written to (yasna asserts non-empty elements)", expected=len(node["nexts"]), found=len(kids), sp=node.get("sp"))
    rep.floor("C10.sinks", "asserting sink call sites in the artefact trees (%s)" % cfg, n, 40)


def _gen(p):
    """Type-level source of a place, independent of the artefact, the list it sits in and the function that writes it:
    `<list field>[]<selectors after the element>` or '<field>'."""
    p = p.replace("DistinguishedName::iter(", "").replace(")", "")
    if "[]" in p:
        head, tail = p.rsplit("[]", 1)
        fld = head.rsplit(".", 1)[-1]
        fld = {"permitted_subtrees": "subtrees", "excluded_subtrees": "subtrees"}.get(fld, fld)
        return fld + "[]" + tail
    return "<field>"


def printable_alphabet(crate):
    """Set of bytes admitted by PrintableString's validating constructor (computed from its rejection formula)."""
    import bytepred
    return bytepred.byte_acceptance(crate, "<string::PrintableString as std::convert::TryFrom<std::string::String>>::try_from")[0]


def pat_bytes(p):
    k = p["k"]
    if k == "Or":
        out = set()
        for x in p["pats"]:
            out |= pat_bytes(x)
        return out
    if k == "Expr" and p["e"]["k"] == "Lit":
        return {p["e"]["v"]}
    if k == "Range":
        lo, hi = p["lo"]["v"], p["hi"]["v"]
        return set(range(lo, hi + (1 if p["incl"] else 0)))
    return set()


def oid_sink(cfg, crate, art, node, arg, where, rep):
    I = art.I
    v = core(arg)
    alts = []

    def expand(x):
        x = core(x)
        if isinstance(x, PhiV):
            for c, y in x.alts:
                expand(y)
        elif isinstance(x, CallV) and x.callee.endswith("ObjectIdentifier::from_slice") and x.args:
            expand(x.args[0])
        elif isinstance(x, CallV) and x.callee in crate.bodies and not any(isinstance(core(a), (Def, Const)) for a in x.args):
            # local table function (DnType::to_oid, ExtendedKeyUsagePurpose::oid, alg_ident_oid): evaluate its alternatives
            sub = Interp(crate)
            r = core(sub.run_fn(x.callee)["value"])
            # re-root the callee's `self` on the caller's argument for reporting
            expand_local(r, x, sub)
        else:
            alts.append((x, I))

    def expand_local(r, call, sub):
        r = core(r)
        if isinstance(r, PhiV):
            for c, y in r.alts:
                expand_local(y, call, sub)
        elif isinstance(r, CallV) and r.callee.endswith("ObjectIdentifier::from_slice") and r.args:
            expand_local(r.args[0], call, sub)
        else:
            alts.append((r, sub, call))
    expand(v)
    for alt in alts:
        x, J = alt[0], alt[1]
        call = alt[2] if len(alt) > 2 else None
        c = J.concrete(x)
        if c is not None:
            rep.ob("C10.sinks", "write_oid|const:%s" % ( ".".join(str(i) for i in c) if isinstance(c, list) else c), oid_ok(c), "constant OID satisfies write_oid's precondition", found=c, sp=node.get("sp"))
            continue
        pl = places(x)
        src = "+".join(sorted(_gen(p) for p in pl))
        if call is not None:
            src = "%s:%s" % (call.callee.split("::")[-2] + "::" + call.callee.split("::")[-1], "+".join(sorted(x.replace("self", "", 1) for x in pl)))
        # fields of a &'static SignatureAlgorithm are discharged by the evaluated statics
        if pl and all((".alg." in p or p.endswith(".alg") or "PublicKeyData::algorithm" in core(x).r() or p.startswith("self.oid_components") or p.startswith("self.oids_sign_alg") or "alg.params" in p) for p in pl) and ("alg" in core(x).r()):
            rep.ob("C10.sinks", "write_oid|%s" % src, True, "OID comes from an algorithm static (all evaluated by algorithm-static-oids)")
            continue
        if call is not None and call.callee.endswith("alg_ident_oid"):
            rep.ob("C10.sinks", "write_oid|%s" % src, True, "OID comes from an algorithm static")
            continue
        rep.fail("C10.sinks", "write_oid|%s" % src,
                 "yasna's write_oid asserts `>= 2 arcs, first < 3, second < 40 unless first == 2`: a caller-supplied component list reaches it unvalidated, so e.g. an empty or one-element OID panics during serialisation",
                 expected="a crate constant or a validated OID type", found=core(x).r()[:160], sp=node.get("sp"))


def time_sink(cfg, art, node, arg, cond, where, rep):
    v = core(arg)
    pl = "+".join(sorted(_gen(p) for p in places(arg)))
    if node["m"] == "write_utctime":
        # precondition: UTC year in 1950..2050 and zero nanoseconds
        # the call must be dominated by a test implying 1950 <= UTC year < 2050: find the integer quantity tested,
        # require it to be the year of the UTC-normalised value, and evaluate the path condition for every year
        ats = []
        on_utc = False
        year_atoms = {}
        for a in F.atoms(cond):
            if a[0] in ("inrange", "cmp"):
                for x in art.I.atom_vals.get(a, ()):
                    if x is not None and any(c.endswith("OffsetDateTime::year") for c in calls_of(x)) and any(c.endswith("OffsetDateTime::to_offset") for c in calls_of(x)):
                        year_atoms[a] = core(x).r()
        # named bounds (`UTC_TIME_FIRST_YEAR`) are evaluated before the integer semantics is applied
        conc = {a: common.concretise(art.I, ("atom", a))[1] for a in year_atoms}
        if year_atoms and len(set(year_atoms.values())) == 1:
            var = next(iter(year_atoms.values()))
            others = [a for a in F.atoms(cond) if a not in year_atoms]
            ok_all = True
            import itertools
            for bits in itertools.product([False, True], repeat=min(len(others), 6)):
                base = dict(zip(others, bits))
                for y in list(range(1900, 2100)) + [-5, 0, 9999, 10000]:
                    asg = dict(base)
                    for a in year_atoms:
                        asg[a] = F.int_semantics(("atom", conc[a]), var, y)
                    if None in asg.values():
                        ok_all = False
                        break
                    if F.evalf(cond, asg) and not (1950 <= y < 2050):
                        ok_all = False
                        break
                if not ok_all:
                    break
            ats = list(year_atoms)
            on_utc = ok_all
        stripped = "dt_strip_nanos" in calls_of(arg)
        rep.ob("C10.sinks", "UTCTime::from_datetime", bool(ats) and on_utc and stripped,
               "UTCTime::from_datetime asserts UTC year 1950..=2049 and zero nanoseconds: the call must be dominated by that very test on the UTC-normalised value and receive the truncated value",
               found="dominating range test on UTC value: %s, truncated: %s" % (on_utc, stripped), sp=node.get("sp"))
    else:
        ats = [a for a in F.atoms(cond) if a[0] in ("inrange", "cmp") and ("9999" in str(a) or "10000" in str(a))]
        rep.ob("C10.sinks", "GeneralizedTime::from_datetime", bool(ats),
               "GeneralizedTime::from_datetime asserts UTC year 0..=9999: nothing bounds the year on this path, so a date in a negative year (the time type admits -9999..=9999) panics during serialisation instead of returning Err",
               expected="a dominating year-range test or an Err return", found="no bound on the year", sp=node.get("sp"))


# ---------------------------------------------------------------------------------------------------------------------
# C10.term: nothing fails to terminate
# ---------------------------------------------------------------------------------------------------------------------
# strongly connected components of the local call graph that were read and found to terminate: sorted member tuple -> why
RECURSION_AUDIT = {
}
# `loop` / `while` statements that were read and found to terminate: function -> why
LOOP_AUDIT = {
}
INFINITE_ITER = ("std::iter::Repeat", "std::iter::Cycle", "std::ops::RangeFrom", "std::iter::Successors", "std::iter::FromFn", "std::iter::RepeatWith")


def call_graph(crate):
    """Resolved local call graph: MIR Call terminators (trait calls resolved to the selected impl; `into` /
    `try_into` forwarded through core's blanket impls to the From / TryFrom impl; unresolved calls of a *local* trait's
    method go to every local impl), functions mentioned as values (callbacks), and closures (from their parent)."""
    import re
    G = {}
    impls = {}
    for fn in crate.bodies:
        m = re.match(r"^<(.+) as ([^<>]+(?:<.*>)?)>::(\w+)$", fn)
        if m:
            tr = re.sub(r"<.*$", "", m.group(2))
            if not tr.startswith(("std::", "core::", "alloc::")):
                impls.setdefault(tr + "::" + m.group(3), []).append(fn)
    n_edges = 0
    for fn, b in crate.bodies.items():
        es = set()
        if "mir" in b:
            for i, t in common.mir_calls(b, lambda c: True):
                for key in ("fwd", "inst", "callee"):
                    c = common.facts_norm(t.get(key) or "")
                    if c in crate.bodies:
                        es.add(c)
                        break
                c = common.facts_norm(t.get("callee") or "")
                if not t.get("inst") and c in impls:
                    es.update(impls[c])
        if "hir" in b:
            for n in common.hir_walk(b["hir"]):
                if n["k"] == "Path" and n.get("dk") in ("Fn", "AssocFn"):
                    d = common.facts_norm(n.get("def") or "")
                    if d in crate.bodies:
                        es.add(d)
        G[fn] = es
        n_edges += len(es)
    for fn in list(G):
        if "{closure" in fn:
            par = fn.split("::{closure")[0]
            if par in G:
                G[par].add(fn)
    return G, n_edges


def sccs(G):
    """non-trivial strongly connected components (iterative Tarjan)"""
    index = {}
    low = {}
    on = set()
    stack = []
    out = []
    counter = [0]
    for root in G:
        if root in index:
            continue
        work = [(root, iter(sorted(G.get(root, ()))))]
        index[root] = low[root] = counter[0]
        counter[0] += 1
        stack.append(root)
        on.add(root)
        while work:
            v, it = work[-1]
            adv = False
            for w in it:
                if w not in G:
                    continue
                if w not in index:
                    index[w] = low[w] = counter[0]
                    counter[0] += 1
                    stack.append(w)
                    on.add(w)
                    work.append((w, iter(sorted(G.get(w, ())))))
                    adv = True
                    break
                elif w in on:
                    low[v] = min(low[v], index[w])
            if adv:
                continue
            work.pop()
            if work:
                u = work[-1][0]
                low[u] = min(low[u], low[v])
            if low[v] == index[v]:
                comp = []
                while True:
                    w = stack.pop()
                    on.discard(w)
                    comp.append(w)
                    if w == v:
                        break
                if len(comp) > 1 or v in G.get(v, ()):
                    out.append(sorted(comp))
    return out


def _assigned_locals(node):
    out = set()
    for m in common.hir_walk(node):
        if m["k"] in ("Assign", "AssignOp"):
            l = m["l"]
            while l["k"] in ("Field", "Index", "Unary", "AddrOf"):
                l = l.get("base") or l.get("e")
            if l["k"] == "Path" and l.get("res") == "local":
                out.add(l["hid"])
        if m["k"] == "AddrOf" and m.get("mut") and m["e"]["k"] == "Path" and m["e"].get("res") == "local":
            out.add(m["e"]["hid"])
        if m["k"] == "MethodCall" and m["recv"]["k"] == "Path" and m["recv"].get("res") == "local" and (m["recv"].get("ty") or "").startswith(("std::vec::Vec", "&mut ", "std::collections")):
            if m["name"] in ("push", "push_back", "push_front", "insert", "extend", "extend_from_slice", "append"):
                out.add(("grow", m["recv"]["hid"]))
    return out


def bounded_loop(n):
    """A `while` whose termination is evident from its shape, else None.
    (a) `while let Some(..) = <local>.next()` (also next_back / pop / pop_front / pop_back, the latter only when the body
        never grows the collection): the iterator / collection is finite and shrinks every round;
    (b) `while <i> < <bound>` (also <=, !=) where the body's own top-level statements increase `i` by a positive literal,
        nothing else assigns `i`, and no local of the bound is assigned in the body."""
    body = n.get("body") or {}
    stmts = body.get("stmts") or []
    if stmts and stmts[0].get("k") == "Let" and stmts[0].get("els") is not None and stmts[0].get("init"):
        # `loop { let Some(x) = it.next() else { break }; .. }`
        st0 = stmts[0]
        init = st0["init"]
        somepat = (st0["pat"].get("ctor_of") or st0["pat"].get("def") or "")
        exits = [m["k"] for m in common.hir_walk(st0["els"]) if m["k"] in ("Break", "Ret", "Continue")]
        if init["k"] == "MethodCall" and init["name"] in ("next", "next_back") and somepat.endswith("Some") and exits and all(x in ("Break", "Ret") for x in exits):
            r = init["recv"]
            while r["k"] == "AddrOf":
                r = r["e"]
            if r["k"] == "Path" and r.get("res") == "local":
                return "loop { let Some(..) = iterator.next() else { break } .. }"
    inner = body.get("expr")
    if inner is None and len(body.get("stmts", [])) == 1:
        inner = body["stmts"][0].get("e")
    if not inner or inner["k"] != "If":
        return None
    els = inner.get("e")
    if not els or not any(m["k"] == "Break" for m in common.hir_walk(els)):
        return None
    c = inner["c"]
    then = inner["t"]
    if c["k"] == "LetCond":
        init = c["init"]
        if init["k"] == "MethodCall" and init["recv"]["k"] in ("Path", "AddrOf"):
            r = init["recv"]
            while r["k"] == "AddrOf":
                r = r["e"]
            if r["k"] == "Path" and r.get("res") == "local":
                somepat = (c["pat"].get("ctor_of") or c["pat"].get("def") or "")
                if not somepat.endswith("Some"):
                    return None
                if init["name"] in ("next", "next_back"):
                    return "while let Some(..) = iterator.next()"
                if init["name"] in ("pop", "pop_front", "pop_back") and ("grow", r["hid"]) not in _assigned_locals(then):
                    return "while let Some(..) = collection.pop() without growth"
        return None
    if c["k"] == "Binary" and c["op"] in ("<", "<=", "!=") and c["l"]["k"] == "Path" and c["l"].get("res") == "local":
        i = c["l"]["hid"]
        steps = []
        if then["k"] == "Block":
            for st in then["stmts"]:
                e = st.get("e") or {}
                if e.get("k") == "AssignOp" and e["op"].startswith("+") and e["l"]["k"] == "Path" and e["l"].get("hid") == i and e["r"]["k"] == "Lit" and isinstance(e["r"].get("v"), int) and e["r"]["v"] > 0:
                    steps.append(e)
        others = [m for m in common.hir_walk(then) if m["k"] in ("Assign", "AssignOp") and m["l"]["k"] == "Path" and m["l"].get("hid") == i and m not in steps]
        bound_locals = {m["hid"] for m in common.hir_walk(c["r"]) if m["k"] == "Path" and m.get("res") == "local"}
        if len(steps) == 1 and not others and not (bound_locals & {x for x in _assigned_locals(then) if not isinstance(x, tuple)}) and not any(m["k"] == "Continue" for m in common.hir_walk(then)):
            if c["op"] == "!=" and steps[0]["r"]["v"] != 1:
                return None
            return "counter loop with a constant positive step"
    return None


def termination(cfg, crate, rep):
    G, n_edges = call_graph(crate)
    live = {fn for fn in G if not common.is_test_fn(fn)}
    comps = [c for c in sccs(G) if any(f in live for f in c)]
    rep.ob("C10.term", "%s|call-graph-acyclic" % cfg, all(tuple(c) in RECURSION_AUDIT for c in comps),
           "the resolved local call graph has no cycle outside the audited ones (recursion on attacker-controlled input is unbounded stack use: abort, not Err)",
           found=[c for c in comps if tuple(c) not in RECURSION_AUDIT][:4])
    for c in comps:
        if tuple(c) not in RECURSION_AUDIT:
            rep.fail("C10.term", "%s|cycle|%s" % (cfg, " -> ".join(c)), "call cycle: %s" % " -> ".join(c + [c[0]]), sp=crate.bodies[c[0]].get("sp"))
    n_for = 0
    for fn, b in crate.bodies.items():
        if "hir" not in b or fn not in live:
            continue
        if (b.get("dk") or "").startswith(("Const", "AssocConst", "Static", "AnonConst", "InlineConst")):
            continue     # evaluated by the compiler: a non-terminating initialiser does not compile
        for n in common.hir_walk(b["hir"]):
            if n["k"] in ("Loop", "While"):
                why = bounded_loop(n)
                rep.ob("C10.term", "%s|loop|%s" % (cfg, fn), fn in LOOP_AUDIT or why is not None, "`loop` / `while` statements terminate: a recognised bounded idiom (%s) or an audited loop" % (why or "while-let over next()/pop(), counter < bound with a constant positive step"), sp=n.get("sp"))
            elif n["k"] == "For":
                n_for += 1
                ity = (n.get("iter") or {}).get("ty", "")
                bad = [x for x in INFINITE_ITER if x in ity]
                rep.ob("C10.term", "%s|for|%s|finite-iterator" % (cfg, fn), not bad, "`for` loops iterate finite std iterators (no repeat / cycle / open range sources)", found=ity[:120], sp=n.get("sp"))
    rep.floor("C10.term", "call-graph edges (%s)" % cfg, n_edges, 4 if cfg.endswith(":lib") else (20 if cfg.endswith(":bin") else 180))
    rep.floor("C10.term", "functions in the call graph (%s)" % cfg, len(G), 10 if cfg.endswith(":lib") else (30 if cfg.endswith(":bin") else 400))
    rep.sample({"rule": "C10.term", "cfg": cfg, "functions": len(G), "edges": n_edges, "cycles": len(comps), "for_loops": n_for})



def run(ctx):
    rep = ctx.rep
    total = 0
    cfgs = CONFIGS_QUICK if ctx.tier == "quick" else CONFIGS_THOROUGH
    for cfg in cfgs:
        if cfg in ("K4", "K5"):
            for cname, f in (("rustls_cert_gen", "rustls_cert_gen.lib.json"), ("rustls_cert_gen", "rustls_cert_gen.bin.json")):
                total += audit(cfg + ":" + f.split(".")[1], ctx.crate(cfg, f), cname, rep)
                termination(cfg + ":" + f.split(".")[1], ctx.crate(cfg, f), rep)
            continue
        crate = ctx.crate(cfg)
        total += audit(cfg, crate, "rcgen", rep)
        sinks(cfg, crate, rep)
        termination(cfg, crate, rep)
        if cfg == "K1":
            # the provenance discharge of the asserting string sinks (`write_ia5_string` asserts ASCII, ..) rests on the
            # wrappers admitting only what their sink accepts: the admission predicates are part of "never panics"
            import c13
            common.borrow_rules(rep, lambda: (c13.alpha(cfg, crate, rep), c13.sink(cfg, crate, rep)), "C13.", "C10.strings")
    rep.floor("C10.audit", "explicit panic sites enumerated", total, 60)
    # the sink model is frozen from one yasna version
    import os
    lock = open(os.path.join(facts.REPO, "Cargo.lock")).read()
    i = lock.find('name = "yasna"')
    ver = lock[i:i + 80].split('version = "')[1].split('"')[0] if i >= 0 else None
    rep.ob("C10.sinks", "yasna-version", ver == YASNA_VERSION, "the asserting-sink model is frozen from yasna %s (Cargo.lock pins %s); re-derive the model before trusting it for another version" % (YASNA_VERSION, ver), expected=YASNA_VERSION, found=ver)
