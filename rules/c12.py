"""C12 - constraints placed in certificates are enforced by independent validators (necessary writer-side conditions)."""
import formula as F
import schema as S
import refs as R
from refs import Seq, Tagged, Prim, Cond, Rep, Choice, Time, P, C, ext
import common
from common import CERT_FN
import c02
from interp import core, places, Interp

PROP = "C12"
CONFIGS_QUICK = ["K1"]
CONFIGS_THOROUGH = ["K1", "K2", "K3"]
EXPLANATION = (
    "The verdict of OpenSSL/webpki is NOT decided (runtime behaviour of independent validators). Decided statically are the necessary "
    "conditions at the writer sites the property anchors - a validator can only enforce a constraint that is encoded where and how "
    "RFC 5280 says: basicConstraints critical, cA TRUE exactly in the Ca arm, pathLenConstraint INTEGER n exactly for Constrained(n), "
    "nothing for NoCa; nameConstraints critical with permitted_subtrees under [0] and excluded_subtrees under [1] (a swap is caught), "
    "bases tagged per the GeneralName table (dNSName [2], iPAddress [7] = address||mask, directoryName [4] EXPLICIT), no minimum/maximum; "
    "keyUsage critical with the RFC bit numbers; extKeyUsage OIDs per the id-kp table; validity = SEQUENCE { notBefore, notAfter } in that "
    "order. The rule instances are the C02/C05 schema instances restricted to the constraint-bearing sites.")
ASSUMPTIONS = ["independent validators implement RFC 5280 section 6; their verdicts are not analysed", "yasna encoders"]


def run(ctx):
    rep = ctx.rep
    for cfg in (CONFIGS_QUICK if ctx.tier == "quick" else CONFIGS_THOROUGH):
        crate = ctx.crate(cfg)
        art = common.artefact(crate, CERT_FN)
        art.rep = rep
        rep.fn(CERT_FN, "certificate::write_general_subtrees", "certificate::CertificateParams::write_key_usage")
        key = "%s|%s" % (cfg, CERT_FN)
        if art.tbs is None:
            rep.fail("C12.schema", key, "no TBSCertificate")
            continue
        ref = c02.reference_tbs(cfg != "K3", art)[0]
        # pick the constraint-bearing parts of the reference and of the inferred tree
        ref_exts = None
        for c, r, n in S.flatten(ref["c"]):
            if n["t"] == "Tagged" and n["n"] == 3:
                ref_exts = n["c"][0]["c"]
        want_keys = {"oid:2.5.29.19": "C12.bc", "oid:2.5.29.30": "C12.nc", "oid:2.5.29.15": "C12.ku", "oid:2.5.29.37": "C12.eku"}
        inf_exts = None
        for n, p, c, r in S.walk(art.tbs):
            if n["t"] == "Tagged" and S.tag_str(art.I, n["tag"]) == "[3]":
                inf_exts = [k for k in n["c"] if k["t"] == "Seq"][0]["c"]
        if inf_exts is None:
            rep.fail("C12.schema", key + "|extensions", "no [3] extensions block")
            continue
        for okey, rule in want_keys.items():
            rsl = [(c, r, n) for c, r, n in S.flatten(S.canon_ref(ref_exts)) if S.oid_key(art.I, n) == okey]
            fsl = [(c, r, n) for c, r, n in S.flatten(inf_exts) if S.oid_key(art.I, n) == okey]
            m = S.Matcher(art.I, rep, rule, key)
            m.match_unordered(rsl, fsl, ("extensions",))
            rep.floor(rule, "schema nodes (%s)" % cfg, m.n, 1)
        # validity order
        val = [n for c, r, n in S.flatten(art.tbs[0]["c"]) if n["t"] == "Seq" and any(k["t"] == "Prim" and k["kind"] in ("UTCTime", "GeneralizedTime") for cc, rr, k in S.flatten(n["c"]))]
        m = S.Matcher(art.I, rep, "C12.validity", key)
        m.match_list(S.canon_ref([Seq([Time("self.not_before"), Time("self.not_after")])]), val, ("validity",))
        # tables (bit numbers, EKU OIDs, GeneralName tags)
        before = len(rep.obligations)
        c02.check_tables(cfg, crate, rep) if cfg in ("K1", "K2") else None
        for o in rep.obligations[before:]:
            o["rule"] = "C12.tables"
            o["key"] = o["key"].replace("C02.tables", "C12.tables")
        # validators apply the constraint extensions only to version 3 certificates (webpki rejects anything else;
        # OpenSSL treats a self-signed v1 certificate as a CA)
        import c05
        arts_ = [common.artefact(crate, f) for f in (CERT_FN, c05.CSR_FN, c05.CRL_FN)]
        if all(a.tbs is not None for a in arts_):
            common.borrow_rules(rep, lambda: c05.check_versions(cfg, arts_, rep), "C05.", "C12.version")
        # a leaf issued from a request carries the requested purposes or the request is refused: an unknown purpose that
        # is silently dropped yields a leaf without the restriction the requester asked for
        import c06
        from interp import Interp as _I6
        if c06.FN in crate.bodies:
            def _wl():
                I6 = _I6(crate)
                I6.run_fn(c06.FN)
                c06.whitelist(cfg, crate, crate.body(c06.FN), I6, rep, "%s|%s" % (cfg, c06.FN))
            common.borrow_rules(rep, _wl, "C06.", "C12.csr")
        # "validity windows": the instants validators compare with the verification time are the caller's instants only
        # if both bounds go through the shared time writer (UTC instant, whole seconds of the *same* value, form by UTC year)
        import c09
        common.borrow_rules(rep, lambda: (c09.single(cfg, crate, rep), c09.helper(cfg, crate, rep)), "C09.", "C12.time")
        rep.sample({"rule": "C12", "cfg": cfg, "sites": sorted(want_keys.values())})
