"""Propositional condition algebra (analysis B).

Formulas are nested tuples:
    True | False | ('atom', key) | ('not', f) | ('and', (f, ...)) | ('or', (f, ...))
Atom keys are tuples whose first element names the kind:
    ('empty', place) ('some', place) ('variant', place, Variant) ('true', place)
    ('eq', a, b) ('cmp', op, a, b) ('contains', place, x) ('opaque', text)
Equivalence / implication are decided by enumerating all assignments of the
atoms (<= MAX_ATOMS) under the one-hot constraint for `variant` atoms of one place.
"""
import itertools

MAX_ATOMS = 18
ENUMS = []   # variant-name sets of the analysed crate's enums (plus Ok/Err), for exhaustive one-hot groups


def atom(*key):
    return ("atom", tuple(key))


def Not(f):
    if f is True:
        return False
    if f is False:
        return True
    if f[0] == "not":
        return f[1]
    return ("not", f)


def And(*fs):
    out = []
    for f in fs:
        if f is True:
            continue
        if f is False:
            return False
        if f[0] == "and":
            out.extend(f[1])
        else:
            out.append(f)
    ded = []
    for f in out:
        if f not in ded:
            ded.append(f)
    if not ded:
        return True
    if len(ded) == 1:
        return ded[0]
    return ("and", tuple(ded))


def Or(*fs):
    out = []
    for f in fs:
        if f is False:
            continue
        if f is True:
            return True
        if f[0] == "or":
            out.extend(f[1])
        else:
            out.append(f)
    ded = []
    for f in out:
        if f not in ded:
            ded.append(f)
    if not ded:
        return False
    if len(ded) == 1:
        return ded[0]
    return ("or", tuple(ded))


def atoms(f, acc=None):
    if acc is None:
        acc = []
    if f is True or f is False:
        return acc
    if f[0] == "atom":
        if f[1] not in acc:
            acc.append(f[1])
    elif f[0] == "not":
        atoms(f[1], acc)
    else:
        for g in f[1]:
            atoms(g, acc)
    return acc


def evalf(f, asg):
    if f is True or f is False:
        return f
    if f[0] == "atom":
        return asg[f[1]]
    if f[0] == "not":
        return not evalf(f[1], asg)
    if f[0] == "and":
        return all(evalf(g, asg) for g in f[1])
    return any(evalf(g, asg) for g in f[1])


def assignments(atom_list):
    """All assignments respecting: at most one `variant` atom true per place."""
    if len(atom_list) > MAX_ATOMS:
        raise ValueError("too many atoms (%d) to enumerate" % len(atom_list))
    groups = {}
    free = []
    for a in atom_list:
        if a[0] == "variant":
            groups.setdefault(a[1], []).append(a)
        else:
            free.append(a)
    group_choices = []
    for place, members in groups.items():
        names = {m[2] for m in members}
        # which enums of the analysed crate could this place be? (ENUMS is filled by the harness)
        cands = [e for e in ENUMS if names <= e]
        other_possible = (not cands) or any(e - names for e in cands)
        ch = ([None] if other_possible else []) + members  # None = some other variant
        group_choices.append((members, ch))
    for bits in itertools.product([False, True], repeat=len(free)):
        base = dict(zip(free, bits))
        for picks in itertools.product(*[ch for _, ch in group_choices]):
            asg = dict(base)
            for (members, _), pick in zip(group_choices, picks):
                for m in members:
                    asg[m] = m == pick
            yield asg


def _weight(asg):
    # distance from the all-default parameter shape (empty lists, None options, false flags)
    return sum(1 for a, v in asg.items() if (v and a[0] != "empty") or (not v and a[0] == "empty"))


def counterexample(f, g, mode="equiv", extra_atoms=()):
    """Return (assignment, n_enumerated): a minimal-weight assignment falsifying `f <=> g`
    (mode equiv) or `f => g` (mode implies), or (None, n)."""
    al = atoms(f)
    atoms(g, al)
    for a in extra_atoms:
        if a not in al:
            al.append(a)
    n = 0
    best = None
    for asg in assignments(al):
        n += 1
        a, b = evalf(f, asg), evalf(g, asg)
        bad = (mode == "equiv" and a != b) or (mode == "implies" and a and not b)
        if bad and (best is None or _weight(asg) < _weight(best)):
            best = asg
    return best, n


def counterexamples(f, g, mode="equiv", limit=6):
    """All minimal-weight falsifying assignments (up to `limit`)."""
    al = atoms(f)
    atoms(g, al)
    out = []
    for asg in assignments(al):
        a, b = evalf(f, asg), evalf(g, asg)
        if (mode == "equiv" and a != b) or (mode == "implies" and a and not b):
            out.append(asg)
    if not out:
        return []
    w = min(_weight(x) for x in out)
    return [x for x in out if _weight(x) == w][:limit]


def show_atom(a):
    k = a[0]
    if k in ("empty", "some", "true"):
        return "%s(%s)" % (k, a[1])
    if k == "variant":
        return "%s is %s" % (a[1], a[2])
    if k == "eq":
        return "%s == %s" % (a[1], a[2])
    if k == "cmp":
        return "%s %s %s" % (a[2], a[1], a[3])
    if k == "contains":
        return "contains(%s, %s)" % (a[1], a[2])
    return "%s(%s)" % (k, ", ".join(str(x) for x in a[1:]))


def show(f):
    if f is True:
        return "true"
    if f is False:
        return "false"
    if f[0] == "atom":
        return show_atom(f[1])
    if f[0] == "not":
        return "!" + (show(f[1]) if f[1][0] in ("atom", "not") else "(" + show(f[1]) + ")")
    sep = " && " if f[0] == "and" else " || "
    return sep.join(show(g) if (g is True or g is False or g[0] in ("atom", "not")) else "(" + show(g) + ")" for g in f[1])


def show_asg(asg):
    """Describe an assignment as the concrete parameter shape it denotes (non-default atoms only)."""
    pos = [show_atom(a) for a, v in asg.items() if v and a[0] != "empty"]
    pos += ["!" + show_atom(a) for a, v in asg.items() if not v and a[0] == "empty"]
    return "only [%s] set (everything else empty/none/false)" % "; ".join(sorted(pos))


def int_semantics(f, var, value):
    """Evaluate a formula whose atoms are all inrange/cmp tests of `var` against integer constants, at var = value.
    Returns None if some atom is not of that shape."""
    asg = {}
    for a in atoms(f):
        if a[0] == "inrange" and a[1] == var and isinstance(a[2], int) and isinstance(a[3], int):
            asg[a] = a[2] <= value < a[3] + (1 if a[4] else 0)
        elif a[0] == "eq":
            def num0(s):
                try:
                    return int(str(s).replace("_", ""))
                except Exception:
                    return None
            if a[1] == var and num0(a[2]) is not None:
                asg[a] = value == num0(a[2])
            elif a[2] == var and num0(a[1]) is not None:
                asg[a] = value == num0(a[1])
            else:
                return None
        elif a[0] == "cmp":
            op, l, r = a[1], a[2], a[3]
            def num(s):
                try:
                    return int(str(s).replace("_", ""))
                except Exception:
                    return None
            if l == var and num(r) is not None:
                x, y = value, num(r)
            elif r == var and num(l) is not None:
                x, y = num(l), value
            else:
                return None
            asg[a] = {"<": x < y, "<=": x <= y, ">": x > y, ">=": x >= y}[op]
        else:
            return None
    return evalf(f, asg)


# --- tiny parser for reference formulas --------------------------------------
# grammar:  f := t ('||' t)* ; t := u ('&&' u)* ; u := '!' u | '(' f ')' | atom
# atom  := kind '(' args ')'     e.g.  empty(self.key_usages)  variant(self.is_ca,Ca)  true(x)

def parse(text):
    toks = []
    i = 0
    while i < len(text):
        c = text[i]
        if c.isspace():
            i += 1
        elif text.startswith("&&", i) or text.startswith("||", i):
            toks.append(text[i:i + 2])
            i += 2
        elif c in "!()":
            # an atom's argument list is consumed as part of the atom below
            toks.append(c)
            i += 1
        else:
            j = i
            while j < len(text) and (text[j].isalnum() or text[j] in "_"):
                j += 1
            name = text[i:j]
            if j < len(text) and text[j] == "(":
                depth = 0
                k = j
                while k < len(text):
                    if text[k] == "(":
                        depth += 1
                    elif text[k] == ")":
                        depth -= 1
                        if depth == 0:
                            break
                    k += 1
                args = [a.strip() for a in text[j + 1:k].split(",")]
                toks.append(("atom", (name,) + tuple(args)))
                i = k + 1
            elif name == "ANY":
                toks.append(("atom", ("anycond",)))
                i = j
            elif name in ("true", "false"):
                toks.append(name == "true")
                i = j
            else:
                raise ValueError("bad formula near %r" % text[i:i + 20])
    pos = [0]

    def peek():
        return toks[pos[0]] if pos[0] < len(toks) else None

    def eat():
        t = toks[pos[0]]
        pos[0] += 1
        return t

    def pf():
        t = pt()
        while peek() == "||":
            eat()
            t = Or(t, pt())
        return t

    def pt():
        t = pu()
        while peek() == "&&":
            eat()
            t = And(t, pu())
        return t

    def pu():
        t = eat()
        if t == "!":
            return Not(pu())
        if t == "(":
            f = pf()
            assert eat() == ")"
            return f
        return t

    f = pf()
    assert pos[0] == len(toks), "trailing tokens in formula %r" % text
    return f
