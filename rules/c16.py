"""C16 - every advertised feature combination builds and both crypto back ends agree."""
import json
import os
import subprocess
import time
import formula as F
import schema as S
import common
import facts
from interp import known_fns
from common import CERT_FN, CSR_FN, CRL_FN
from interp import Interp

PROP = "C16"
CONFIGS_QUICK = ["K1", "K2", "K3"]
CONFIGS_THOROUGH = ["K1", "K2", "K3", "K0", "K4", "K5"]
EXPLANATION = (
    "(matrix) type-checking is the deciding static analysis for `compiles in every combination`: `cargo check --offline` (the stable "
    "toolchain the repository is built with) is run over the advertised feature lattice {ring | aws_lc_rs | none} x {pem} x {x509-parser} x "
    "{zeroize} - quick tier: the seven sets that bound the lattice or regressed historically plus the CLI under both back ends; thorough "
    "tier: all 24 sets plus the CLI; (same) every function present under ring and under aws-lc-rs must have an identical type-checked "
    "body modulo the back-end crate name, except a frozen list of back-end boundary functions; the abstract TLV trees of the three "
    "to-be-signed writers must be identical under ring, aws-lc-rs and no-crypto, the crypto-less build differing only by the absence of "
    "the automatic-serial alternative and of the hash-derived key-identifier arm - exactly the paths the property excludes by requiring an "
    "explicit serial and pre-specified key identifiers; (tables) the loader/algorithm tables agree across back ends (C11.pairs). "
    "Not decided: that artefacts signed under one back end verify under the other and that exported keys load across back ends "
    "(runtime behaviour of the cryptographic libraries).")
ASSUMPTIONS = ["the `fips` feature needs a tool chain that is not present in the sandbox and is not in the property's list", "ring and aws-lc-rs compute the same SHA-2 digests and export public keys in the same octet format"]

BACKENDS = [("ring", ["ring"]), ("aws_lc_rs", ["aws_lc_rs"]), ("none", [])]
QUICK_SETS = [["ring", "pem"], ["ring"], ["aws_lc_rs"], [], ["pem", "x509-parser"], ["ring", "pem", "x509-parser", "zeroize"], ["aws_lc_rs", "pem", "x509-parser", "zeroize"],
              # every optional feature once *without* pem (0.11.3 / 0.12.1 did not build with pem disabled)
              ["zeroize"], ["ring", "zeroize", "x509-parser"]]

# functions whose bodies legitimately differ between the ring and the aws-lc-rs build (back-end boundary)
BOUNDARY = {
    "<key_pair::KeyPair as std::convert::TryFrom<&rustls_pki_types::PrivateKeyDer<'_>>>::try_from": "auto-detection cascade is cfg-duplicated (PKCS#8 only under ring; SEC1/PKCS#1 and P-521 under aws-lc-rs); its tables are compared by C11.pairs",
    "key_pair::KeyPair::generate_for": "RSA generation exists only under aws-lc-rs",
    "key_pair::KeyPair::from_pkcs8_der_and_sign_algo": "P-521 arm exists only under aws-lc-rs",
    "key_pair::KeyPair::from_der_and_sign_algo": "SEC1 / PKCS#1 input supported only under aws-lc-rs",
    "ring_like::ecdsa_from_pkcs8": "constructor signature differs (rng argument)",
    "ring_like::rsa_key_pair_public_modulus_len": "accessor name differs",
    "sign_algo::SignatureAlgorithm::iter": "P-521 listed only under aws-lc-rs",
    "sign_algo::SignatureAlgorithm::iter::ALGORITHMS": "P-521 listed only under aws-lc-rs",
    "<sign_algo::SignatureAlgorithm as std::fmt::Debug>::fmt": "P-521 name only under aws-lc-rs",
}


def all_sets():
    out = []
    for bn, b in BACKENDS:
        for pem in (False, True):
            for x in (False, True):
                for z in (False, True):
                    out.append(b + (["pem"] if pem else []) + (["x509-parser"] if x else []) + (["zeroize"] if z else []))
    return out


def cargo_check(args):
    env = dict(os.environ, CARGO_TARGET_DIR=os.path.join(facts.CACHE, "target-matrix"), CARGO_NET_OFFLINE="true")
    env.pop("RUSTC_WORKSPACE_WRAPPER", None)
    env.pop("RUSTFLAGS", None)
    t0 = time.time()
    r = subprocess.run(["cargo", "check", "--offline", "-q"] + args, cwd=facts.REPO, env=env, capture_output=True, text=True)
    return r.returncode, r.stderr[-1500:], time.time() - t0


def matrix(ctx, rep):
    sets = QUICK_SETS if ctx.tier == "quick" else all_sets()
    times = {}
    for fs in sets:
        name = ",".join(fs) if fs else "(none)"
        rc, err, dt = cargo_check(["-p", "rcgen", "--no-default-features"] + (["--features", ",".join(fs)] if fs else []))
        times[name] = round(dt, 1)
        rep.ob("C16.matrix", "rcgen|" + name, rc == 0, "the crate must type-check with features {%s}:\n%s" % (name, err), found="exit %d" % rc)
    for name, args in (("rustls-cert-gen|ring", ["-p", "rustls-cert-gen"]), ("rustls-cert-gen|aws_lc_rs", ["-p", "rustls-cert-gen", "--no-default-features", "--features", "aws_lc_rs"])):
        rc, err, dt = cargo_check(args)
        times[name] = round(dt, 1)
        rep.ob("C16.matrix", name, rc == 0, "the CLI must type-check:\n%s" % err, found="exit %d" % rc)
    rep.floor("C16.matrix", "feature sets type-checked", len(sets) + 2, 9 if ctx.tier == "quick" else 26)
    rep.extra["matrix_seconds"] = times
    rep.sample({"rule": "C16.matrix", "sets": [",".join(s) or "(none)" for s in sets], "seconds": times})


STRIP = {"sp", "col", "eline", "id", "hid", "mac", "ty", "aty", "targs", "generics"}  # positions, ids and (back-end specific) type spellings


def canon(n):
    if isinstance(n, dict):
        # the impl a back-end trait call resolves to is named after back-end internal types: keep the trait method only
        return {k: canon(v) for k, v in sorted(n.items()) if k not in STRIP and not (k == "inst" and isinstance(v, str) and ("ring::" in v or "aws_lc_rs::" in v))}
    if isinstance(n, list):
        return [canon(x) for x in n]
    if isinstance(n, str):
        return bk(n)
    return n


def bk(s):
    """Back-end neutral spelling: the two libraries expose the same items under different module paths
    (ring::rsa::KeyPair::sign vs aws_lc_rs::signature::RsaKeyPair::sign): keep `BACKEND::<last segment>`."""
    import re
    s = s.replace("aws_lc_rs::", "BACKEND::").replace("ring::", "BACKEND::")
    return re.sub(r"BACKEND::(?:[A-Za-z0-9_]+::)*([A-Za-z0-9_]+)", r"BACKEND::\1", s)


def _item_users(crate, item):
    """known functions on whose behalf the const / static `item` is read"""
    users = set()
    for name, b in crate.bodies.items():
        if "hir" not in b or name == item or common.is_test_fn(name):
            continue
        for n in common.hir_walk(b["hir"]):
            if n.get("k") == "Path" and n.get("res") == "def" and bk(facts.norm_path(n.get("def") or "")) == bk(item):
                users |= common.known_owners(crate, name.split("::{closure")[0])
                break
    return users


def same(ctx, rep):
    a, b = ctx.crate("K1"), ctx.crate("K2")

    class V:
        pass
    va, vb = V(), V()
    va.bodies = {bk(k): v for k, v in a.bodies.items()}
    vb.bodies = {bk(k): v for k, v in b.bodies.items()}
    a0, b0 = a, b
    a, b = va, vb
    common_fns = sorted(k for k in a.bodies if k in b.bodies and "hir" in a.bodies[k] and "hir" in b.bodies[k] and not common.is_test_fn(k))
    n = 0
    for fn in common_fns:
        ca = json.dumps(canon({"p": a.bodies[fn].get("params"), "h": a.bodies[fn]["hir"]}), sort_keys=True)
        cb = json.dumps(canon({"p": b.bodies[fn].get("params"), "h": b.bodies[fn]["hir"]}), sort_keys=True)
        if fn in BOUNDARY:
            continue
        n += 1
        if ca != cb and fn not in known_fns(a0.name):
            # a helper introduced by a later change that differs between the back ends: acceptable exactly when it is
            # reached only from boundary functions (the back-end specific code was moved, not spread)
            import c10
            Ga, _ = c10.call_graph(a0)
            Gb, _ = c10.call_graph(b0)
            owners = common.known_owners(a0, fn) | common.known_owners(b0, fn)      # every known function that reaches it
            nested = [b_ for b_ in BOUNDARY if fn.startswith(b_ + "::")]
            if nested:
                owners = set(nested)        # an item declared inside a boundary function (a table, an inner fn) is part of it
            elif (a0.bodies.get(fn) or {}).get("dk", "").startswith(("Static", "Const", "AssocConst")):
                # a table: it belongs to the functions that read it
                owners = _item_users(a0, fn) | _item_users(b0, fn)
            if owners <= set(BOUNDARY):
                rep.ob("C16.same", "K1=K2|" + fn + "|moved-boundary-code", True, "new helper differing between the back ends is reached only from the boundary function %s" % sorted(owners))
                continue
        if ca != cb:
            rep.fail("C16.same", "K1=K2|" + fn, "the function's type-checked body differs between the ring and the aws-lc-rs build although it is not a back-end boundary function: the two back ends no longer run the same code here", sp=a.bodies[fn].get("sp"))
    rep.ob("C16.same", "K1=K2|bodies", True, "%d common functions compared" % n)
    rep.floor("C16.same", "functions compared across back ends", n, 250)
    only_a = sorted(k for k in a.bodies if k not in b.bodies and "hir" in a.bodies[k] and "{closure" not in k and not common.is_test_fn(k))
    only_b = sorted(k for k in b.bodies if k not in a.bodies and "hir" in b.bodies[k] and "{closure" not in k and not common.is_test_fn(k))
    allowed_b = ("key_pair::KeyPair::generate_rsa", "key_pair::RsaKeySize", "<key_pair::RsaKeySize", "ring_like::ecdsa_from_private_key_der", "sign_algo::algo::PKCS_ECDSA_P521_SHA512", "oid::EC_SECP_521_R1")
    extra_b = [k for k in only_b if not k.startswith(allowed_b)]
    # a helper that exists only under aws-lc-rs and is reached only from boundary functions is moved boundary code
    import c10 as _c10
    Gb_, _ = _c10.call_graph(b0)
    extra_b = [k for k in extra_b if not (k not in known_fns(b0.name) and common.known_owners(b0, k) <= set(BOUNDARY) | set(x for x in only_b if x.startswith(allowed_b)))]
    rep.ob("C16.same", "K1=K2|only-in-ring", not only_a, "no function exists only in the ring build", found=only_a)
    rep.ob("C16.same", "K1=K2|only-in-aws", not extra_b, "functions that exist only under aws-lc-rs are the audited additions (RSA generation, P-521, SEC1 loader)", found=extra_b)
    # abstract TLV trees of the to-be-signed writers
    a, b = a0, b0

    def tree(crate, fn):
        art = common.artefact(crate, fn)
        return [bk(l.split("   --")[0]) for l in S.render(art.I, art.tbs or [])]
    c3 = ctx.crate("K3")
    for fn in (CERT_FN, CSR_FN, CRL_FN):
        ta, tb, tc = tree(a, fn), tree(b, fn), tree(c3, fn)
        rep.ob("C16.same", "K1=K2|tbs-tree|" + fn, ta == tb and len(ta) > 20, "the to-be-signed structure is the same abstract TLV tree under both back ends", found="%d vs %d lines" % (len(ta), len(tb)))
        # crypto-less: remove the two excluded alternatives from the crypto tree and compare
        import difflib
        d = [x for x in difflib.unified_diff(ta, tc, lineterm="", n=0) if x[:1] in "+-" and not x.startswith(("+++", "---"))]
        def _allowed(d_):
            # the automatic-serial alternative (everything written under `IF !some(self.serial_number)`, whatever the
            # spelling of the digest prefix) and the hash-derived key-identifier arm
            ok_, block_indent = True, None
            for x in d_:
                body = x[1:]
                ind = len(body) - len(body.lstrip())
                if block_indent is not None and x[0] == "-" and ind > block_indent:
                    continue
                block_indent = None
                if "some(self.serial_number)" in x:
                    if x[0] == "-" and "!some(self.serial_number)" in x:
                        block_indent = ind
                    continue
                if "digest" in x or "KeyIdMethod::derive" in x or "is PreSpecified" in x or "issuer.key_identifier_method" in x:
                    continue
                if body.strip().startswith("IF ") and "self.use_authority_key_identifier_extension" in x and ("is PreSpecified" in " ".join(d_)):
                    continue        # the AKI emission condition spelt per key-identifier arm in the crypto tree (each tree's
                                    # condition is compared with the reference by C02.schema in its own configuration)
                if "INTEGER(self.serial_number" in x:
                    continue        # the explicit serial, written under `IF some(..)` in one tree and unconditionally (the
                                    # crypto-less build has failed otherwise) in the other
                ok_ = False
            return ok_
        ok = _allowed(d)
        rep.ob("C16.same", "K1=K3|tbs-tree|" + fn, ok, "the crypto-less build writes the same structure except the automatic-serial alternative and the hash-derived key-identifier arm", found=d[:8])
    rep.sample({"rule": "C16.same", "compared": n, "boundary": sorted(BOUNDARY)})


def run(ctx):
    rep = ctx.rep
    same(ctx, rep)
    # "a key exported by one back end loads in the other with the same public key and algorithm": the loader / cascade
    # / generator tables of both back ends (arm by arm, and ring = aws-lc-rs) are necessary conditions of it
    import c11
    tabs = {}
    for cfg in ("K1", "K2"):
        crate = ctx.crate(cfg)
        common.borrow_rules(rep, lambda: (c11.check_pairs(cfg, crate, rep, tabs), c11.check_generate(cfg, crate, rep)), "C11.", "C16.keys")
    # "the ring build, the aws-lc-rs build and the crypto-less build produce byte-identical to-be-signed data": the key
    # identifier derivation is the one helper on the TBS path that is compiled differently with and without a back end;
    # in every configuration it must return pre-specified identifiers unchanged and truncate digests alike
    import c02
    for cfg in ("K1", "K2", "K3"):
        crate = ctx.crate(cfg)
        common.borrow_rules(rep, lambda: c02.check_derive(cfg, crate, rep), "C02.", "C16.derive")
    # an imported CA must give the same issuer view in every build: the importer captures the certificate's own key
    # identifier (or refuses) and never falls back to a configuration-dependent default
    import c03
    for cfg in ("K1", "K2", "K3"):
        crate = ctx.crate(cfg)
        common.borrow_rules(rep, lambda: c03.check_import(cfg, crate, rep), "C03.", "C16.import")
        # the subject public key inside the to-be-signed data is the key object's own public key in every build (a remote
        # key's bytes are written exactly as the signer reports them: the crypto-less build has nothing else to go by)
        c11.check_pub(cfg, crate, rep, rule="C16.pub")
    matrix(ctx, rep)
