"""Per-byte admission predicates of validating string constructors (used by C13 and C10).

From the interpreter's result for `fn(input) -> Result<Self, Error>` the *rejection formula* R is assembled (explicit
`return Err(..)` path conditions plus the conditions of Err alternatives of the returned value).  R must be a
disjunction of terms each of which says "some byte of the whole input has property psi":
    !all(input, phi)            -> psi = !phi
    any(input, psi)
    in-loop && psi(elem)        (a `for` over every byte of the input, no `break`)
    !is_ascii(input)            -> psi = b >= 0x80   (std model)
so that the input is accepted iff every byte satisfies the conjunction of the !psi.  The admitted byte set is then
computed by evaluating the per-byte formulas at 0..=255 (integer semantics of range / comparison / equality atoms).
Anything else is `not extractable` and the calling rule fails closed."""
import re
import formula as F
from formula import Or
import common
from interp import core, Interp, PhiV, StructV


def reject_formula(out, fl):
    R = Or(*[c for c, _, _ in fl]) if fl else False
    v0 = core(out["value"])
    alts = v0.alts if isinstance(v0, PhiV) else [(True, v0)]
    n_ok = 0
    for c, x in alts:
        x0 = core(x)
        if isinstance(x0, StructV) and x0.variant == "Err":
            R = Or(R, c)
        elif isinstance(x0, StructV) and x0.variant == "Ok":
            n_ok += 1
        else:
            return None, "returned value is neither Ok(..) nor Err(..): %s" % x0.r()[:80]
    if not n_ok:
        return None, "no accepting path"
    return R, None


_ASCII_ATOM = re.compile(r"^core::num::<impl u8>::(is_ascii\w*)\((.+)\)$")


def _eval_bytes(body, var):
    """{b : body holds at element = b}; every atom must be a numeric test (range / comparison / equality / u8::is_ascii_*)
    of the element variable `var`."""
    import ceval
    sat = set()
    ats = F.atoms(body)
    for b in ats:
        if b[0] == "inrange" and b[1] == var:
            continue
        if b[0] == "cmp" and var in (b[2], b[3]):
            continue
        if b[0] == "eq" and var in (b[1], b[2]):
            continue
        if b[0] in ("opaque", "true"):
            m = _ASCII_ATOM.match(str(b[1]))
            if m and m.group(2) == var:
                continue
        return None, "unrecognised per-byte test %s (element is %s)" % (F.show_atom(b)[:100], var)
    for x in range(256):
        asg = {}
        for b in ats:
            if b[0] in ("opaque", "true"):
                m = _ASCII_ATOM.match(str(b[1]))
                asg[b] = ceval._ascii_pred(m.group(1), x)
            else:
                r = F.int_semantics(("atom", b), var, x)
                if r is None:
                    return None, "per-byte test not evaluable: %s" % F.show_atom(b)[:100]
                asg[b] = r
        if F.evalf(body, asg):
            sat.add(x)
    return sat, None


def nnf(f, neg=False):
    """negation normal form (negations pushed to the atoms), so that `!(a && b)` splits into the terms `!a`, `!b`"""
    if f is True or f is False:
        return (not f) if neg else f
    if f[0] == "atom":
        return F.Not(f) if neg else f
    if f[0] == "not":
        return nnf(f[1], not neg)
    parts = [nnf(g, neg) for g in f[1]]
    if (f[0] == "and") != neg:
        return F.And(*parts)
    return F.Or(*parts)


def rejection_terms(crate, fn):
    """Normalised rejection formula of a validating constructor: a list of
         ("forall", source value, per-element acceptance formula, element value)   input rejected unless every element passes
         ("plain", formula)                                                         input rejected when the formula holds
       or (None, why).  `!all(S, phi)`, `any(S, psi)` and an early `return Err` inside a `for` over S (whole collection,
       no break / continue) all normalise to the same "forall" term."""
    I = Interp(crate)
    out = I.run_fn(fn)
    fl = [(c, v, n) for c, v, n, f in I.fails if f == fn or f in I.inlined]
    R, why = reject_formula(out, fl)
    if R is None:
        return None, why, I, out
    if R is False:
        return [], "never rejects", I, out
    if R is True:
        return None, "always rejects", I, out
    R = nnf(R)
    terms = list(R[1]) if R[0] == "or" else [R]
    res = []
    for t in terms:
        neg = t[0] == "not"
        a = t[1] if neg else t
        if a[0] == "atom" and a[1][0] in ("all", "any") and ((a[1][0] == "all") == neg):
            vals = I.atom_vals.get(a[1])
            if not vals or len(vals) < 3:
                return None, "per-element predicate not recorded", I, out
            body, elem, src = vals
            res.append(("forall", src, body if a[1][0] == "all" else F.Not(body), elem))
            continue
        if t[0] == "and":
            loopats = [g for g in t[1] if g[0] == "atom" and g[1][0] == "opaque" and str(g[1][1]).startswith("in-loop@")]
            rest = [g for g in t[1] if g not in loopats]
            if len(loopats) == 1 and rest:
                lv = I.atom_vals.get(loopats[0][1])
                if not lv or not no_loop_escape(crate, fn, I):
                    return None, "loop with break / continue", I, out
                res.append(("forall", lv[1], F.Not(F.And(*rest)), lv[2]))
                continue
        res.append(("plain", t))
    return res, None, I, out


def no_loop_escape(crate, fn, I):
    for name in [fn] + sorted(I.inlined):
        b = crate.bodies.get(name)
        if not b or "hir" not in b:
            continue
        for n in common.hir_walk(b["hir"]):
            if n["k"] == "For" and any(m["k"] in ("Break", "Continue") for m in common.hir_walk(n["body"])):
                return False
    return True


def byte_acceptance(crate, fn):
    """(set of admitted byte values | None, description, interpreter)"""
    body = crate.body(fn)
    params = [p.get("name") for p in body.get("params", [])]
    if len(params) != 1 or not params[0]:
        return None, "constructor does not take exactly one named input", None
    param = params[0]
    terms, why, I, out = rejection_terms(crate, fn)
    if terms is None:
        return None, why, I
    acc = set(range(256))
    desc = []
    probe = None
    for t in terms:
        if t[0] == "forall":
            _, src, body_f, elem = t
            if core(src).r() != param:
                return None, "the per-byte test ranges over `%s`, not over the whole input `%s`" % (core(src).r()[:60], param), I
            sat, why = _eval_bytes(body_f, core(elem).r())
            if sat is None:
                # the formula's atoms are not in the recognised vocabulary: the structure (one predicate applied to every
                # byte of the whole input) is established, so the predicate's extension is exactly the set of
                # single-byte inputs the constructor accepts - computed by constant propagation (analysis L)
                if probe is None:
                    probe = single_byte_probe(crate, fn)
                if probe[0] is None:
                    return None, "%s; and %s" % (why, probe[1]), I
                sat = probe[0]
                why = "single-byte probe"
            acc &= sat
            desc.append("every byte: %s" % (F.show(body_f)[:70] if why is None else why))
            continue
        f = t[1]
        neg = f is not True and f is not False and f[0] == "not"
        a = f[1] if neg else f
        if a[0] == "atom" and a[1][0] == "opaque" and ("::is_ascii(%s)" % param) in str(a[1][1]) and neg:
            acc &= set(range(0x80))
            desc.append("is_ascii")
            continue
        return None, "unrecognised rejection term %s" % F.show(f)[:160], I
    return acc, "; ".join(desc) or "never rejects", I


def single_byte_probe(crate, fn):
    """{b : the constructor returns Ok for the one-byte input [b]} by exhaustive constant propagation, or (None, why)"""
    import ceval
    E = ceval.Eval(crate, budget=5_000_000)
    acc = set()
    for b in range(256):
        try:
            r = E.call(fn, [ceval.RStr([b])])
        except (ceval.Unsupported, ceval.Panic) as e:
            return None, "constructor not evaluable on a one-byte input: %s: %s" % (type(e).__name__, e)
        if not isinstance(r, ceval.Adt) or r.variant not in ("Ok", "Err"):
            return None, "constructor returned %r" % (r,)
        if r.variant == "Ok":
            acc.add(b)
    return acc, None
