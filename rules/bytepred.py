"""Per-byte admission predicates of validating string constructors (used by C13 and C10).

From the interpreter's result for `fn(input) -> Result<Self, Error>` the *rejection formula* R is assembled (explicit
`return Err(..)` path conditions plus the conditions of Err alternatives of the returned value).  R must be a
disjunction of terms each of which says "some byte of the whole input has property psi":
    !all(input, phi)            -> psi = !phi
    any(input, psi)
    in-loop && psi(elem)        (a `for` over every byte of the input, no `break`)
    !is_ascii(input)            -> psi = b >= 0x80   (std model)
so that the input is accepted iff every byte satisfies the conjunction of the !psi.  The admitted byte set is then
computed by evaluating the per-byte formulas at 0..=255 (integer semantics of range / comparison / equality atoms).
Anything else is `not extractable` and the calling rule fails closed."""
import formula as F
from formula import Or
import common
from interp import core, Interp, PhiV, StructV


def reject_formula(out, fl):
    R = Or(*[c for c, _, _ in fl]) if fl else False
    v0 = core(out["value"])
    alts = v0.alts if isinstance(v0, PhiV) else [(True, v0)]
    n_ok = 0
    for c, x in alts:
        x0 = core(x)
        if isinstance(x0, StructV) and x0.variant == "Err":
            R = Or(R, c)
        elif isinstance(x0, StructV) and x0.variant == "Ok":
            n_ok += 1
        else:
            return None, "returned value is neither Ok(..) nor Err(..): %s" % x0.r()[:80]
    if not n_ok:
        return None, "no accepting path"
    return R, None


def _eval_bytes(body, param):
    """{b : body holds at elem = b}; every atom must be a numeric test of `<param>[]`."""
    vs = set()
    for b in F.atoms(body):
        if b[0] == "inrange":
            vs.add(b[1])
        elif b[0] == "cmp":
            vs |= {x for x in (b[2], b[3]) if not str(x).lstrip("-").isdigit()}
        elif b[0] == "eq":
            vs |= {x for x in (b[1], b[2]) if not str(x).lstrip("-").isdigit()}
        else:
            return None, "unrecognised per-byte test %s" % F.show_atom(b)
    if len(vs) != 1:
        return None, "per-byte predicate is not over one variable: %s" % sorted(vs)
    var = next(iter(vs))
    if var != param + "[]":
        return None, "per-byte predicate tests %s, not an element of the input `%s`" % (var, param)
    sat = set()
    for x in range(256):
        r = F.int_semantics(body, var, x)
        if r is None:
            return None, "per-byte predicate not evaluable"
        if r:
            sat.add(x)
    return sat, None


def byte_acceptance(crate, fn):
    """(set of admitted byte values | None, description, interpreter)"""
    I = Interp(crate)
    out = I.run_fn(fn)
    fl = [(c, v, n) for c, v, n, f in I.fails if f == fn or f in I.inlined]
    body = crate.body(fn)
    params = [p.get("name") for p in body.get("params", [])]
    if len(params) != 1 or not params[0]:
        return None, "constructor does not take exactly one named input", I
    param = params[0]
    R, why = reject_formula(out, fl)
    if R is None:
        return None, why, I
    terms = list(R[1]) if (R is not True and R is not False and R[0] == "or") else [R]
    if R is False:
        return set(range(256)), "never rejects", I
    if R is True:
        return None, "always rejects", I
    acc = set(range(256))
    desc = []
    for t in terms:
        neg = t is not True and t is not False and t[0] == "not"
        a = (t[1] if neg else t)
        if a[0] == "atom" and a[1][0] == "opaque" and ("::is_ascii(%s)" % param) in str(a[1][1]) and neg:
            acc &= set(range(0x80))
            desc.append("is_ascii")
            continue
        if a[0] == "atom" and a[1][0] in ("all", "any") and a[1][1] == param and ((a[1][0] == "all") == neg):
            vals = I.atom_vals.get(a[1])
            if not vals:
                return None, "per-byte predicate body not recorded", I
            sat, why = _eval_bytes(vals[0], param)
            if sat is None:
                return None, why, I
            acc &= sat if a[1][0] == "all" else (set(range(256)) - sat)
            desc.append("%s(%s)" % (a[1][0], F.show(vals[0])[:60]))
            continue
        if t[0] == "and":
            loopats = [g for g in t[1] if g[0] == "atom" and g[1][0] == "opaque" and str(g[1][1]).startswith("in-loop@")]
            rest = [g for g in t[1] if g not in loopats]
            if len(loopats) == 1 and rest and whole_input_loops(crate, fn, param):
                sat, why = _eval_bytes(F.And(*rest), param)
                if sat is None:
                    return None, why, I
                acc &= set(range(256)) - sat
                desc.append("for-each-byte(!%s)" % F.show(F.And(*rest))[:60])
                continue
        return None, "unrecognised rejection term %s" % F.show(t)[:160], I
    return acc, "; ".join(desc), I


def whole_input_loops(crate, fn, param):
    """every `for` in fn iterates over the whole input (as_bytes()/bytes()/iter()) and nothing leaves a loop early
    except `return`"""
    b = crate.body(fn)
    loops = [n for n in common.hir_walk(b["hir"]) if n["k"] == "For"]
    if len(loops) != 1:
        return False
    if any(n["k"] in ("Break", "Continue") for n in common.hir_walk(loops[0]["body"])):
        return False
    return core(Interp(crate).ev(loops[0]["iter"], {})).r() == param
