"""Abstract TLV trees: normalisation, rendering, queries, comparison with reference schemas."""
import formula as F
from formula import And, Not, Or
from interp import V, core, roots, Const, Def, TagV, CallV, DerV, Via, Sel, Param, StructV, MutV, IndexV, OpV, PhiV


def norm(items):
    """Flatten nested Cond, drop dead branches."""
    out = []
    for it in items:
        t = it["t"]
        if t == "Cond":
            f = it["f"]
            if f is False:
                continue
            kids = norm(it["c"])
            for k in kids:
                if f is True:
                    out.append(k)
                elif k["t"] == "Cond":
                    g = And(f, k["f"])
                    if g is not False:
                        out.append({"t": "Cond", "f": g, "c": k["c"]})
                else:
                    out.append({"t": "Cond", "f": f, "c": [k]})
        elif t == "Rep":
            out.append({"t": "Rep", "over": it["over"], "c": norm(it["c"])})
        elif t in ("Seq", "Set", "SetOf", "Tagged"):
            n = dict(it)
            n["c"] = norm(it["c"])
            out.append(n)
        elif t == "Prim":
            n = dict(it)
            # OCTET STRING / BIT STRING wrapping a nested DER value
            if it["args"] and isinstance(core(it["args"][0]), DerV):
                n["inner"] = norm(core(it["args"][0]).items)
            out.append(n)
        elif t == "Raw":
            n = dict(it)
            if isinstance(core(it["v"]), DerV):
                n["inner"] = norm(core(it["v"]).items)
            out.append(n)
        else:
            out.append(it)
    return out


def tag_str(interp, tag):
    t = core(tag)
    if isinstance(t, TagV):
        n = t.n
        c = interp.concrete(n) if isinstance(n, V) else n
        return "[%s]" % (c if c is not None else core(n).r())
    if isinstance(t, Def):
        return "[UNIVERSAL %s]" % t.path.split("::")[-1]
    return "[?%s]" % t.r()


def val_str(interp, v):
    c = interp.concrete(v)
    if c is not None:
        return "const %r" % (c,)
    return core(v).r()


def render(interp, items, ind=0, out=None):
    if out is None:
        out = []
    I = "  " * ind
    for it in items:
        t = it["t"]
        if t == "Cond":
            out.append("%sIF %s:" % (I, F.show(it["f"])))
            render(interp, it["c"], ind + 1, out)
        elif t == "Rep":
            out.append("%sFOR EACH %s:" % (I, core(it["over"]).r()))
            render(interp, it["c"], ind + 1, out)
        elif t in ("Seq", "Set", "SetOf"):
            out.append("%s%s {   -- %s" % (I, {"Seq": "SEQUENCE", "Set": "SET", "SetOf": "SET OF"}[t], it.get("sp")))
            render(interp, it["c"], ind + 1, out)
            out.append(I + "}")
        elif t == "Tagged":
            out.append("%s%s %s {   -- %s" % (I, tag_str(interp, it["tag"]), it["mode"].upper(), it.get("sp")))
            render(interp, it["c"], ind + 1, out)
            out.append(I + "}")
        elif t == "Prim":
            args = ", ".join(val_str(interp, a) for a in it["args"] if not isinstance(core(a), DerV))
            out.append("%s%s(%s)   -- %s" % (I, it["kind"], args, it.get("sp")))
            if "inner" in it:
                out.append(I + "  containing DER {")
                render(interp, it["inner"], ind + 2, out)
                out.append(I + "  }")
        elif t == "Raw":
            if "inner" in it:
                out.append("%sRAW DER {   -- %s" % (I, it.get("sp")))
                render(interp, it["inner"], ind + 1, out)
                out.append(I + "}")
            else:
                out.append("%sRAW(%s)   -- %s" % (I, val_str(interp, it["v"]), it.get("sp")))
        else:
            out.append("%sOPAQUE(%s)   -- %s" % (I, it.get("what"), it.get("sp")))
    return out


def walk(items, path=(), cond=True, reps=()):
    """Yield (node, path, cond, reps) for every node, Cond/Rep folded into cond/reps."""
    for i, it in enumerate(items):
        t = it["t"]
        if t == "Cond":
            yield from walk(it["c"], path, And(cond, it["f"]), reps)
        elif t == "Rep":
            yield from walk(it["c"], path, cond, reps + (core(it["over"]).r(),))
        else:
            yield it, path, cond, reps
            label = t if t != "Tagged" else "Tagged"
            if "c" in it:
                yield from walk(it["c"], path + ((label, it),), cond, reps)
            if "inner" in it:
                yield from walk(it["inner"], path + (("inner", it),), cond, reps)


def assume(items, asg):
    """Partially evaluate Cond formulas under a partial atom assignment {atom_key: bool}."""
    def pe(f):
        if f is True or f is False:
            return f
        if f[0] == "atom":
            return asg.get(f[1], f)
        if f[0] == "not":
            return Not(pe(f[1]))
        if f[0] == "and":
            return And(*[pe(g) for g in f[1]])
        return Or(*[pe(g) for g in f[1]])
    out = []
    for it in items:
        n = dict(it)
        if it["t"] == "Cond":
            n["f"] = pe(it["f"])
        for key in ("c", "inner"):
            if key in it:
                n[key] = assume(it[key], asg)
        out.append(n)
    return norm(out)
