"""Abstract TLV trees: normalisation, rendering, queries, comparison with reference schemas."""
import formula as F
from formula import And, Not, Or
from interp import V, core, roots, places, calls_of, Const, Def, TagV, CallV, DerV, Via, Sel, Param, StructV, MutV, IndexV, OpV, PhiV, restrict


from interp import roots as roots  # re-export for rule modules


def _by_variant(phi):
    """a case split whose every case is selected by enum-variant tests only (`match &self.kind { A(..) => .., B(..) => .. }`)"""
    from interp import flatten_phi
    alts = [c for c, _ in flatten_phi(phi) if c is not False]
    return len(alts) > 1 and all(c is not True and F.atoms(c) and all(a[0] == "variant" for a in F.atoms(c)) for c in alts)


def norm(items):
    """Flatten nested Cond, drop dead branches."""
    out = []
    for it in items:
        t = it["t"]
        if t == "Cond":
            f = it["f"]
            if f is False:
                continue
            kids = norm(it["c"])
            for k in kids:
                if f is True:
                    out.append(k)
                elif k["t"] == "Cond":
                    g = And(f, k["f"])
                    if g is not False:
                        out.append({"t": "Cond", "f": g, "c": k["c"]})
                else:
                    out.append({"t": "Cond", "f": f, "c": [k]})
        elif t == "Rep":
            out.append({"t": "Rep", "over": it["over"], "c": norm(it["c"])})
        elif t in ("Seq", "Set", "SetOf", "Tagged"):
            n = dict(it)
            n["c"] = norm(it["c"])
            if t == "Tagged":
                n = canon_tag(n)
            out.append(n)
        elif t == "Prim" and it.get("kind") in ("INTEGER", "BIT STRING") and it.get("args") and isinstance(core(it["args"][0]), PhiV) and "inner" not in it and not it.get("_split") \
                and (it.get("kind") == "INTEGER" or _by_variant(core(it["args"][0]))):
            # one write of a case-split value (`let sn = if .. { a } else { b }; w.write_x(sn)`) is the same as one write
            # per case
            from interp import flatten_phi
            for c_, x_ in flatten_phi(it["args"][0]):
                if c_ is False:
                    continue
                k_ = dict(it)
                k_["args"] = [x_] + ([restrict(a_, c_) if c_ is not True else a_ for a_ in it["args"][1:]] if it.get("kind") == "BIT STRING" else list(it["args"][1:]))
                k_["_split"] = True
                kk_ = norm([k_])
                if c_ is True:
                    out.extend(kk_)
                else:
                    out.append({"t": "Cond", "f": c_, "c": kk_})
        elif t == "Prim":
            n = dict(it)
            # OCTET STRING / BIT STRING wrapping a nested DER value
            if "inner" in it:
                n["inner"] = norm(it["inner"])      # already derived (and possibly specialised): keep it
            elif it["args"] and isinstance(core(it["args"][0]), DerV):
                n["inner"] = norm(core(it["args"][0]).items)
            out.append(n)
        elif t == "Raw":
            n = dict(it)
            if "inner" in it:
                n["inner"] = norm(it["inner"])
            elif isinstance(core(it["v"]), DerV):
                n["inner"] = norm(core(it["v"]).items)
            out.append(n)
        else:
            out.append(it)
    return _merge_exclusive(out)


def _shape_eq(a, b, diff):
    """structural equality of two normalised subtrees up to the *values* of primitive leaves; `diff` collects whether
    some leaf value differs"""
    if a.get("t") != b.get("t"):
        return False
    t = a["t"]
    if t == "Prim":
        if a.get("kind") != b.get("kind") or len(a.get("args") or []) != len(b.get("args") or []) or ("inner" in a) != ("inner" in b) or ("v" in a) or ("v" in b):
            return False
        if "inner" in a:
            return _shape_list_eq(a["inner"], b["inner"], diff)
        for x, y in zip(a.get("args") or [], b.get("args") or []):
            if isinstance(x, V) and isinstance(y, V):
                if core(x).r() != core(y).r():
                    diff.append(1)
            elif x != y:
                return False
        return True
    if t in ("Seq", "Set", "SetOf", "Tagged"):
        def _tg(x):
            tg = x.get("tag")
            return (tg.r() if isinstance(tg, V) else tg, x.get("mode"), x.get("cls"), x.get("was_implicit_over"))
        if t == "Tagged" and _tg(a) != _tg(b):
            return False
        return _shape_list_eq(a.get("c") or [], b.get("c") or [], diff)
    return False        # Cond / Rep / Raw / Opaque inside: not merged


def _shape_list_eq(xs, ys, diff):
    return len(xs) == len(ys) and all(_shape_eq(x, y, diff) for x, y in zip(xs, ys))


def _merge_tree(a, b, ca, cb):
    n = dict(a)
    if a["t"] == "Prim":
        if "inner" in a:
            n["inner"] = [_merge_tree(x, y, ca, cb) for x, y in zip(a["inner"], b["inner"])]
        else:
            n["args"] = [x if not (isinstance(x, V) and isinstance(y, V)) or core(x).r() == core(y).r() else PhiV([(ca, x), (cb, y)]) for x, y in zip(a.get("args") or [], b.get("args") or [])]
            n["_split"] = True      # (do not split the merged value apart again)
        return n
    n["c"] = [_merge_tree(x, y, ca, cb) for x, y in zip(a.get("c") or [], b.get("c") or [])]
    return n


def _merge_exclusive(out):
    """Two adjacent emissions of the same structure under mutually exclusive conditions that differ only in leaf *values*
    (`match m { A(x) => write_ext(w, x), B => write_ext(w, f()) }`) are one emission of a case-split value
    (`write_ext(w, match m { A(x) => x, B => f() })`)."""
    i = 0
    res = []
    while i < len(out):
        a = out[i]
        b = out[i + 1] if i + 1 < len(out) else None
        if b is not None and a.get("t") == "Cond" and b.get("t") == "Cond" and len(a["c"]) == 1 and len(b["c"]) == 1 and a["c"][0].get("t") == "Seq":
            g = And(a["f"], b["f"])
            diff = []
            if (g is False or not F.counterexamples(g, False, "implies")) and _shape_eq(a["c"][0], b["c"][0], diff) and diff:
                res.append({"t": "Cond", "f": Or(a["f"], b["f"]), "c": [_merge_tree(a["c"][0], b["c"][0], a["f"], b["f"])]})
                i += 2
                continue
        res.append(a)
        i += 1
    return res


def canon_tag(n):
    """IMPLICIT [n] over SEQUENCE{..}/SET{..} has the same bytes as EXPLICIT [n] around the
    children: normalise to the latter so both spellings compare equal (and an implicitly
    re-tagged CHOICE member, one nesting level short, compares unequal)."""
    if n.get("mode") == "implicit":
        kids = [k for k in n["c"]]
        if len(kids) == 1 and kids[0]["t"] in ("Seq", "Set", "SetOf"):
            n = dict(n)
            n["mode"] = "explicit"
            n["was_implicit_over"] = kids[0]["t"]
            if kids[0].get("nexts") is not None:
                n["nexts"] = kids[0]["nexts"]       # the element writers of the re-tagged SET / SET OF (for the sink rule)
            n["c"] = kids[0]["c"]
    return n


def canon_ref(items):
    out = []
    for it in items:
        n = dict(it)
        for key in ("c", "inner"):
            if key in n:
                n[key] = canon_ref(n[key])
        if n["t"] == "Choice":
            n["alts"] = {k: canon_ref(v) for k, v in n["alts"].items()}
        if n["t"] == "OneOf":
            n["alts"] = [canon_ref(v) for v in n["alts"]]
        if n["t"] == "Tagged":
            n = canon_tag(n)
        out.append(n)
    return out


def tag_str(interp, tag):
    t = core(tag)
    if isinstance(t, TagV):
        n = t.n
        c = interp.concrete(n) if isinstance(n, V) else n
        return "[%s]" % (c if c is not None else core(n).r())
    if isinstance(t, Def):
        return "[UNIVERSAL %s]" % t.path.split("::")[-1]
    return "[?%s]" % t.r()


def val_str(interp, v):
    c = interp.concrete(v)
    if c is not None:
        return "const %r" % (c,)
    return core(v).r()


def render(interp, items, ind=0, out=None):
    if out is None:
        out = []
    I = "  " * ind
    for it in items:
        t = it["t"]
        if t == "Cond":
            out.append("%sIF %s:" % (I, F.show(it["f"])))
            render(interp, it["c"], ind + 1, out)
        elif t == "Rep":
            out.append("%sFOR EACH %s:" % (I, core(it["over"]).r()))
            render(interp, it["c"], ind + 1, out)
        elif t in ("Seq", "Set", "SetOf"):
            out.append("%s%s {   -- %s" % (I, {"Seq": "SEQUENCE", "Set": "SET", "SetOf": "SET OF"}[t], it.get("sp")))
            render(interp, it["c"], ind + 1, out)
            out.append(I + "}")
        elif t == "Tagged":
            out.append("%s%s %s {   -- %s" % (I, tag_str(interp, it["tag"]), it["mode"].upper(), it.get("sp")))
            render(interp, it["c"], ind + 1, out)
            out.append(I + "}")
        elif t == "Prim":
            args = ", ".join(val_str(interp, a) for a in it["args"] if not isinstance(core(a), DerV))
            out.append("%s%s(%s)   -- %s" % (I, it["kind"], args, it.get("sp")))
            if "inner" in it:
                out.append(I + "  containing DER {")
                render(interp, it["inner"], ind + 2, out)
                out.append(I + "  }")
        elif t == "Raw":
            if "inner" in it:
                out.append("%sRAW DER {   -- %s" % (I, it.get("sp")))
                render(interp, it["inner"], ind + 1, out)
                out.append(I + "}")
            else:
                out.append("%sRAW(%s)   -- %s" % (I, val_str(interp, it["v"]), it.get("sp")))
        else:
            out.append("%sOPAQUE(%s)   -- %s" % (I, it.get("what"), it.get("sp")))
    return out


def walk(items, path=(), cond=True, reps=()):
    """Yield (node, path, cond, reps) for every node, Cond/Rep folded into cond/reps."""
    for i, it in enumerate(items):
        t = it["t"]
        if t == "Cond":
            yield from walk(it["c"], path, And(cond, it["f"]), reps)
        elif t == "Rep":
            yield from walk(it["c"], path, cond, reps + (core(it["over"]).r(),))
        else:
            yield it, path, cond, reps
            label = t if t != "Tagged" else "Tagged"
            if "c" in it:
                yield from walk(it["c"], path + ((label, it),), cond, reps)
            if "inner" in it:
                yield from walk(it["inner"], path + (("inner", it),), cond, reps)


def pe_formula(f, asg):
    """partial evaluation of a formula under a partial atom assignment"""
    if f is True or f is False:
        return f
    if f[0] == "atom":
        return asg.get(f[1], f)
    if f[0] == "not":
        return Not(pe_formula(f[1], asg))
    if f[0] == "and":
        return And(*[pe_formula(g, asg) for g in f[1]])
    return Or(*[pe_formula(g, asg) for g in f[1]])


def assume_ref(items, asg):
    """`assume` for reference nodes (textual formulas, no interpreter values): Cond nodes whose formula becomes false
    disappear, those whose formula becomes true are replaced by their children."""
    out = []
    for it in items:
        n = dict(it)
        for key in ("c", "inner"):
            if key in it and isinstance(it[key], list):
                n[key] = assume_ref(it[key], asg)
        if it["t"] == "Cond":
            f = pe_formula(F.parse(it["f"]) if isinstance(it["f"], str) else it["f"], asg)
            if f is False:
                continue
            if f is True:
                out.extend(n["c"])
                continue
            n["f"] = f
        out.append(n)
    return out


def assume(items, asg):
    """Partially evaluate Cond formulas under a partial atom assignment {atom_key: bool}."""
    def pe(f):
        return pe_formula(f, asg)
    out = []
    for it in items:
        n = dict(it)
        if it["t"] == "Cond":
            n["f"] = pe(F.parse(it["f"]) if isinstance(it["f"], str) else it["f"])
        for key in ("c", "inner"):
            if key in it:
                n[key] = assume(it[key], asg)
        out.append(n)
    return norm(out)


# ---------------------------------------------------------------------------
# reference-schema matcher
#
# Reference nodes (python dicts):
#   {'t':'Seq'|'Set'|'SetOf', 'c':[...], 'unordered':bool}
#   {'t':'Tagged','n':int|'TAG_X','mode':'explicit'|'implicit','c':[...]}
#   {'t':'Prim','kind':K,'v':spec,'args':[spec...],'inner':[...]}
#   {'t':'Raw','v':spec}
#   {'t':'Cond','f':'formula text','c':[...]}
#   {'t':'Rep','over':'place','c':[...]}
#   {'t':'Choice','on':'place','alts':{Variant:[...]}, 'others_empty':bool}
#   {'t':'Time','src':'place'}         -- one RFC 5280 Time (UTCTime | GeneralizedTime) bound to src
# Value specs: {'const':v} | {'src':'rendered'} | {'roots':[...]} | {'any':True} | {'pred':callable}

def flatten(items, cond=True, reps=()):
    out = []
    for it in items:
        if it["t"] == "Cond":
            f = it["f"]
            if isinstance(f, str):
                f = F.parse(f)
            out.extend(flatten(it["c"], And(cond, f), reps))
        elif it["t"] == "Rep":
            out.extend(flatten(it["c"], cond, reps + (it["over"],)))
        else:
            out.append((cond, reps, it))
    return out


def oid_key(interp, node):
    """Key of an Extension-like SEQUENCE: the constant OID of its first child, else 'dynamic:<src>'."""
    kids = flatten(node.get("c", []))
    for cond, reps, k in kids:
        if k["t"] == "Prim" and k.get("kind") == "OID":
            if "v" in k and isinstance(k["v"], dict):   # reference node
                spec = k["v"]
                if "const" in spec:
                    return "oid:" + ".".join(str(x) for x in spec["const"])
                return "dynamic"
            c = interp.concrete(k["args"][0]) if k.get("args") else None
            if c is not None:
                return "oid:" + ".".join(str(x) for x in c)
            return "dynamic"
        break
    return "noid"


class _Probe:
    """Scratch report used to try an alternative without recording failures."""

    def __init__(self):
        self.obs = []
        self.failed = False
        self.obligations = self.obs

    def ob(self, rule, key, ok, detail="", sp=None, expected=None, found=None, cfg=None):
        if not ok:
            self.failed = True
        self.obs.append({"rule": rule, "key": "%s|%s" % (rule, key), "ok": bool(ok), "detail": detail, "sp": sp, "expected": expected, "found": found, "cfg": cfg})
        return bool(ok)

    def fail(self, rule, key, detail, sp=None, **kw):
        return self.ob(rule, key, False, detail, sp, **kw)


def _reslot(slot):
    c, reps, n = slot
    for r in reversed(tuple(reps)):
        n = {"t": "Rep", "over": r, "c": [n]}
    if c is not True:
        n = {"t": "Cond", "f": c, "c": [n]}
    return n


class Matcher:
    def __init__(self, interp, rep, rule, fn):
        self.I = interp
        self.rep = rep
        self.rule = rule
        self.fn = fn
        self.n = 0

    def err(self, path, what, sp=None, expected=None, found=None):
        self.rep.fail(self.rule, "%s|%s" % (self.fn, "/".join(path)), what, sp=sp, expected=expected, found=found)

    def ok(self, path, detail=""):
        self.n += 1
        self.rep.ob(self.rule, "%s|%s" % (self.fn, "/".join(path)), True, detail)

    # -- values -------------------------------------------------------------------
    def value(self, spec, v, path, sp):
        if spec is None or spec.get("any"):
            return True
        if "const" in spec:
            c = self.I.concrete(v)
            want = spec["const"]
            if isinstance(want, tuple):
                want = list(want)
            if c != want:
                self.err(path, "constant differs", sp, expected=want, found=c if c is not None else core(v).r())
                return False
            return True
        if "src" in spec:
            got = core(v).r()
            alts = spec["src"] if isinstance(spec["src"], (list, tuple)) else [spec["src"]]
            if got not in alts:
                self.err(path, "value comes from a different place", sp, expected=alts[0], found=got)
                return False
            return True
        if "places" in spec:
            got = places(v)
            want = set(spec["places"])
            if not covers(want, got):
                self.err(path, "value is not derived from exactly the expected input(s)", sp, expected=sorted(want), found=sorted(got))
                return False
            if not spec.get("loose"):
                allowed = tuple(spec.get("via", [])) + tuple(x for alt in spec.get("via_any", []) for x in alt) + BENIGN
                bad = sorted(r for r in roots(v) if (r.startswith("call:") and not r[5:].endswith(allowed)) or r.startswith("op:"))
                if bad:
                    self.err(path, "value is transformed on its way from the parameter to the encoder (only accessors/adaptors are expected here)", sp, expected="%s written as is" % sorted(want), found=bad)
                    return False
            if spec.get("via"):
                calls = calls_of(v)
                # an accessor `Type::name()` may be replaced by a direct read of the like-named field it returns (the driver's
                # trivial-accessor facts make the two the same value): accept the field read for accessors the crate defines
                # as plain field getters
                def _as_field(c):
                    tgt = [k for k in self.I.crate.bodies if k.endswith(c)]
                    if len(tgt) == 1 and self.I._trivial_accessor(tgt[0], self.I.crate.bodies[tgt[0]]):
                        fld = "." + c.split("::")[-1]
                        return any(pl.endswith(fld) for pl in places(v))
                    return False
                missing = [c for c in spec["via"] if not any(x.endswith(c) for x in calls) and not _as_field(c)]
                if missing:
                    self.err(path, "value does not pass through the expected function", sp, expected=missing, found=sorted(calls))
                    return False
            if spec.get("via_any"):
                # alternative spellings of the same computation (a named helper, or the helper's one-line body written out)
                calls = calls_of(v)
                pls = places(v)
                def _alt_ok(alt):
                    need_calls = [c for c in alt if not c.startswith(".")]
                    need_field = [c for c in alt if c.startswith(".")]
                    return all(any(x.endswith(c) for x in calls) for c in need_calls) and all(any(pl.endswith(f_) for pl in pls) for f_ in need_field)
                if not any(_alt_ok(alt) for alt in spec["via_any"]):
                    self.err(path, "value does not pass through the expected function", sp, expected=spec["via_any"], found=sorted(calls))
                    return False
            if spec.get("not_via"):
                calls = calls_of(v)
                bad = [c for c in spec["not_via"] if any(x.endswith(c) for x in calls)]
                if bad:
                    self.err(path, "value passes through an unexpected function", sp, expected="none of %s" % spec["not_via"], found=bad)
                    return False
            return True
        if "roots" in spec:
            got = roots(v)
            want = set(spec["roots"])
            if not want <= got or (spec.get("exact") and got != want):
                self.err(path, "value does not depend on the expected inputs", sp, expected=sorted(want), found=sorted(got))
                return False
            return True
        if "pred" in spec:
            e = spec["pred"](v, self.I)
            if e:
                self.err(path, e, sp, found=core(v).r())
                return False
            return True
        return True

    # -- lists ----------------------------------------------------------------------
    def match_list(self, ref, inf, path, unordered=False):
        rs = flatten(ref)
        fs = flatten(inf)
        if unordered:
            return self.match_unordered(rs, fs, path)
        i = 0
        for (rc, rr, rn) in rs:
            if rn["t"] == "Choice":
                on = rn["on"]
                grp = []
                while i < len(fs) and self._depends_on(fs[i], on):
                    grp.append(fs[i])
                    i += 1
                self.match_choice(rn, rc, rr, grp, path)
                continue
            if rn["t"] == "OneOf":
                # alternative spellings with identical bytes: accept the first alternative that matches silently
                if i >= len(fs):
                    self.err(path + ("oneof",), "expected element is not written", expected=[self.label(a[0]) for a in rn["alts"]], found="end of list")
                    continue
                slot = fs[i]
                i += 1
                done = False
                for alt in rn["alts"]:
                    probe = _Probe()
                    sub = Matcher(self.I, probe, self.rule, self.fn)
                    sub.match_list([{"t": "Cond", "f": rc, "c": alt}] if rc is not True else alt, [_reslot(slot)], path)
                    if not probe.failed:
                        self.n += sub.n
                        for o in probe.obs:
                            self.rep.obligations.append(o)
                        done = True
                        break
                if not done:
                    alt = rn["alts"][0]
                    self.match_list([{"t": "Cond", "f": rc, "c": alt}] if rc is not True else alt, [_reslot(slot)], path)
                continue
            if rn["t"] == "Time":
                grp = []
                first = None
                while i < len(fs) and fs[i][2]["t"] == "Prim" and fs[i][2]["kind"] in ("UTCTime", "GeneralizedTime"):
                    pl = places(fs[i][2]["args"][0]) if fs[i][2].get("args") else set()
                    if first is None:
                        first = pl
                    elif pl != first:
                        break
                    grp.append(fs[i])
                    i += 1
                self.match_time(rn, rc, rr, grp, path)
                continue
            if i >= len(fs) and rn.get("optional"):
                continue
            if i >= len(fs):
                self.err(path + (self.label(rn),), "expected element is not written", expected=self.label(rn), found="end of %s" % (path[-1] if path else "list"))
                continue
            fc, fr, fn_ = fs[i]
            if rn.get("optional") and not self._same_shape(rn, fn_):
                continue
            i += 1
            self.match_slot((rc, rr, rn), (fc, fr, fn_), path)
        while i < len(fs):
            fc, fr, fn_ = fs[i]
            i += 1
            self.err(path + (self.label(fn_),), "unexpected extra element is written", fn_.get("sp"), expected="nothing", found=self.label(fn_) + " when " + F.show(fc))

    def match_unordered(self, rs, fs, path):
        rk = {}
        for slot in rs:
            rk.setdefault(oid_key(self.I, slot[2]), []).append(slot)
        fk = {}
        for slot in fs:
            fk.setdefault(oid_key(self.I, slot[2]), []).append(slot)
        for key, rslots in rk.items():
            fslots = fk.pop(key, [])
            if len(fslots) != len(rslots):
                # several sites with the same OID are fine if the reference lists as many (exclusive arms)
                if not fslots:
                    self.err(path + (key,), "expected element is never written", expected=self.label(rslots[0][2]) + " when " + F.show(rslots[0][0]), found="absent")
                    continue
            if len(rslots) > 1 and self._match_by_cases(rslots, fslots, path + (key,)):
                continue
            # pair by condition equivalence first
            rem = list(fslots)
            for rslot in rslots:
                best = None
                for cand in rem:
                    ce, _ = F.counterexample(rslot[0], cand[0])
                    if ce is None:
                        best = cand
                        break
                if best is None and rem:
                    best = rem[0]
                if best is None:
                    self.err(path + (key,), "expected element is not written under this condition", expected=F.show(rslot[0]), found="absent")
                    continue
                rem.remove(best)
                self.match_slot(rslot, best, path + (key,))
            for extra in rem:
                self.err(path + (key,), "element written more often than the reference allows", extra[2].get("sp"), expected="%d site(s)" % len(rslots), found=F.show(extra[0]))
        for key, fslots in fk.items():
            for s_ in fslots:
                self.err(path + (key,), "unexpected element (not in the reference schema)", s_[2].get("sp"), expected="nothing", found=self.label(s_[2]) + " when " + F.show(s_[0]))

    def _match_by_cases(self, rslots, fslots, path):
        """The reference lists one element per exclusive case of an enum-valued place (`is_ca is Ca`, `is_ca is
        ExplicitNoCa`); the code may write it once per case or once for several cases.  Each reference case is matched
        against the found element(s) *specialised to that case*; together the found elements must not be written
        outside the reference cases.  Returns False when the reference conditions are not such cases."""
        universe = []

        def collect(items):
            for it in items:
                if it["t"] == "Cond" and not isinstance(it["f"], str):
                    for a in F.atoms(it["f"]):
                        if a not in universe:
                            universe.append(a)
                for k_ in ("c", "inner"):
                    if k_ in it:
                        collect(it[k_])
        for fc, fr, fn_ in fslots:
            for a in F.atoms(fc):
                if a not in universe:
                    universe.append(a)
            collect([fn_])
        cases = []
        for rc, rr, rn in rslots:
            parts = [rc] if (rc is not True and rc is not False and rc[0] == "atom") else (list(rc[1]) if rc is not True and rc is not False and rc[0] == "and" else None)
            if not parts or any(p_[0] != "atom" or p_[1][0] != "variant" for p_ in parts):
                return False
            asg = {}
            for p_ in parts:
                _, place, var = p_[1]
                for a in universe:
                    if a[0] == "variant" and a[1] == place:
                        asg[a] = (a[2] == var)
                asg[p_[1]] = True
            cases.append(asg)

        def pe(f, asg):
            return pe_formula(f, asg)

        def one(node, asg):
            r_ = assume([node], asg)
            return r_[0] if len(r_) == 1 else node
        for (rc, rr, rn), asg in zip(rslots, cases):
            alive = []
            for fc, fr, fn_ in fslots:
                fc2 = pe(fc, asg)
                if fc2 is False:
                    continue
                alive.append((fc2, fr, one(fn_, asg)))
            if len(alive) != 1:
                self.err(path, "expected element is not written exactly once in this case", expected=F.show(rc), found="%d element(s)" % len(alive))
                continue
            rn2 = assume_ref([rn], asg)
            self.match_slot((True, rr, rn2[0] if len(rn2) == 1 else rn), alive[0], path + ("case " + F.show(rc),))
        allf = Or(*[fc for fc, _, _ in fslots])
        allr = Or(*[rc for rc, _, _ in rslots])
        ce, _ = F.counterexample(allf, allr, "implies")
        if ce is not None:
            self.err(path, "element is also written outside the reference cases: when " + F.show_asg(ce), expected=F.show(allr), found=F.show(allf))
        return True

    def _depends_on(self, slot, place):
        cond, reps, node = slot
        for a in F.atoms(cond):
            if a[0] == "variant" and a[1] == place:
                return True
        if node["t"] == "Tagged":
            from interp import split_guards as _sg
            for g_ in _sg(node["tag"]):
                for a in F.atoms(g_):
                    if a[0] == "variant" and a[1] == place:
                        return True
            t = core(node["tag"])
            if isinstance(t, TagV) and isinstance(t.n, V):
                n = core(t.n)
                if isinstance(n, CallV) and any(core(a).r() == place for a in n.args):
                    return True
            if isinstance(t, PhiV):
                for c, x in t.alts:
                    for a in F.atoms(c):
                        if a[0] == "variant" and a[1] == place:
                            return True
        return False

    def _same_shape(self, rn, fn_):
        if rn["t"] != fn_["t"]:
            return False
        if rn["t"] == "Prim":
            return rn["kind"] == fn_["kind"]
        return True

    def label(self, n):
        t = n["t"]
        if t == "Prim":
            return n["kind"]
        if t == "Tagged":
            if "n" in n:
                return "[%s]" % n["n"]
            return tag_str(self.I, n["tag"])
        return t

    def match_cond(self, rc, fc, path, sp):
        if ("anycond",) in F.atoms(rc):
            return True
        rc, fc = alias(rc), alias(fc)
        ce, n = F.counterexample(rc, fc)
        if ce is not None:
            # "given success": on a path on which the writer leaves with an error no artefact exists, so the two conditions
            # need only agree where no recorded failure condition (over the same vocabulary) holds
            voc = set(F.atoms(rc)) | set(F.atoms(fc))
            fl = [alias(c_) for c_, v_, n_, f_ in getattr(self.I, "fails", []) if c_ is not True and c_ is not False]
            fl = [c_ for c_ in fl if set(F.atoms(c_)) <= voc]
            if fl:
                ok_ = F.Not(F.Or(*fl))
                ce, n = F.counterexample(F.And(rc, ok_), F.And(fc, ok_))
        if ce is not None:
            self.err(path + ("when",), "emission condition differs from the reference; differs when " + F.show_asg(ce), sp, expected=F.show(rc), found=F.show(fc))
            return False
        return True

    def match_slot(self, rslot, fslot, path):
        rc, rr, rn = rslot
        fc, fr, fn_ = fslot
        lab = self.label(rn)
        p = path + (lab,)
        sp = fn_.get("sp")
        if rn["t"] != fn_["t"]:
            self.err(p, "different ASN.1 construct", sp, expected=self.label(rn), found=self.label(fn_))
            return
        if not reps_equal(rr, fr):
            self.err(p, "repetition differs (element written once vs. once per list entry, or a different list)", sp, expected=[rep_str(x) for x in rr], found=[rep_str(x) for x in fr])
            return
        good = self.match_cond(rc, fc, p, sp)
        t = rn["t"]
        if t in ("Seq", "Set", "SetOf"):
            self.match_list(rn["c"], fn_["c"], p, unordered=rn.get("unordered", False))
        elif t == "Tagged":
            want_n = rn["n"]
            got = core(fn_["tag"])
            gotn = None
            if isinstance(got, TagV):
                gotn = self.I.concrete(got.n) if isinstance(got.n, V) else got.n
                if gotn is None:
                    gotn = core(got.n).r()
            elif isinstance(got, Def):
                gotn = got.path.split("::")[-1]
            if gotn != want_n:
                self.err(p, "tag differs", sp, expected=want_n, found=gotn)
                good = False
            if rn["mode"] != fn_["mode"]:
                # EXPLICIT [n] X and IMPLICIT [n] over a constructed SEQUENCE/SET look different on the wire
                self.err(p, "tagging mode differs", sp, expected=rn["mode"], found=fn_["mode"])
                good = False
            self.match_list(rn["c"], fn_["c"], p)
        elif t == "Prim":
            if rn["kind"] != fn_["kind"]:
                self.err(p, "different ASN.1 type", sp, expected=rn["kind"], found=fn_["kind"])
                return
            args = fn_.get("args", [])
            if "v" in rn and args:
                good = self.value(rn["v"], args[0], p, sp) and good
            for j, spec in enumerate(rn.get("args", [])):
                if j + 1 < len(args):
                    good = self.value(spec, args[j + 1], p + ("arg%d" % (j + 1),), sp) and good
            if "inner" in rn:
                if "inner" not in fn_:
                    self.err(p, "expected a nested DER value", sp, expected="DER content", found=val_str(self.I, args[0]) if args else "?")
                else:
                    self.match_list(rn["inner"], fn_["inner"], p)
        elif t == "Raw":
            good = self.value(rn.get("v"), fn_["v"], p, sp) and good
        if good:
            self.ok(p)

    def match_choice(self, rn, rc, rr, grp, path):
        on = rn["on"]
        variants = list(rn["alts"].keys())
        for extra in rn.get("all_variants", []):
            if extra not in variants:
                variants.append(extra)
        if not grp:
            self.err(path + ("choice(%s)" % on,), "no alternative is written", expected=sorted(rn["alts"]), found="nothing")
            return
        items = [{"t": "Cond", "f": c, "c": [self._wrap(reps, rr, n)]} for c, reps, n in grp]
        for X in variants:
            asg = {}
            for Y in variants:
                asg[("variant", on, Y)] = (Y == X)
            spec = assume(items, asg)
            spec = self._resolve_tags(spec, on, X)
            want = rn["alts"].get(X, [])
            want = [{"t": "Cond", "f": rc, "c": want}] if rc is not True else want
            self.match_list(want, spec, path + ("%s=%s" % (on.split(".")[-1], X),))

    def _wrap(self, reps, outer_reps, node):
        # reps beyond the reference's own nesting are kept
        extra = tuple(reps)[len(tuple(outer_reps)):]
        for r in reversed(extra):
            node = {"t": "Rep", "over": r, "c": [node]}
        return node

    def _resolve_tags(self, items, on, X):
        """Replace `Tag::context(f(place))` by the table value of f for variant X."""
        out = []
        for it in items:
            n = dict(it)
            if it["t"] == "Tagged":
                from interp import specialise as _spec, split_guards as _sg
                full_asg = {}
                for g_ in _sg(it["tag"]):
                    for a_ in F.atoms(g_):
                        if a_[0] == "variant" and a_[1] == on:
                            full_asg[a_] = (a_[2] == X)
                if full_asg:
                    # the tag (number) was selected by a case split on the choice's place: take the case of X
                    n["tag"] = _spec(it["tag"], full_asg)
                    it = dict(it, tag=n["tag"])
                t = core(it["tag"])
                if isinstance(t, PhiV):
                    asg = {("variant", on, X): True}
                    for c, x in t.alts:
                        vs = _variants_of(c) or []
                        if X in vs:
                            n["tag"] = x
                            t = core(x)
                            break
                if isinstance(t, TagV) and isinstance(t.n, V) and isinstance(core(t.n), CallV):
                    call = core(t.n)
                    tab = variant_table(self.I, call.callee)
                    if tab is not None and X in tab:
                        n["tag"] = TagV(t.cls, Const(tab[X]))
            for key in ("c", "inner"):
                if key in it:
                    n[key] = self._resolve_tags(it[key], on, X)
            out.append(n)
        return out

    def match_time(self, rn, rc, rr, grp, path):
        p = path + ("Time(%s)" % rn["src"],)
        if not grp:
            self.err(p, "time field is not written", expected="UTCTime|GeneralizedTime", found="nothing")
            return
        # the alternatives must be exhaustive under the reference condition and all bound to src
        conds = []
        good = True
        for c, reps, n in grp:
            conds.append(c)
            if not reps_equal(rr, reps):
                self.err(p, "repetition differs", n.get("sp"), expected=[rep_str(x) for x in rr], found=[rep_str(x) for x in reps])
                good = False
            rts = places(n["args"][0])
            if rts != {rn["src"]}:
                self.err(p, "time value does not come from the expected field", n.get("sp"), expected=rn["src"], found=sorted(rts))
                good = False
        ce, _ = F.counterexample(rc, Or(*conds))
        if ce is not None:
            self.err(p + ("when",), "time field presence differs from the reference; differs when " + F.show_asg(ce), grp[0][2].get("sp"), expected=F.show(rc), found=F.show(Or(*conds)))
            good = False
        if good:
            self.ok(p)


# accessors / adaptors that hand a parameter's own content to the encoder unchanged
BENIGN = (
    "ObjectIdentifier::from_slice", "DistinguishedName::iter", "::as_str", "::as_bytes", "::as_ref", "::as_slice", "PublicKeyData::algorithm",
    "PublicKeyData::der_bytes", "::octets", "CustomExtension::content", "::to_vec", "::clone", "::iter", "::into_iter", "::deref", "::borrow",
    "::to_owned", "::into", "::content", "::contents",
)


def under(p, e):
    return p == e or (p.startswith(e) and p[len(e)] in ".[#?")


def covers(want, got):
    """Every found place lies under an expected place and every expected place is used."""
    return all(any(under(p, e) for e in want) for p in got) and all(any(under(p, e) for p in got) for e in want)


def rep_str(x):
    return x if isinstance(x, str) else core(x).r()


def reps_equal(rr, fr):
    rr, fr = tuple(rr), tuple(fr)
    if len(rr) != len(fr):
        return False
    for a, b in zip(rr, fr):
        if isinstance(a, str) and isinstance(b, str):
            if a != b:
                return False
        elif isinstance(a, str):
            if places(b) != {a}:
                return False
        elif isinstance(b, str):
            if places(a) != {b}:
                return False
        elif core(a).r() != core(b).r():
            return False
    return True


_TABLES = {}

import re as _re
_ALIAS = [(_re.compile(r"distinguished_name\.(entries|order)$"), "distinguished_name")]


def alias(f):
    """Rewrite representation-level places to the abstract place (a DistinguishedName is
    empty iff its map / its order list is empty; C20 shows the two agree)."""
    if f is True or f is False:
        return f
    if f[0] == "atom":
        k = f[1]
        if len(k) >= 2 and isinstance(k[1], str):
            s = k[1]
            for rx, rep in _ALIAS:
                s = rx.sub(rep, s)
            return ("atom", (k[0], s) + tuple(k[2:]))
        return f
    if f[0] == "not":
        return Not(alias(f[1]))
    if f[0] == "and":
        return And(*[alias(g) for g in f[1]])
    return Or(*[alias(g) for g in f[1]])


def variant_table(interp, fn):
    """Table variant -> constant for a local `match self { V(..) => CONST, ... }` function."""
    key = (id(interp.crate), fn)
    if key in _TABLES:
        return _TABLES[key]
    _TABLES[key] = None
    if fn not in interp.crate.bodies:
        return None
    from interp import Interp
    sub = Interp(interp.crate)
    out = sub.run_fn(fn)
    v = core(out["value"])
    tab = {}
    if isinstance(v, PhiV):
        for c, x in v.alts:
            val = sub.concrete(x)
            if val is None:
                return None
            vs = _variants_of(c)
            if vs is None:
                return None
            for name in vs:
                tab[name] = val
    else:
        return None
    _TABLES[key] = tab
    return tab


def _variants_of(f):
    if f is True or f is False:
        return None
    if f[0] == "atom" and f[1][0] == "variant":
        return [f[1][2]]
    if f[0] == "or":
        out = []
        for g in f[1]:
            r = _variants_of(g)
            if r is None:
                return None
            out += r
        return out
    if f[0] == "and":
        for g in f[1]:
            r = _variants_of(g)
            if r is not None:
                return r
    return None
