"""C11 - private keys survive save/load and keep their identity and algorithm."""
import formula as F
import schema as S
import refs as R
import re
import common
from interp import core, places, calls_of, roots, Interp, CallV, PhiV, StructV, TupleV, Via, MutV, Const, Def, Param
import c01
import c10

PROP = "C11"
CONFIGS_QUICK = ["K1", "K2"]
CONFIGS_THOROUGH = ["K1", "K2", "K0"]
EXPLANATION = (
    "Static table extraction and agreement, per crypto back end and across them: (pairs) every arm of the explicit-algorithm loaders and "
    "of the auto-detecting cascade is extracted as (algorithm static, key kind, back-end constant) and must agree with the algorithm "
    "table (C01.table: same curve / hash), the ring copy and the aws-lc-rs copy must agree arm by arm; (exh) the explicit loaders compare "
    "against every algorithm static of the configuration before the trailing panic and SignatureAlgorithm cannot be constructed "
    "outside the crate; (doc) in every KeyPair literal the bytes stored as the exportable document and the bytes handed to the back-end "
    "parser have the same origin, `alg` is the static that selected the parser, and the export accessors return that stored field; "
    "(spki) the public-key writer is SEQUENCE { AlgorithmIdentifier(alg SPKI oids + params), BIT STRING(key bits, len*8) }, the SPKI "
    "parser iterates the full algorithm list, compares a complete AlgorithmIdentifier, rejects trailing bytes and keeps the key bits, and "
    "SPKI identifiers of different key types are pairwise distinct; (eq) Hash reads a subset of what PartialEq compares, signature OIDs "
    "are pairwise distinct so lookup by OID is a function, and the lookup list contains every public algorithm static. "
    "Not decided: that a re-loaded key has the same public key and that its signatures verify (back-end behaviour).")
ASSUMPTIONS = ["ring / aws-lc-rs parse functions accept exactly keys of the curve / scheme named by the constant they are given", "rustls-pki-types accessors return the wrapped bytes"]

KP = "key_pair::KeyPair"
EXPLICIT = KP + "::from_pkcs8_der_and_sign_algo"
EXPLICIT_DER = KP + "::from_der_and_sign_algo"


def leaves(v, cond=True):
    """Flatten nested phi into (path condition, leaf)."""
    v0 = core(v)
    if isinstance(v0, PhiV):
        out = []
        for c, x in v0.alts:
            out.extend(leaves(x, F.And(cond, c)))
        return out
    return [(cond, v)]


def pos_alg(cond):
    """The algorithm static this path positively selected (alg == STATIC), if any."""
    out = []
    for a in F.atoms(cond):
        if a[0] == "eq":
            st = [x for x in a[1:] if isinstance(x, str) and "sign_algo::algo::PKCS_" in x]
            if st:
                asg = {b: False for b in F.atoms(cond)}
                asg[a] = True
                # positive iff the condition can hold with this atom true and fails with it false (others false)
                if F.evalf(cond, asg) and not F.evalf(cond, {b: False for b in F.atoms(cond)}):
                    out.append(st[0].split("::")[-1].replace("{}", ""))
    return out


def backend_consts(v):
    return sorted({r.split("::")[-1] for r in roots(v) if r.startswith("def:") and "::signature::" in r})


def kind_of(v):
    v0 = core(v)
    if isinstance(v0, StructV) and v0.variant and "KeyPairKind::" in v0.variant:
        return v0.variant.split("::")[-1]
    return None


def explicit_table(crate, fn):
    """{algorithm static -> (key kind, back-end constants, value)}: the stored `kind`, specialised for `alg == S` for
    every algorithm static S in turn (whatever the shape of the dispatch: an if-chain, a lookup helper returning
    Option, a table)."""
    from interp import specialise, split_guards
    I = Interp(crate)
    out = I.run_fn(fn)
    lits = [(sv, node) for sv, node, f, c in I.structs if (sv.adt or "") == KP and (f == fn or f in I.inlined)]
    if len(lits) != 1:
        return None, None, I
    sv, node = lits[0]
    statics = {s.split("::")[-1] for s in crate.statics if s.startswith("sign_algo::algo::PKCS_")}
    kind = sv.fields.get("kind")
    eqs = {}
    for g in split_guards(kind):
        for a in F.atoms(g):
            if a[0] == "eq":
                st = [x for x in a[1:] if isinstance(x, str) and "sign_algo::algo::PKCS_" in x]
                oth = [x for x in a[1:] if not (isinstance(x, str) and "sign_algo::algo::PKCS_" in x)]
                if len(st) == 1 and oth == ["alg"]:
                    eqs[a] = st[0].split("::")[-1].replace("{}", "")
    tab = {}
    for s in sorted(statics):
        leaf = core(specialise(kind, {a: (nm == s) for a, nm in eqs.items()}))
        if isinstance(leaf, PhiV):
            if not leaf.alts:
                continue      # no value on this path (the function does not return normally for this algorithm)
            tab[s] = (None, [], leaf)
            continue
        if kind_of(leaf) is None:
            continue
        tab[s] = (kind_of(leaf), backend_consts(leaf), leaf)
    return tab, sv, I


EXPECT = {nm: (fam, be) for nm, (spki, sig, params, fam, be) in c01.ALGS.items()}
KIND_OF_FAMILY = {"Rsa": "Rsa", "EcDsa": "Ec", "EdDsa": "Ed"}


def ed_parser_rule(rep, key, leaf):
    """Ed25519 documents exist in PKCS#8 v1 (OpenSSL, aws-lc-rs) and v2 (ring) form.  ring's `from_pkcs8` accepts v2 only,
    aws-lc-rs' accepts both: only `from_pkcs8_maybe_unchecked` makes every loader of both back ends accept the same keys."""
    ps = sorted(c.split("::")[-1] for c in calls_of(leaf) if "Ed25519KeyPair::" in c)
    rep.ob("C11.pairs", key + "|ed25519-parser", ps == ["from_pkcs8_maybe_unchecked"], "Ed25519 keys are parsed with from_pkcs8_maybe_unchecked (PKCS#8 v1 and v2) by every loader of both back ends", expected=["from_pkcs8_maybe_unchecked"], found=ps)


def rsa_container_rule(cfg, crate, rep):
    """aws-lc-rs has two RSA parsers: `RsaKeyPair::from_pkcs8` (PKCS#8 only) and `RsaKeyPair::from_der` (PKCS#1 only).
    The loaders that accept either container (`from_der_and_sign_algo`, the auto-detecting `TryFrom<&PrivateKeyDer>`) load
    every RSA key rcgen or ring exported only if they pick the parser by the container kind: `from_pkcs8` exactly on the
    paths where the input is `PrivateKeyDer::Pkcs8`, `from_der` exactly on the others."""
    fns = [EXPLICIT_DER] + [k for k in crate.bodies if k.startswith("<key_pair::KeyPair as std::convert::TryFrom<&") and "PrivateKeyDer" in k and k.endswith("::try_from")]
    for fn in fns:
        if fn not in crate.bodies:
            continue
        I = Interp(crate)
        I.run_fn(fn)
        seen = {"from_pkcs8": [], "from_der": []}
        for c, a, n, cnd, f in I.calls:
            if c.endswith("RsaKeyPair::from_pkcs8") or c.endswith("RsaKeyPair::from_der"):
                seen[c.split("::")[-1]].append(cnd)
        def _pk8(cnd, want):
            ats = [x for x in F.atoms(cnd) if x[0] == "variant" and x[2] == "Pkcs8"]
            if not ats:
                return False
            try:
                return all(asg[ats[0]] == want for asg in F.assignments(list(F.atoms(cnd))) if F.evalf(cnd, asg))
            except ValueError:
                return False
        ok = bool(seen["from_pkcs8"]) and bool(seen["from_der"]) and all(_pk8(c_, True) for c_ in seen["from_pkcs8"]) and all(_pk8(c_, False) for c_ in seen["from_der"])
        rep.ob("C11.pairs", "%s|%s|rsa-parser-by-container" % (cfg, fn), ok, "under aws-lc-rs an RSA key is parsed with from_pkcs8 exactly when the container is PKCS#8 and with from_der (PKCS#1) otherwise",
               found={k_: len(v_) for k_, v_ in seen.items()})


def check_pairs(cfg, crate, rep, tables):
    if cfg in ("K2", "K5") or any("aws_lc_rs::signature::RsaKeyPair::from_der" in (t.get("callee") or "") for b_ in crate.bodies.values() if "mir" in b_ for _, t in common.mir_calls(b_, lambda c: True)):
        rsa_container_rule(cfg, crate, rep)
    for fn in (EXPLICIT, EXPLICIT_DER):
        if fn not in crate.bodies:
            continue
        if fn == EXPLICIT_DER and cfg != "K2":
            # ring: delegates to the pkcs8 loader
            I = Interp(crate)
            v = I.run_fn(fn)["value"]
            rep.ob("C11.pairs", "%s|%s|delegates" % (cfg, fn), EXPLICIT in calls_of(v), "under ring the generic loader accepts only PKCS#8 and delegates to the PKCS#8 loader", found=core(v).r()[:160])
            continue
        rep.fn(fn)
        tab, sv, I = explicit_table(crate, fn)
        key = "%s|%s" % (cfg, fn)
        if tab is None:
            rep.fail("C11.pairs", key, "loader table not extractable (expected one KeyPair literal)")
            continue
        tables[(cfg, fn)] = {k: (v[0], v[1]) for k, v in tab.items()}
        statics = {s.split("::")[-1] for s in crate.statics if s.startswith("sign_algo::algo::PKCS_")}
        rep.ob("C11.exh", key + "|covers-every-static", set(tab) == statics, "the loader has an arm for every algorithm static of this configuration", expected=sorted(statics), found=sorted(tab))
        for alg, (kind, consts, leaf) in sorted(tab.items()):
            fam, be = EXPECT.get(alg, (None, None))
            want_kind = KIND_OF_FAMILY.get(fam)
            want_consts = [] if fam == "EdDsa" else [be]
            rep.ob("C11.pairs", key + "|" + alg, kind == want_kind and consts == want_consts, "arm pairs the algorithm with the key kind and back-end constant of the same curve / hash", expected=(want_kind, want_consts), found=(kind, consts))
            if kind == "Ed":
                ed_parser_rule(rep, key + "|" + alg, leaf)
            # the parser is fed the stored document
            doc = sv.fields.get("serialized_der")
            parse_in = places(leaf)
            rep.ob("C11.doc", key + "|" + alg + "|parser-input", parse_in and parse_in <= places(doc), "the back-end parser reads the very bytes that are stored as the exportable document", expected=sorted(places(doc)), found=sorted(parse_in))
        rep.ob("C11.doc", key + "|alg-field", core(sv.fields.get("alg")).r() == "alg", "KeyPair.alg is the algorithm the caller selected (which also selected the parser)", found=core(sv.fields.get("alg")).r())
        rep.sample({"rule": "C11.pairs", "cfg": cfg, "fn": fn, "table": {k: (v[0], v[1]) for k, v in tab.items()}})
    # cascade
    fn = [k for k in crate.bodies if k.startswith("<key_pair::KeyPair as std::convert::TryFrom<&rustls_pki_types::PrivateKeyDer")]
    if fn:
        fn = fn[0]
        rep.fn(fn)
        I = Interp(crate)
        I.run_fn(fn)
        lits = [(sv, node) for sv, node, f, c in I.structs if (sv.adt or "") == KP and f == fn]
        key = "%s|cascade" % cfg
        if len(lits) != 1:
            rep.fail("C11.pairs", key, "cascade not extractable")
        else:
            sv, node = lits[0]
            kv = core(sv.fields.get("kind"))
            # kind = (phi of tuples).0 ; walk to the tuples
            src = kv
            from interp import Sel
            tuples = []
            from interp import restrict, split_guards
            def _is_alg(v_):
                v_ = core(v_)
                if isinstance(v_, PhiV):
                    return all(_is_alg(y) for _, y in v_.alts)
                return isinstance(v_, Def) and "::PKCS_" in v_.path

            def collect(x):
                x = core(x)
                if isinstance(x, StructV) and x.adt and x.adt != KP and not x.variant and len(x.fields) == 2 and sum(1 for f_ in x.fields.values() if _is_alg(f_)) == 1:
                    # a private two-field record (detected key, its algorithm) is the pair under another name
                    x = TupleV(sorted(x.fields.values(), key=_is_alg))
                if isinstance(x, PhiV):
                    for c, y in x.alts:
                        collect(y)
                elif isinstance(x, TupleV):
                    # a pair whose halves are correlated case splits (bound from one table-driven search):
                    # one pair per guard
                    gs = split_guards(x.items[1]) if len(x.items) == 2 and isinstance(core(x.items[1]), PhiV) else []
                    if gs:
                        for g in gs:
                            tuples.append(restrict(x, g))
                    else:
                        tuples.append(x)
                elif isinstance(x, Sel):
                    collect(x.base)
            collect(kv)
            from interp import flatten_phi
            same_arm = None
            if not tuples:
                # `let (kind, alg) = <case split of pairs>` destructured component-wise: the two components are case
                # splits with pairwise identical guards
                from interp import restrict
                fk, fa = flatten_phi(kv), flatten_phi(sv.fields.get("alg"))

                def conj(f):
                    return [] if f is True else (list(f[1]) if f[0] == "and" else [f])
                pairs = []
                for ca, xa in fa:
                    cands = [(ck, xk) for ck, xk in fk if all(g in conj(ca) for g in conj(ck))]
                    if len(cands) != 1:
                        pairs = None
                        break
                    ck, xk = cands[0]
                    extra = [g for g in conj(ca) if g not in conj(ck)]
                    if extra:
                        # the kind of this arm still holds the nested (correlated) case split: select the same case
                        xk = restrict(xk, F.And(*extra))
                        for g in extra:
                            xk = restrict(xk, g)
                    pairs.append((xk, xa))
                same_arm = bool(pairs) and len(pairs) > 1
                if same_arm:
                    tuples = [TupleV([xk, xa]) for xk, xa in pairs]
            got = {}
            order = []
            for t in tuples:
                a = core(t.items[1])
                nm = a.path.split("::")[-1] if isinstance(a, Def) else a.r()
                got[nm] = (kind_of(t.items[0]), backend_consts(t.items[0]))
                order.append(nm)
            want_set = {"PKCS_ED25519", "PKCS_ECDSA_P256_SHA256", "PKCS_ECDSA_P384_SHA384", "PKCS_RSA_SHA256"} | ({"PKCS_ECDSA_P521_SHA512"} if cfg == "K2" else set())
            rep.ob("C11.pairs", key + "|detects", set(got) == want_set, "auto-detection tries exactly the key types of this back end", expected=sorted(want_set), found=sorted(got))
            for t_ in tuples:
                if kind_of(t_.items[0]) == "Ed":
                    ed_parser_rule(rep, key + "|PKCS_ED25519", t_.items[0])
            for alg, (kind, consts) in sorted(got.items()):
                fam, be = EXPECT.get(alg, (None, None))
                want_consts = [] if fam == "EdDsa" else [be]
                rep.ob("C11.pairs", key + "|" + alg, kind == KIND_OF_FAMILY.get(fam) and consts == want_consts, "detected key type is labelled with the algorithm whose parser accepted it", expected=(KIND_OF_FAMILY.get(fam), want_consts), found=(kind, consts))
            tables[(cfg, "cascade")] = got
            if cfg == "K2":
                # aws-lc's SEC1 parser takes the curve from the caller when the optional parameters are absent and accepts
                # any scalar below the group order: a smaller curve's key parses under a larger curve.  Only the
                # ascending order of the EC trials makes such keys resolve to their own curve.
                ec = [a for a in order if a.startswith("PKCS_ECDSA_")]
                want_ec = ["PKCS_ECDSA_P256_SHA256", "PKCS_ECDSA_P384_SHA384", "PKCS_ECDSA_P521_SHA512"]
                rep.ob("C11.pairs", key + "|ec-trials-ascending", ec == want_ec, "under aws-lc-rs the EC curves are tried smallest first (a parameter-less SEC1 key of a smaller curve is accepted by a larger curve's parser)", expected=want_ec, found=ec)
            doc = sv.fields.get("serialized_der")
            rep.ob("C11.doc", key + "|stores-input", places(doc) == {"key"} and not [r for r in roots(doc) if r.startswith("op:")], "the loaded key keeps its input document", found=core(doc).r()[:120])
            av = core(sv.fields.get("alg"))
            def _halves_of_one_pair(kv_, av_):
                # both are selections from the same case split of pairs (tuples or two-field records), the algorithm's
                # selector picking the algorithm half of every pair and the kind's selector the other half
                if not (isinstance(kv_, Sel) and isinstance(av_, Sel) and core(kv_.base).r() == core(av_.base).r() and kv_.sel != av_.sel):
                    return False
                def pick(x, sel):
                    x = core(x)
                    if isinstance(x, TupleV) and sel[1:].isdigit() and int(sel[1:]) < len(x.items):
                        return x.items[int(sel[1:])]
                    if isinstance(x, StructV):
                        return x.fields.get(sel[1:])
                    return None
                leaves = [y for _, y in flatten_phi(kv_.base)]
                return bool(leaves) and all(pick(y, av_.sel) is not None and _is_alg(pick(y, av_.sel)) and pick(y, kv_.sel) is not None and not _is_alg(pick(y, kv_.sel)) for y in leaves)
            rep.ob("C11.doc", key + "|alg-from-same-arm", same_arm if same_arm is not None else (bool(places(sv.fields.get("kind"))) and _halves_of_one_pair(core(sv.fields.get("kind")), core(sv.fields.get("alg")))), "kind and alg are the two halves of the same detected pair", found=(core(sv.fields.get("kind")).r()[-40:], av.r()[-40:]))
    # the other TryFrom impls delegate
    casc = [k for k in crate.bodies if k.startswith("<key_pair::KeyPair as std::convert::TryFrom<&rustls_pki_types::PrivateKeyDer")]
    for k in crate.bodies:
        if k.startswith("<key_pair::KeyPair as std::convert::TryFrom<") and "hir" in crate.bodies[k] and k not in casc and k.endswith("::try_from"):
            I = Interp(crate)
            v = I.run_fn(k)["value"]
            lits = [1 for sv, node, f, c in I.structs if (sv.adt or "") == KP and f == k]
            deleg = ".try_into" in v.r() or ".try_from" in v.r() or any(c_.startswith("<key_pair::KeyPair as std::convert::TryFrom") for c_ in calls_of(v))
            rep.ob("C11.doc", "%s|%s|delegates" % (cfg, k), not lits and deleg, "byte-slice / Vec / PKCS#8 entry points only convert and delegate", found=v.r()[:140])


def callvs(v, acc=None):
    """all CallV objects inside a value"""
    from interp import TupleV, ArrayV, OpV, IndexV, Sel
    if acc is None:
        acc = []
    if isinstance(v, CallV):
        acc.append(v)
        for a in v.args:
            callvs(a, acc)
    elif isinstance(v, Via):
        callvs(v.inner, acc)
    elif isinstance(v, Sel):
        callvs(v.base, acc)
    elif isinstance(v, PhiV):
        for _, x in v.alts:
            callvs(x, acc)
    elif isinstance(v, StructV):
        for x in v.fields.values():
            callvs(x, acc)
    elif isinstance(v, (TupleV, ArrayV)):
        for x in v.items:
            callvs(x, acc)
    elif isinstance(v, OpV):
        for x in v.args:
            callvs(x, acc)
    elif isinstance(v, IndexV):
        callvs(v.base, acc)
    elif isinstance(v, MutV):
        callvs(v.base, acc)
    return acc


def check_generate(cfg, crate, rep):
    from interp import split_guards, restrict
    fn = KP + "::generate_for"
    if fn not in crate.bodies:
        return
    rep.fn(fn)
    I = Interp(crate, inline_always={KP + "::generate_rsa_inner"})
    I.run_fn(fn)
    lits = [(sv, node, c) for sv, node, f, c in I.structs if (sv.adt or "") == KP]
    # one alternative per generated key kind, whether the function has a literal per arm or builds the key once from a
    # case split computed in the arms
    alts = []
    for sv, node, c in lits:
        gs = split_guards(sv.fields.get("kind")) if isinstance(core(sv.fields.get("kind")), PhiV) else []
        if gs:
            for g in gs:
                alts.append((restrict(sv, g), node))
        else:
            alts.append((sv, node))
    kinds = sorted({kind_of(sv.fields.get("kind")) or "?" for sv, node in alts})
    want_kinds = ["Ec", "Ed"] + (["Rsa"] if cfg == "K2" else [])
    rep.ob("C11.doc", "%s|%s|kinds-generated" % (cfg, fn), kinds == want_kinds, "key generation covers exactly the key kinds of this back end", expected=want_kinds, found=kinds)
    for sv, node in alts:
        kind = kind_of(sv.fields.get("kind"))
        doc = sv.fields.get("serialized_der")
        gen = {r for r in roots(doc) if r.startswith("call:") and ("generate" in r)}
        parsed = {r for r in roots(sv.fields.get("kind")) if r.startswith("call:") and ("generate" in r)}
        ok = bool(gen) and gen == parsed
        rep.ob("C11.doc", "%s|%s|%s|document-is-the-generated-one" % (cfg, fn, kind), ok, "the stored document is the very one produced by the generator and re-parsed into the key object", expected=sorted(gen), found=sorted(parsed), sp=node.get("sp"))
        rep.ob("C11.doc", "%s|%s|%s|alg" % (cfg, fn, kind), core(sv.fields.get("alg")).r() == "alg", "generated key is labelled with the requested algorithm", found=core(sv.fields.get("alg")).r())
        # the exported document is PKCS#8 by type: it comes out of `generate_pkcs8` (a pkcs8::Document) or out of an
        # `as_der()` whose result type is the back end's PKCS#8 document type - not a SEC1 / PKCS#1 encoding
        prods = []
        for cv in callvs(doc):
            ty = (cv.node or {}).get("ty", "") or ""
            last = cv.callee.split("::")[-1]
            if last == "generate_pkcs8":
                prods.append((last, "pkcs8"))
            elif last in ("as_der", "to_der", "as_be_bytes", "private_key", "to_pkcs8", "to_pkcs8v1", "to_pkcs8v2", "as_bytes"):
                if last == "private_key":
                    prods.append((last, "raw private key"))
                elif "Der<" in ty or "Document" in ty or "Bytes<" in ty:
                    prods.append((last, "pkcs8" if "Pkcs8" in ty or "pkcs8::Document" in ty else ty[:70]))
        okp = bool(prods) and all(k_ == "pkcs8" for _, k_ in prods)
        rep.ob("C11.doc", "%s|%s|%s|document-is-pkcs8" % (cfg, fn, kind), okp, "the stored (and exported under the PRIVATE KEY label) document of a generated key is a PKCS#8 document by type", found=prods, sp=node.get("sp"))
        # generator parameterised by the algorithm's own back-end constant
        if kind == "Rsa" or (kind is None and cfg == "K2"):
            rep.ob("C11.pairs", "%s|%s|Rsa|encoding-from-alg" % (cfg, fn), "alg.sign_alg#Rsa.0" in places(sv.fields.get("kind")), "a generated RSA key signs with the padding / hash of the requested algorithm (not with whatever a generic loader defaults to)", found=sorted(places(sv.fields.get("kind")))[:6])
        if kind == "Ec":
            rep.ob("C11.pairs", "%s|%s|Ec|curve-from-alg" % (cfg, fn), "alg.sign_alg#EcDsa.0" in places(sv.fields.get("kind")), "the curve of the generated key is the requested algorithm's", found=sorted(places(sv.fields.get("kind"))))
    # remote
    fn = KP + "::from_remote"
    I = Interp(crate)
    I.run_fn(fn)
    lits = [(sv, node) for sv, node, f, c in I.structs if (sv.adt or "") == KP and f == fn]
    if len(lits) == 1:
        sv = lits[0][0]
        rep.ob("C11.doc", "%s|%s" % (cfg, fn), kind_of(sv.fields.get("kind")) == "Remote" and "RemoteKeyPair::algorithm" in core(sv.fields.get("alg")).r() and core(sv.fields.get("kind").fields.get("0") if isinstance(core(sv.fields.get("kind")), StructV) else Param("?")).r() == "key_pair", "a remote key is labelled with the algorithm it announces and stores no private document", found=sv.r()[:200])
    # accessors
    for fn, how in ((KP + "::serialize_der", "self.serialized_der"), (KP + "::serialized_der", "self.serialized_der")):
        v = Interp(crate, inline_always={KP + "::serialize_der", KP + "::serialized_der"}).run_fn(fn)["value"]
        rep.ob("C11.doc", "%s|%s" % (cfg, fn), places(v) == {how} and not [r for r in roots(v) if r.startswith(("op:", "call:"))], "the export accessor returns the stored document", found=core(v).r()[:80])


def check_spki(cfg, crate, rep):
    fn = "key_pair::serialize_public_key_der"
    rep.fn(fn)
    I = Interp(crate)
    out = I.run_fn(fn)
    m = S.Matcher(I, rep, "C11.spki", "%s|%s" % (cfg, fn))
    m.match_list(S.canon_ref([R.spki("key")]), S.norm(out["items"]), ("SubjectPublicKeyInfo",))
    fn = "sign_algo::SignatureAlgorithm::write_oids_sign_alg"
    rep.fn(fn)
    # KeyPair's PublicKeyData impl: algorithm = self.alg, bits from the back-end key object
    for k in crate.bodies:
        if k == "<key_pair::KeyPair as key_pair::PublicKeyData>::algorithm":
            v = core(Interp(crate).run_fn(k)["value"])
            rep.ob("C11.spki", "%s|%s" % (cfg, k), v.r() == "self.alg", "exported algorithm identifier is the key's own algorithm", found=v.r())
        if k == "<key_pair::KeyPair as key_pair::PublicKeyData>::der_bytes":
            v = Interp(crate).run_fn(k)["value"]
            pl = places(v)
            rep.ob("C11.spki", "%s|%s" % (cfg, k), all(p.startswith("self.kind") for p in pl) and pl, "public key bits come from the back-end key object (never from the stored private document)", found=sorted(pl))
    # parser
    fn = "key_pair::SubjectPublicKeyInfo::from_der"
    if fn in crate.bodies:
        rep.fn(fn)
        I = Interp(crate)
        out = I.run_fn(fn)
        key = "%s|%s" % (cfg, fn)
        calls = [c for c, a, n, cnd, f in I.calls]
        rep.ob("C11.spki", key + "|iterates-all", "sign_algo::SignatureAlgorithm::iter" in calls, "the algorithm is chosen by scanning the full algorithm list")
        # a refusal that fires whenever the remainder of the *outer* parse (of the input itself) is not empty
        def _rem_atoms(c):
            return [a for a in F.atoms(c) if a[0] == "empty" and a[1].endswith(".0") and "(spki_der)" in a[1] and "AlgorithmIdentifier" not in a[1]]
        trailing = [c for c, v, n, f in I.fails if f == fn and _rem_atoms(c)
                    and F.evalf(c, {b: (b[0] == "variant" and b[2] == "Ok" and "(spki_der)" in b[1]) for b in F.atoms(c)})]
        rep.ob("C11.spki", key + "|trailing-bytes", len(trailing) >= 1, "trailing bytes after the SubjectPublicKeyInfo are rejected", found=[F.show(c) for c, v, n, f in I.fails if f == fn])
        # semantic form: some equality test compares the *whole* AlgorithmIdentifier of the parsed key (the value selected
        # as `.algorithm` directly from the parsed SubjectPublicKeyInfo, nothing deeper) with an AlgorithmIdentifier decoded
        # from what the candidate algorithm's own writer produced
        ok = False
        seen = []
        for a, vals in I.atom_vals.items():
            if a[0] != "eq" or len(vals) != 2:
                continue
            for x, y in ((vals[0], vals[1]), (vals[1], vals[0])):
                rx = core(x).r()
                if "spki_der" in rx and rx.endswith(".algorithm") and not rx.endswith(".algorithm.algorithm"):
                    ry = roots(y)
                    seen.append(rx[-60:])
                    if any(r.startswith("emit:") and r.endswith("write_oids_sign_alg") for r in ry) and any(r.startswith("call:") and r.endswith("from_der") for r in ry):
                        ok = True
                elif "spki_der" in rx and ".algorithm" in rx:
                    seen.append("PARTIAL " + rx[-70:])
        rep.ob("C11.spki", key + "|complete-identifier", ok, "a complete AlgorithmIdentifier (OID and parameters) is compared with the key's", found=seen)
        wr = [c for c in calls if c.endswith("write_oids_sign_alg")]
        rep.ob("C11.spki", key + "|candidate-from-writer", len(wr) >= 1, "candidates are produced by the writer's own identifier function (reader and writer cannot disagree)")
        lits = [(sv, node) for sv, node, f, c in I.structs if (sv.adt or "").endswith("SubjectPublicKeyInfo") and f == fn]
        if len(lits) == 1:
            sv = lits[0][0]
            rep.ob("C11.spki", key + "|key-bits", "sel:.subject_public_key" in roots(sv.fields.get("subject_public_key")) and places(sv.fields.get("subject_public_key")) == {"spki_der"}, "the parsed key keeps the subjectPublicKey bits", found=core(sv.fields.get("subject_public_key")).r()[-120:])
    # identifiers of different key types are distinct
    I = Interp(crate)
    ids = {}
    for s in sorted(crate.statics):
        if s.startswith("sign_algo::algo::PKCS_"):
            v = core(I.const_value(s))
            o = I.concrete(v.fields.get("oids_sign_alg"))
            pv = core(v.fields.get("params"))
            pk = (pv.variant or "").split("::")[-1] if isinstance(pv, StructV) else None
            ids.setdefault((str(o), pk), []).append(s.split("::")[-1])
    for ident, names in ids.items():
        fams = {EXPECT.get(n, ("?",))[0] for n in names}
        rsa_only = all(n.startswith("PKCS_RSA_SHA") for n in names)
        rep.ob("C11.spki", "%s|distinct-identifiers|%s" % (cfg, "+".join(names)), len(names) == 1 or rsa_only, "algorithms with different key types have different SPKI identifiers (the three RSA PKCS#1 algorithms intentionally share rsaEncryption)", found=ident)


def check_eq(cfg, crate, rep):
    eqfn = "<sign_algo::SignatureAlgorithm as std::cmp::PartialEq>::eq"
    hfn = "<sign_algo::SignatureAlgorithm as std::hash::Hash>::hash"
    def fields(fn):
        b = crate.bodies.get(fn)
        if not b:
            return None
        return {n["name"] for n in common.hir_walk(b["hir"]) if n["k"] == "Field" and (n.get("adt") or "").endswith("SignatureAlgorithm")}
    fe, fh = fields(eqfn), fields(hfn)
    rep.fn(eqfn, hfn)
    rep.ob("C11.eq", "%s|hash-subset-of-eq" % cfg, fe is not None and fh is not None and fh <= fe and fh, "Hash reads a subset of the fields PartialEq compares (equal values hash equally)", expected=sorted(fe or []), found=sorted(fh or []))
    rep.ob("C11.eq", "%s|eq-fields" % cfg, fe == {"oids_sign_alg", "oid_components"}, "equality compares key-type identifier and signature OID", found=sorted(fe or []))
    I = Interp(crate)
    alg_list = core(I.const_value("sign_algo::SignatureAlgorithm::iter::ALGORITHMS"))
    names = []
    if alg_list is not None:
        from interp import ArrayV
        x = core(alg_list)
        if isinstance(x, ArrayV):
            names = [core(e).path.split("::")[-1] for e in x.items if isinstance(core(e), Def)]
    pub = {s.split("::")[-1] for s, st in crate.statics.items() if s.startswith("sign_algo::algo::PKCS_") and st.get("vis") == "pub"}
    rep.ob("C11.eq", "%s|lookup-list-complete" % cfg, set(names) == pub and len(names) == len(set(names)), "the lookup list contains every public algorithm static exactly once", expected=sorted(pub), found=names)
    oids = {}
    for n in names:
        v = core(I.const_value("sign_algo::algo::" + n))
        oids.setdefault(str(I.concrete(v.fields.get("oid_components"))), []).append(n)
    dup = {k: v for k, v in oids.items() if len(v) > 1}
    rep.ob("C11.eq", "%s|signature-oids-distinct" % cfg, not dup and len(oids) == len(names), "signature OIDs are pairwise distinct, so from_oid is a function", found=dup)
    v = Interp(crate)
    out = v.run_fn("sign_algo::SignatureAlgorithm::from_oid")
    txt = core(out["value"]).r()
    # the selecting comparison is equality of the *whole* arc sequences: `oid == elem.oid_components`, or the lengths
    # compared equal next to an element-wise comparison; a prefix / element-wise-only comparison selects on a common prefix
    side_ = r"(?:(?<![\w.\]])oid(?![\w.\[])|[\w:<>' ,]+\(\)\[\]\.oid_components(?![\w.\[]))"
    whole_ = re.search(side_ + " == " + side_, txt) is not None
    lens_ = re.search(r"len\((?:oid|[^()]*\(\)\[\]\.oid_components)\) == [\w:<>' \[\],]*len\((?:oid|[^()]*\(\)\[\]\.oid_components)\)", txt) is not None
    rep.ob("C11.eq", "%s|from_oid|whole-sequence" % cfg, whole_ or lens_, "from_oid selects on equality of the whole OID arc sequence (same arcs and same length), not on a common prefix", found=txt[:300])
    rep.ob("C11.eq", "%s|from_oid" % cfg, "oid_components" in txt and "SignatureAlgorithm::iter" in " ".join(c for c, a, n, cnd, f in v.calls) and any("UnsupportedSignatureAlgorithm" in core(x).r() for _, x in (core(out["value"]).alts if isinstance(core(out["value"]), PhiV) else [(True, out["value"])])), "from_oid scans the list comparing oid_components and errors otherwise", found=txt[:200])


def check_pub(cfg, crate, rep, rule="C11.pub"):
    """`KeyPair::der_bytes` (the subjectPublicKey written into every SPKI, hashed into key identifiers and exported by
    public_key_raw / public_key_der) is, for each kind of key, exactly what that key's `public_key()` returns: one
    accessor call on the arm's own key object, viewed through `as_ref` -- no trimming, unwrapping, re-encoding."""
    from interp import flatten_phi
    fn = "<key_pair::KeyPair as key_pair::PublicKeyData>::der_bytes"
    if fn not in crate.bodies:
        rep.fail(rule, "%s|%s" % (cfg, fn), "public key accessor not found")
        return
    rep.fn(fn)
    I = Interp(crate)
    v = I.run_fn(fn)["value"]
    kinds = {}
    for c, x in flatten_phi(v):
        vs = S._variants_of(c) or (["Remote"] if c is True else [])
        x0 = core(x)
        calls = sorted(c_ for c_ in calls_of(x) if not c_.endswith("::as_ref") and not c_.endswith("::deref"))
        ok = isinstance(x0, CallV) and x0.callee.endswith("::public_key") and len(calls) == 1 and len(vs) == 1 \
            and core(x0.args[0]).r() == "self.kind#%s.0" % vs[0] and not [r for r in roots(x) if r.startswith("op:")]
        for k in vs:
            kinds[k] = ok
        rep.ob(rule, "%s|%s|%s" % (cfg, fn, ",".join(vs) or "?"), ok, "the public key bytes are the key object's own public_key(), unmodified", found=core(x).r()[:140])
    want = {"Remote"} if cfg == "K3" else {"Ec", "Ed", "Rsa", "Remote"}
    rep.ob(rule, "%s|%s|kinds" % (cfg, fn), set(kinds) == want, "one arm per key kind", expected=sorted(want), found=sorted(kinds))


def run(ctx):
    rep = ctx.rep
    tables = {}
    for cfg in (CONFIGS_QUICK if ctx.tier == "quick" else CONFIGS_THOROUGH):
        crate = ctx.crate(cfg)
        check_pairs(cfg, crate, rep, tables)
        check_generate(cfg, crate, rep)
        # "loaded again through any of the loading entry points": the PEM entry points hand the envelope's contents to the
        # sniffing DER loaders and do not dispatch on the label
        import c14
        common.borrow_rules(rep, lambda: c14.loaders(cfg, crate, rep), "C14.", "C11.load")
        check_spki(cfg, crate, rep)
        check_pub(cfg, crate, rep)
        check_eq(cfg, crate, rep)
        # "signatures that verify under the original public key": the signing routine computes each signature from the
        # message with this key, into a buffer sized from the key itself
        import c01
        common.borrow_rules(rep, lambda: (c01.check_wrap(cfg, crate, rep), c01.check_sign_arms(cfg, crate, rep)), "C01.", "C11.sign")
        for fn in (EXPLICIT, EXPLICIT_DER):
            k = ("rcgen", fn, "call:panicking::panic_fmt")
            if fn in crate.bodies and k in c10.AUDIT and any(o == fn for o, c, t, b in c10.sites(crate) if c == "call:panicking::panic_fmt"):
                ok, detail = c10.mechanised(cfg, crate, k, "unreachable-exh", [])
                rep.ob("C11.exh", "%s|%s|panic-unreachable" % (cfg, fn), ok, "the trailing `Unknown SignatureAlgorithm` panic is unreachable: " + detail)
    # ring copy vs aws-lc-rs copy
    a, b = tables.get(("K1", EXPLICIT)), tables.get(("K2", EXPLICIT))
    if a and b:
        for alg in sorted(set(a) & set(b)):
            rep.ob("C11.pairs", "K1=K2|%s|%s" % (EXPLICIT, alg), a[alg] == b[alg], "ring and aws-lc-rs copies of the loader agree on this arm", expected=a[alg], found=b[alg])
        rep.ob("C11.pairs", "K1=K2|%s|only-P521-extra" % EXPLICIT, set(b) - set(a) == {"PKCS_ECDSA_P521_SHA512"}, "aws-lc-rs adds exactly P-521", found=sorted(set(b) - set(a)))
    d = tables.get(("K2", EXPLICIT_DER))
    if b and d:
        for alg in sorted(set(b) | set(d)):
            rep.ob("C11.pairs", "K2|pkcs8-vs-der|%s" % alg, b.get(alg) == d.get(alg), "the PKCS#8 loader and the generic DER loader agree on this arm", expected=b.get(alg), found=d.get(alg))
    ca, cb = tables.get(("K1", "cascade")), tables.get(("K2", "cascade"))
    if ca and cb:
        for alg in sorted(set(ca) & set(cb)):
            rep.ob("C11.pairs", "K1=K2|cascade|%s" % alg, ca[alg] == cb[alg], "both back ends detect this key type the same way", expected=ca[alg], found=cb[alg])
