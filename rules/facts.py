"""Fact generation and loading.

Facts are produced by the rustc_private driver (/verif/driver) injected as
RUSTC_WORKSPACE_WRAPPER under `cargo +nightly check --offline`, once per cfg
configuration, and cached under /verif/.cache/facts/<tree-hash>/<config>/.
The tree hash covers every file of /repo except target/ and .git/, so a check
always sees the current working tree (fail closed: the fact file must exist and
carry the hash that was just computed).
"""
import fcntl
import hashlib
import json
import os
import re
import shutil
import subprocess
import sys
import time

VERIF = os.path.dirname(os.path.dirname(os.path.abspath(__file__)))
REPO = os.environ.get("RCGEN_REPO", "/repo")
CACHE = os.environ.get("VERIF_CACHE_DIR") or os.path.join(VERIF, ".cache")
DRIVER = os.path.join(CACHE, "driver-target", "debug", "rcgen-facts")

# id -> (cargo args, fact files expected)
CONFIGS = {
    "K1": (["-p", "rcgen", "--features", "x509-parser,zeroize"], ["rcgen.lib.json"]),
    "K2": (["-p", "rcgen", "--no-default-features", "--features", "aws_lc_rs,pem,x509-parser,zeroize"], ["rcgen.lib.json"]),
    "K3": (["-p", "rcgen", "--no-default-features", "--features", "pem,x509-parser"], ["rcgen.lib.json"]),
    "K0": (["-p", "rcgen"], ["rcgen.lib.json"]),
    "K4": (["-p", "rustls-cert-gen"], ["rcgen.lib.json", "rustls_cert_gen.lib.json", "rustls_cert_gen.bin.json"]),
    "K5": (["-p", "rustls-cert-gen", "--no-default-features", "--features", "aws_lc_rs"], ["rcgen.lib.json", "rustls_cert_gen.lib.json", "rustls_cert_gen.bin.json"]),
}
QUICK = ["K1", "K2", "K3", "K4"]
THOROUGH = ["K1", "K2", "K3", "K4", "K0", "K5"]


class FactError(Exception):
    pass


def tree_hash(repo=None):
    repo = repo or REPO
    h = hashlib.sha256()
    files = []
    for root, dirs, fs in os.walk(repo):
        dirs[:] = sorted(d for d in dirs if not (root == repo and d in ("target", ".git")))
        for f in sorted(fs):
            files.append(os.path.join(root, f))
    for p in files:
        rel = os.path.relpath(p, repo)
        h.update(rel.encode() + b"\0")
        try:
            with open(p, "rb") as fh:
                h.update(hashlib.sha256(fh.read()).digest())
        except OSError:
            h.update(b"<unreadable>")
    return h.hexdigest()[:24]


def nightly_sysroot():
    return subprocess.check_output(["rustc", "+nightly", "--print", "sysroot"], text=True).strip()


def driver_hash():
    h = hashlib.sha256()
    d = os.path.join(VERIF, "driver", "src")
    for f in sorted(os.listdir(d)):
        with open(os.path.join(d, f), "rb") as fh:
            h.update(fh.read())
    return h.hexdigest()[:8]


def ensure_driver():
    if os.path.exists(DRIVER):
        src_m = max(os.path.getmtime(os.path.join(VERIF, "driver", "src", f)) for f in os.listdir(os.path.join(VERIF, "driver", "src")))
        if os.path.getmtime(DRIVER) >= src_m:
            return
    env = dict(os.environ, CARGO_TARGET_DIR=os.path.join(CACHE, "driver-target"), CARGO_NET_OFFLINE="true")
    r = subprocess.run(["cargo", "build", "--offline"], cwd=os.path.join(VERIF, "driver"), env=env, capture_output=True, text=True)
    if r.returncode != 0 or not os.path.exists(DRIVER):
        raise FactError("driver build failed:\n" + r.stderr[-4000:])


def _run_config(cfg, th, outdir, repo):
    args, expect = CONFIGS[cfg]
    target = os.path.join(CACHE, "target-" + cfg)
    os.makedirs(target, exist_ok=True)
    # cargo's freshness cache would skip the wrapper: drop the members' fingerprints
    fp = os.path.join(target, "debug", ".fingerprint")
    if os.path.isdir(fp):
        for d in os.listdir(fp):
            if d.startswith("rcgen-") or d.startswith("rustls-cert-gen-"):
                shutil.rmtree(os.path.join(fp, d), ignore_errors=True)
    tmp = outdir + ".tmp.%d" % os.getpid()
    shutil.rmtree(tmp, ignore_errors=True)
    os.makedirs(tmp)
    env = dict(os.environ)
    env.update({
        "LD_LIBRARY_PATH": nightly_sysroot() + "/lib" + (":" + env["LD_LIBRARY_PATH"] if env.get("LD_LIBRARY_PATH") else ""),
        "RUSTFLAGS": "-Zmir-opt-level=0 -Awarnings",
        "RUSTC_WORKSPACE_WRAPPER": DRIVER,
        "RCGEN_FACTS_DIR": tmp,
        "RCGEN_FACTS_CONFIG": cfg,
        "RCGEN_FACTS_TREE_HASH": th,
        "CARGO_TARGET_DIR": target,
        "CARGO_NET_OFFLINE": "true",
    })
    env.pop("RUSTC_WRAPPER", None)
    t0 = time.time()
    r = subprocess.run(["cargo", "+nightly", "check", "--offline"] + args, cwd=repo, env=env, capture_output=True, text=True)
    dt = time.time() - t0
    if r.returncode != 0:
        shutil.rmtree(tmp, ignore_errors=True)
        raise FactError("cargo check failed for %s (the tree does not type-check in this configuration):\n%s" % (cfg, r.stderr[-3000:]))
    for f in expect:
        p = os.path.join(tmp, f)
        if not os.path.exists(p):
            shutil.rmtree(tmp, ignore_errors=True)
            raise FactError("fact file %s missing for %s (wrapper skipped?)\n%s" % (f, cfg, r.stderr[-1500:]))
    shutil.rmtree(outdir, ignore_errors=True)
    os.rename(tmp, outdir)
    return dt


def ensure_facts(configs, repo=None):
    """Return (tree_hash, {cfg: dir}); generates missing configs (in parallel)."""
    repo = repo or REPO
    os.makedirs(CACHE, exist_ok=True)
    lock = open(os.path.join(CACHE, "lock"), "w")
    fcntl.flock(lock, fcntl.LOCK_EX)
    try:
        ensure_driver()
        th = tree_hash(repo)
        base = os.path.join(CACHE, "facts", th + "-" + driver_hash())
        os.makedirs(base, exist_ok=True)
        todo = [c for c in configs if not all(os.path.exists(os.path.join(base, c, f)) for f in CONFIGS[c][1])]
        timings = {}
        if todo:
            from concurrent.futures import ThreadPoolExecutor
            with ThreadPoolExecutor(max_workers=len(todo)) as ex:
                futs = {c: ex.submit(_run_config, c, th, os.path.join(base, c), repo) for c in todo}
                errs = []
                for c, f in futs.items():
                    try:
                        timings[c] = f.result()
                    except FactError as e:
                        errs.append(str(e))
                if errs:
                    raise FactError("\n".join(errs))
            # the tree must not have changed while we were analysing it
            if tree_hash(repo) != th:
                raise FactError("repository changed during fact generation")
        # prune old hashes (keep the 6 most recent)
        root = os.path.join(CACHE, "facts")
        ds = sorted((os.path.getmtime(os.path.join(root, d)), d) for d in os.listdir(root))
        for _, d in ds[:-6]:
            if d != os.path.basename(base):
                shutil.rmtree(os.path.join(root, d), ignore_errors=True)
        os.utime(base)
        return th, {c: os.path.join(base, c) for c in configs}, timings
    finally:
        fcntl.flock(lock, fcntl.LOCK_UN)
        lock.close()


_GEN = re.compile(r"::<(?!impl )[^<>]*(?:<[^<>]*(?:<[^<>]*>[^<>]*)*>[^<>]*)*>")


def norm_path(p):
    """Normalise a def path: drop generic-argument segments (`::<'a>`), map the
    prelude re-exports to their canonical names."""
    if p is None:
        return None
    q = p
    for _ in range(4):
        q2 = _GEN.sub("", q)
        if q2 == q:
            break
        q = q2
    q = {"std::prelude::v1::Ok": "Ok", "std::prelude::v1::Err": "Err", "std::prelude::v1::Some": "Some", "std::prelude::v1::None": "None",
         "std::result::Result::Ok": "Ok", "std::result::Result::Err": "Err", "std::option::Option::Some": "Some", "std::option::Option::None": "None"}.get(q, q)
    return q


def signature(crate, name, body):
    """what identifies a function besides its name: parameter types, return type, callees"""
    callees = set()
    stack = [body.get("hir")]
    while stack:
        x = stack.pop()
        if isinstance(x, dict):
            if x.get("k") in ("Call", "MethodCall"):
                c = x.get("inst") or x.get("callee")
                if isinstance(c, str):
                    callees.add(norm_path(c))
            stack.extend(x.values())
        elif isinstance(x, list):
            stack.extend(x)
    ps = body.get("params") or []
    return {"pnames": [p.get("name") if p.get("k") == "Binding" else None for p in ps], "ptys": [p.get("ty") for p in ps],
            "ret": (body.get("hir") or {}).get("ty"), "callees": sorted(callees)}


_SIGS = None


def known_sigs():
    global _SIGS
    if _SIGS is None:
        p = os.path.join(VERIF, "refs", "known_sigs.json")
        _SIGS = json.load(open(p)) if os.path.exists(p) else {}
    return _SIGS


def _walk(n):
    stack = [n]
    while stack:
        x = stack.pop()
        if isinstance(x, dict):
            yield x
            stack.extend(x.values())
        elif isinstance(x, list):
            stack.extend(x)


def item_fingerprint(body):
    """what identifies a constant / static besides its name: its type and the literals / paths of its initialiser"""
    lits = []
    for x in _walk(body.get("hir")):
        if x.get("k") == "Lit":
            lits.append(repr(x.get("v"))[:40])
        elif x.get("k") == "Path" and x.get("res") == "def":
            lits.append(x.get("def") or "")
    return {"ty": (body.get("hir") or {}).get("ty"), "lits": sorted(lits)[:80]}


def canonicalise(raw, fname):
    """Present renamed / moved private items under the names the rules know (refs/known_sigs.json holds, per crate /
    configuration / target, what every named function, constant, static and struct looked like when the rules were
    written).

    * functions: one of the reference that no longer exists is matched with one that did not exist then when they
      have the same parameter types (as a multiset: a free function may have become a method) and return type and
      either their callee sets overlap (Jaccard >= 0.5 after applying the aliases found so far) or the signature is
      unique on both sides; matching is repeated until nothing changes;
    * constants / statics: same type and same initialiser literals;
    * struct fields: a struct of the reference whose current definition has the same field types in the same order
      under other names gets the reference's field names back;
    * parameters of known functions get their reference names back (by position, or by type after a permutation).
    Every occurrence of a new path / name in the facts is replaced by the old one.
    Returns (raw, {new: old}, [(fn, old_param, new_param)])."""
    import re
    key = "%s|%s|%s" % (raw.get("crate"), raw.get("config"), fname)
    ref_all = known_sigs().get(key)
    if not ref_all or os.environ.get("VERIF_NO_CANON"):
        return raw, {}, []
    ref = ref_all.get("fns", ref_all) if isinstance(ref_all, dict) and "fns" in ref_all else ref_all
    ref_items = ref_all.get("items", {}) if "fns" in ref_all else {}
    ref_adts = ref_all.get("adts", {}) if "fns" in ref_all else {}
    cur, cur_items = {}, {}
    for b in raw["bodies"]:
        k = norm_path(b["def"])
        if "{closure" in k:
            continue
        if b.get("dk") in ("Fn", "AssocFn"):
            cur[k] = b
        elif (b.get("dk") or "").startswith(("Const", "Static", "AssocConst")):
            cur_items[k] = b
    alias = {}
    # ---- moved types: a type of the reference that is gone, and exactly one new type with the same name, kind and
    # variant names in another module (`certificate::CidrSubnet` -> `cidr::CidrSubnet` behind a re-export): every path
    # through the new location is presented under the old one (methods, variants, impls, type spellings)
    ref_types = ref_all.get("types", {}) if "fns" in ref_all else {}
    if ref_types:
        cur_types = {norm_path(a["def"]): a for a in raw.get("adts", [])}
        moved = {}
        for m in [k for k in ref_types if k not in cur_types]:
            cands = [k for k, a in cur_types.items() if k not in ref_types and k.split("::")[-1] == m.split("::")[-1]
                     and [a.get("kind"), [v.get("name") for v in a.get("variants") or []]] == ref_types[m]]
            if len(cands) == 1:
                moved[cands[0]] = m
        if moved:
            txt = json.dumps(raw)
            for newp, oldp in sorted(moved.items(), key=lambda kv: -len(kv[0])):
                txt = re.sub(r'(?<![\w:])' + re.escape(newp) + r'(?![\w])', lambda m_, o=oldp: o, txt)
            raw = json.loads(txt)
            alias.update(moved)
            cur, cur_items = {}, {}
            for b in raw["bodies"]:
                k = norm_path(b["def"])
                if "{closure" in k:
                    continue
                if b.get("dk") in ("Fn", "AssocFn"):
                    cur[k] = b
                elif (b.get("dk") or "").startswith(("Const", "Static", "AssocConst")):
                    cur_items[k] = b
    # ---- functions ----
    missing = [k for k in ref if k not in cur]
    new = [k for k in cur if k not in ref]
    if missing and new:
        sig_new = {k: signature(None, k, cur[k]) for k in new}

        def tysig(s):
            return (tuple(sorted(x or "" for x in s["ptys"])), s["ret"])
        for _round in range(4):
            changed = False
            inv = {v: k for k, v in alias.items()}

            def canon_callees(cs):
                return {inv_new.get(c, c) for c in cs}
            inv_new = dict(alias)      # new name -> old name
            for m in missing:
                if m in alias.values():
                    continue
                cands = [k for k in new if k not in alias and tysig(sig_new[k]) == tysig(ref[m])]
                if not cands:
                    continue
                others_missing = [m2 for m2 in missing if m2 not in alias.values() and m2 != m and tysig(ref[m2]) == tysig(ref[m])]
                scored = []
                for k in cands:
                    a = {inv_new.get(c, c) for c in sig_new[k]["callees"]}
                    b_ = set(ref[m]["callees"])
                    jac = len(a & b_) / float(len(a | b_)) if (a | b_) else 1.0
                    same_leaf = k.split("::")[-1] == m.split("::")[-1]
                    scored.append((jac + (0.25 if same_leaf else 0), jac, k))
                scored.sort(reverse=True)
                top = scored[0]
                unique_sig = len(cands) == 1 and not others_missing
                clear = len(scored) == 1 or top[0] - scored[1][0] >= 0.15
                # a free / inherent function reappearing as an item of a trait impl is a bigger step than a rename or a
                # move: it needs more than half of the callees in common (an impl item that merely forwards to one of
                # the two things the old function did is a different function)
                crossing = top[2].startswith("<") and not m.startswith("<")
                if crossing and top[1] <= 0.5:
                    continue
                if (top[1] >= 0.5 and clear) or (unique_sig and (top[1] >= 0.2 or not ref[m]["callees"])) or (top[0] >= 0.55 and clear):
                    alias[top[2]] = m
                    changed = True
            if not changed:
                break
    # ---- constants / statics ----
    miss_i = [k for k in ref_items if k not in cur_items]
    new_i = [k for k in cur_items if k not in ref_items]
    for m in miss_i:
        cands = [k for k in new_i if k not in alias and item_fingerprint(cur_items[k]) == ref_items[m]]
        if len(cands) == 1:
            alias[cands[0]] = m
    if alias:
        txt = json.dumps(raw)
        for newp, oldp in sorted(alias.items(), key=lambda kv: -len(kv[0])):
            txt = re.sub(r'(?<![\w:])' + re.escape(newp) + r'(?![\w])', lambda m_, o=oldp: o, txt)
        raw = json.loads(txt)
    # ---- struct fields ----
    for a in raw.get("adts", []):
        k = norm_path(a["def"])
        r = ref_adts.get(k)
        if not r or a.get("kind") != "Struct" or not a.get("variants"):
            continue
        fs = a["variants"][0].get("fields") or []
        if len(fs) != len(r) or [f.get("ty") for f in fs] != [x[1] for x in r]:
            continue
        ren = {f["name"]: x[0] for f, x in zip(fs, r) if f.get("name") != x[0]}
        if not ren or len(set(ren.values())) != len(ren):
            continue
        for f in fs:
            f["name"] = ren.get(f["name"], f["name"])
        for b in raw["bodies"]:
            for x in _walk(b.get("hir")):
                kk = x.get("k")
                if kk == "Field" and norm_path(x.get("adt") or "") == k and x.get("name") in ren:
                    x["name"] = ren[x["name"]]
                elif kk == "Struct" and (norm_path(x.get("adt") or "") == k or norm_path(x.get("def") or "") == k) and isinstance(x.get("fields"), list):
                    for f in x["fields"]:
                        if isinstance(f, dict) and f.get("name") in ren:
                            f["name"] = ren[f["name"]]
    # ---- parameter names ----
    renamed = []
    for b in raw["bodies"]:
        k = norm_path(b["def"])
        r = ref.get(k)
        if not r or b.get("dk") not in ("Fn", "AssocFn"):
            continue
        ps = b.get("params") or []
        if len(ps) != len(r["pnames"]):
            continue
        order = list(range(len(ps)))
        if [p.get("ty") for p in ps] != r["ptys"]:
            # the parameters were permuted (free function <-> method): pair them by type when that is unambiguous
            order = []
            used = set()
            for p in ps:
                idx = [i_ for i_, ty in enumerate(r["ptys"]) if ty == p.get("ty") and i_ not in used]
                if len(idx) != 1:
                    order = None
                    break
                used.add(idx[0])
                order.append(idx[0])
            if order is None:
                continue
        ren = {}
        for p, oi in zip(ps, order):
            old = r["pnames"][oi]
            if p.get("k") == "Binding" and old and p.get("name") != old:
                ren[p["hid"]] = (p["name"], old)
                renamed.append((k, old, p["name"]))
                p["name"] = old
        if ren:
            for x in _walk(b.get("hir")):
                if x.get("k") == "Path" and x.get("res") == "local" and x.get("hid") in ren and x.get("name") == ren[x["hid"]][0]:
                    x["name"] = ren[x["hid"]][1]
    return raw, alias, renamed


class Crate:
    """One fact file with indices."""

    def __init__(self, path):
        with open(path) as fh:
            self.raw = json.load(fh)
        self.raw, self.aliases, self.renamed_params = canonicalise(self.raw, os.path.basename(path))
        self.path = path
        self.name = self.raw["crate"]
        self.config = self.raw["config"]
        self.tree_hash = self.raw["tree_hash"]
        self.bodies = {}
        for b in self.raw["bodies"]:
            self.bodies[norm_path(b["def"])] = b
        self.fns = {norm_path(f["def"]): f for f in self.raw["fns"]}
        self.adts = {norm_path(a["def"]): a for a in self.raw["adts"]}
        self.statics = {norm_path(a["def"]): a for a in self.raw["statics"]}
        self.consts = {norm_path(a["def"]): a for a in self.raw["consts"]}
        self.impls = self.raw["impls"]
        self.derived_fns = set()
        for im in self.impls:
            if im.get("derived"):
                for it in im.get("items", []):
                    self.derived_fns.add(norm_path(it))
        self._norm(self.raw["bodies"])

    def _norm(self, n):
        # normalise def paths in place
        stack = [n]
        while stack:
            x = stack.pop()
            if isinstance(x, dict):
                for k in ("callee", "inst", "def", "ctor_of", "adt", "parent_fn"):
                    v = x.get(k)
                    if isinstance(v, str):
                        x[k] = norm_path(v)
                stack.extend(x.values())
            elif isinstance(x, list):
                stack.extend(x)

    def trait_paths(self):
        """def paths of the traits declared in this crate"""
        if not hasattr(self, "_trait_paths"):
            self._trait_paths = {norm_path(t.get("def")) for t in self.raw.get("traits", [])}
        return self._trait_paths

    def body(self, name):
        b = self.bodies.get(name)
        if b is None:
            raise FactError("anchor function `%s` not found in %s (%s)" % (name, self.name, self.config))
        return b

    def has(self, name):
        return name in self.bodies


def load(cfg_dirs, cfg, crate="rcgen.lib.json", expect_hash=None):
    p = os.path.join(cfg_dirs[cfg], crate)
    c = Crate(p)
    if expect_hash and c.tree_hash != expect_hash:
        raise FactError("fact file %s carries hash %s, expected %s" % (p, c.tree_hash, expect_hash))
    return c


if __name__ == "__main__":
    cfgs = sys.argv[1:] or QUICK
    t0 = time.time()
    th, dirs, tm = ensure_facts(cfgs)
    print("tree", th, {k: round(v, 1) for k, v in tm.items()}, "total %.1fs" % (time.time() - t0))
    for c, d in dirs.items():
        print(c, d, os.listdir(d))
