"""C09 - every time value is encoded as the same instant in the form RFC 5280 requires."""
import formula as F
from formula import Not
import schema as S
import common
from common import CERT_FN, CRL_FN
from interp import core, places, calls_of, roots, Interp, CallV, Via, StructV

PROP = "C09"
CONFIGS_QUICK = ["K1", "K3"]
CONFIGS_THOROUGH = ["K1", "K2", "K3", "K0"]
EXPLANATION = (
    "Static: (single) the yasna time constructors and time writers are called only inside the shared time helpers, and all six "
    "time-carrying parameter places reach a time leaf of the certificate / CRL trees only through them; (utc) the value whose year "
    "decides between UTCTime and GeneralizedTime is normalised to UTC (its origin chain contains to_offset(UtcOffset::UTC)) and is the "
    "value that is encoded; (range) the decision is exactly 1950 <= year < 2050 -> UTCTime, otherwise GeneralizedTime, with evaluated "
    "constants and checked polarity; (nanos) both constructors receive a value that went through the sub-second truncation, which "
    "rebuilds the time of day from hour/minute/second of the same value. Not decided: that the decoded instant equals the input "
    "(arithmetic inside `time` and yasna's digit formatting are trusted).")
ASSUMPTIONS = ["yasna's UTCTime/GeneralizedTime::from_datetime convert to UTC and emit YYMMDDHHMMSSZ / YYYYMMDDHHMMSSZ with no fraction for zero nanoseconds",
               "time::OffsetDateTime::{to_offset, year, replace_time} arithmetic"]

HELPER = "write_dt_utc_or_generalized"
TIME_FIELDS = {"self.not_before", "self.not_after", "self.this_update", "self.next_update", "self.revoked_certs[].revocation_time", "self.revoked_certs[].invalidity_date?"}


def run(ctx):
    rep = ctx.rep
    for cfg in (CONFIGS_QUICK if ctx.tier == "quick" else CONFIGS_THOROUGH):
        crate = ctx.crate(cfg)
        single(cfg, crate, rep)
        helper(cfg, crate, rep)


def single(cfg, crate, rep):
    ctor = ("yasna::models::UTCTime::from_datetime", "yasna::models::GeneralizedTime::from_datetime", "yasna::models::UTCTime::from_datetime_opt", "yasna::models::GeneralizedTime::from_datetime_opt",
            "yasna::models::GeneralizedTime::from_datetime_and_sub_nano", "yasna::models::GeneralizedTime::from_datetime_and_sub_nano_opt", "yasna::models::UTCTime::parse", "yasna::models::GeneralizedTime::parse")
    writers = ("yasna::DERWriter::write_utctime", "yasna::DERWriter::write_generalized_time")
    # helpers of the shared time writer: everything the writer (transitively) calls inside the crate
    import c10
    G_ = c10.call_graph(crate)[0]
    reach = {HELPER, "dt_to_generalized"}
    stack = [HELPER, "dt_to_generalized"]
    while stack:
        f_ = stack.pop()
        b_ = crate.bodies.get(f_)
        if not b_ or "hir" not in b_:
            continue
        for callee, node, ps in common.calls_in(b_):
            if callee in crate.bodies and callee not in reach:
                reach.add(callee)
                stack.append(callee)
        for callee in G_.get(f_, ()):          # resolved edges: a local trait's method goes to its local impls
            if callee in crate.bodies and callee not in reach and not common.is_test_fn(callee):
                reach.add(callee)
                stack.append(callee)
    allowed_ctor = reach
    allowed_writer = {HELPER, "crl::RevokedCertParams::write_der"}
    n = 0
    for name, b in common.all_bodies(crate):
        if common.is_test_fn(name):
            continue
        for callee, node, ps in common.calls_in(b):
            owner = name
            if callee in ctor or callee in writers:
                # a helper introduced by a later change acts on behalf of the (single) known function that reaches it
                owners_ = common.known_owners(crate, name)
                if len(owners_) == 1:
                    owner = sorted(owners_)[0]
                elif callee in writers and len(owners_) > 1 and owners_ <= allowed_writer:
                    owner = sorted(owners_)[0]      # shared by several known functions, each of which may write times
            if callee in ctor:
                n += 1
                rep.ob("C09.single", "%s|ctor|%s|%s" % (cfg, owner, callee.split("::")[-2] + "::" + callee.split("::")[-1]), owner in allowed_ctor and callee.endswith("::from_datetime"),
                       "yasna time values are constructed only in the shared helpers, with the plain from_datetime constructor", found=owner, sp=node.get("sp"))
            if callee in writers:
                n += 1
                rep.ob("C09.single", "%s|writer|%s|%s" % (cfg, owner, callee.split("::")[-1]), owner in allowed_writer, "time values are written only by the shared helper (and the GeneralizedTime-only invalidityDate site)", found=owner, sp=node.get("sp"))
    rep.floor("C09.single", "time constructor/writer call sites (%s)" % cfg, n, 4)
    # all six time fields reach a time leaf, and only through the helpers
    seen = set()
    for fn in (CERT_FN, CRL_FN):
        art = common.artefact(crate, fn)
        rep.fn(fn)
        for node, p, c, r in S.walk(art.tbs):
            if node["t"] == "Prim" and node["kind"] in ("UTCTime", "GeneralizedTime"):
                pl = places(node["args"][0])
                seen |= pl
                via = calls_of(node["args"][0])
                ok = (any(v.endswith("from_datetime") for v in via) and "dt_strip_nanos" in via) or "dt_to_generalized" in via
                wfn_ = node["fn"]
                if wfn_ not in allowed_writer and len(common.known_owners(crate, wfn_)) == 1:
                    wfn_ = sorted(common.known_owners(crate, wfn_))[0]
                rep.ob("C09.single", "%s|%s|%s|%s" % (cfg, fn, "+".join(sorted(pl)), node["kind"]), ok and wfn_ in allowed_writer,
                       "time leaf is produced by the shared helper chain", found=sorted(via), sp=node.get("sp"))
    # ... and in no other way: a pre-encoded (raw) element must not be computed from a time field (a cached / replayed
    # encoding escapes the form decision made for the field it is written for)
    for fn in (CERT_FN, CRL_FN):
        art = common.artefact(crate, fn)
        for node, p, c, r in S.walk(art.tbs):
            if node["t"] == "Raw" and "inner" not in node:
                tf = sorted(x for x in places(node["v"]) if any(x == t_ or x.startswith(t_ + "?") for t_ in TIME_FIELDS))
                if tf:
                    rep.fail("C09.single", "%s|%s|raw-from-time-field|%s" % (cfg, fn, "+".join(tf)), "a time field reaches the output as pre-encoded bytes instead of through a UTCTime / GeneralizedTime leaf", found=core(node["v"]).r()[:160], sp=node.get("sp"))
    rep.ob("C09.single", "%s|fields" % cfg, seen == TIME_FIELDS, "every time-carrying field is encoded through the shared time helpers", expected=sorted(TIME_FIELDS), found=sorted(seen))
    rep.floor("C09.single", "time fields (%s)" % cfg, len(seen), 6)


def helper(cfg, crate, rep):
    rep.fn(HELPER, "dt_to_generalized", "dt_strip_nanos")
    I = Interp(crate)
    out = I.run_fn(HELPER)
    items = S.norm(out["items"])
    slots = S.flatten(items)
    key = "%s|%s" % (cfg, HELPER)
    utc = [s for s in slots if s[2]["t"] == "Prim" and s[2]["kind"] == "UTCTime"]
    gen = [s for s in slots if s[2]["t"] == "Prim" and s[2]["kind"] == "GeneralizedTime"]
    if len(utc) != 1 or len(gen) != 1 or len(slots) != 2:
        rep.fail("C09.range", key + "|shape", "expected exactly one UTCTime and one GeneralizedTime alternative", found=[s[2].get("kind") for s in slots])
        return
    cu_raw = utc[0][0]
    cu, cg = common.concretise(I, utc[0][0]), common.concretise(I, gen[0][0])
    # the decision must be a function of one integer quantity: the year of the (UTC-normalised) value
    vars_ = set()
    for a in F.atoms(cu):
        if a[0] == "inrange":
            vars_.add(a[1])
        elif a[0] == "cmp":
            vars_ |= {x for x in (a[2], a[3]) if not str(x).lstrip("-").replace("_", "").isdigit()}
        else:
            vars_.add("?" + F.show_atom(a))
    ok_atom = len(vars_) == 1 and not next(iter(vars_)).startswith("?")
    rep.ob("C09.range", key + "|decision-atom", ok_atom, "the form is decided by range tests on one quantity (the year)", found=F.show(cu))
    if not ok_atom:
        return
    var = next(iter(vars_))
    bad = [y for y in list(range(1890, 2120)) + [-1, 0, 1, 9999, 10000] if F.int_semantics(cu, var, y) != (1950 <= y < 2050)]
    rep.ob("C09.range", key + "|bounds", not bad, "UTCTime exactly when 1950 <= year <= 2049 (RFC 5280 4.1.2.5): the decision was evaluated for every year in 1890..2120 and at the extremes", expected="1950..=2049 -> UTCTime", found="differs at years %s" % bad[:6] if bad else "agrees", sp=utc[0][2].get("sp"))
    rep.ob("C09.range", key + "|complement", not F.counterexamples(cg, Not(cu), "equiv"), "GeneralizedTime exactly otherwise (the two forms partition all inputs)", found=F.show(cg))
    yv = None
    for a in F.atoms(cu_raw):
        vals = I.atom_vals.get(a, ())
        for x in vals:
            if x is not None and core(x).r() == var:
                yv = x
    yc = core(yv) if yv is not None else None
    # the quantity may be a `let year = dt.year()` local: follow to the call
    ok_year = isinstance(yc, CallV) and yc.callee.endswith("OffsetDateTime::year")
    rep.ob("C09.utc", key + "|year-of", ok_year and places(yc) == {"dt"}, "the tested quantity is the year of the caller's value", found=yc.r() if yc is not None else var)
    if ok_year:
        subject = yc.args[0]
        via = calls_of(subject)
        rts = roots(subject)
        # every alternative of the tested value is normalised -- except alternatives taken only when the offset *is* UTC
        # (`offset() == UtcOffset::UTC`, `offset().is_utc()`, `whole_seconds() == 0`; whole hours / minutes are not that)
        from interp import flatten_phi
        import re as _re3
        def _is_utc_atom(a):
            t_ = F.show_atom(a)
            if "offset" not in t_.lower():
                return False
            return (a[0] == "eq" and ("UtcOffset::UTC" in t_ or (_re3.search(r"whole_seconds\(", t_) and str(a[2]) == "0"))) or (a[0] in ("true", "opaque") and "is_utc" in t_)
        def _alt_ok(c_, x_):
            if any(v.endswith("OffsetDateTime::to_offset") for v in calls_of(x_)) and any(r.endswith("UtcOffset::UTC") for r in roots(x_)):
                return True
            if c_ is True or c_ is False:
                return c_ is False
            ats_ = F.atoms(c_)
            us_ = [a for a in ats_ if _is_utc_atom(a)]
            try:
                return any(all(asg[u] for asg in F.assignments(list(ats_)) if F.evalf(c_, asg)) for u in us_)
            except ValueError:
                return False
        normal = all(_alt_ok(c_, x_) for c_, x_ in flatten_phi(subject))
        rep.ob("C09.utc", key + "|decision-on-utc-value", normal,
               "the year that selects UTCTime/GeneralizedTime must be the UTC year: the value is not normalised with to_offset(UtcOffset::UTC) before `.year()`, so the form (and for years 2049/2050 or 1949/1950 a panic in yasna) depends on the offset the caller used",
               expected="dt.to_offset(UtcOffset::UTC).year()", found=core(subject).r(), sp=utc[0][2].get("sp"))
    # nanos: both constructors get a stripped value of dt
    for nm, s in (("UTCTime", utc[0]), ("GeneralizedTime", gen[0])):
        v = s[2]["args"][0]
        via = calls_of(v)
        rep.ob("C09.nanos", key + "|" + nm, "dt_strip_nanos" in via or ("dt_to_generalized" in via), "the encoded value went through the sub-second truncation", found=sorted(via), sp=s[2].get("sp"))
        rep.ob("C09.nanos", key + "|" + nm + "|same-value", places(v) == {"dt"}, "the encoded value is the caller's value", found=sorted(places(v)))
    # dt_to_generalized = from_datetime(dt_strip_nanos(dt))
    if "dt_to_generalized" not in crate.bodies:
        # the GeneralizedTime-only helper was folded into something else: every site then shows its own truncation
        # (the obligations above / the invalidityDate site accept `dt_to_generalized` only as a function that exists)
        rep.sample({"rule": "C09.nanos", "cfg": cfg, "note": "no dt_to_generalized in this tree"})
    v = core(Interp(crate).run_fn("dt_to_generalized")["value"]) if "dt_to_generalized" in crate.bodies else None
    ok = v is None or isinstance(v, CallV) and v.callee.endswith("GeneralizedTime::from_datetime") and isinstance(core(v.args[0]), CallV) and core(v.args[0]).callee == "dt_strip_nanos" and places(v) == {"dt"}
    rep.ob("C09.nanos", "%s|dt_to_generalized" % cfg, ok, "dt_to_generalized = GeneralizedTime::from_datetime(dt_strip_nanos(dt))", found=v.r() if v is not None else "absent")
    # dt_strip_nanos = dt.replace_time(Time::from_hms(dt.hour(), dt.minute(), dt.second()))
    v = core(Interp(crate).run_fn("dt_strip_nanos")["value"])
    ok = isinstance(v, CallV) and v.callee.endswith("OffsetDateTime::replace_time") and core(v.args[0]).r() == "dt"
    parts = []
    if ok:
        t = v.args[1]
        cs = calls_of(t)
        ok = any(c.endswith("Time::from_hms") for c in cs) and places(t) == {"dt"}
        parts = sorted(c.split("::")[-1] for c in cs)
        fh = None
        def findc(x):
            x = core(x)
            if isinstance(x, CallV):
                if x.callee.endswith("Time::from_hms"):
                    return x
                for a in x.args:
                    r = findc(a)
                    if r is not None:
                        return r
            return None
        fh = findc(t)
        # hour / minute / second of the same value, in that order, in any of the `time` crate's equivalent spellings
        HMS = {}
        for i_, nm_ in enumerate(("hour", "minute", "second")):
            HMS["time::OffsetDateTime::%s(dt)" % nm_] = nm_
            HMS["time::Time::%s(time::OffsetDateTime::time(dt))" % nm_] = nm_
            HMS["time::Time::as_hms(time::OffsetDateTime::time(dt)).%d" % i_] = nm_
            HMS["time::OffsetDateTime::to_hms(dt).%d" % i_] = nm_
        order = [HMS.get(core(a).r(), core(a).r()) for a in fh.args] if fh is not None else None
        ok = ok and order == ["hour", "minute", "second"]
        ok = ok and not any(x in parts for x in ("nanosecond", "millisecond", "microsecond", "from_hms_nano", "from_hms_milli", "from_hms_micro", "as_hms_nano", "as_hms_milli", "as_hms_micro"))
    rep.ob("C09.nanos", "%s|dt_strip_nanos" % cfg, ok, "truncation keeps date, offset, hour, minute, second of the same value and drops the sub-second part", found=v.r()[:200])
    rep.sample({"rule": "C09", "cfg": cfg, "utc_when": F.show(cu), "generalized_when": F.show(cg), "utc_value": core(utc[0][2]["args"][0]).r(), "gen_value": core(gen[0][2]["args"][0]).r()})
