"""C13 - ASN.1 string types admit exactly their alphabet and encode losslessly."""
import formula as F
import schema as S
import common
from common import CERT_FN
from interp import core, places, calls_of, roots, Interp, CallV, PhiV, StructV, Via, MutV, Const
import c10
import bytepred

PROP = "C13"
CONFIGS_QUICK = ["K1"]
CONFIGS_THOROUGH = ["K1", "K2", "K3"]
EXPLANATION = (
    "Static finite-domain extraction: the set accepted by each admission predicate is extracted from the type-checked predicate itself "
    "(PrintableString: union of the literal/range patterns of the accepting match arm over every byte; Ia5String: the single rejection "
    "is `!str::is_ascii` (std model 0x00..=0x7F); TeletexString: `all` over every byte of a RangeInclusive::contains with evaluated "
    "bounds; BmpString: every decode_utf16 item must be Ok(c) with `c < K`, K evaluated; UniversalString: every u32 must satisfy "
    "char::from_u32(..).is_some()) and compared for *equality* with the alphabet in the property statement; byte-level constructors "
    "reject lengths not divisible by 2 / 4; the text constructors push encode_utf16 units / `char as u32` through to_be_bytes and then "
    "call the validating byte-level constructor; each wrapper's inner field is private and its tuple constructor is used only inside "
    "its validating constructor; the alphabet admitted by each wrapper is contained in what the DER writer used for it tolerates "
    "(write_bytes under a universal tag tolerates everything; write_ia5_string requires ASCII). Anything not extractable fails closed. "
    "Not decided: per-value behaviour of multi-character strings beyond `the predicate is applied to every element of the iteration`.")
ASSUMPTIONS = ["std: str::is_ascii, char::decode_utf16, char::from_u32, str::encode_utf16, u16/u32::to_be_bytes behave as documented", "yasna write_bytes / write_ia5_string"]

PRINTABLE = set(b"ABCDEFGHIJKLMNOPQRSTUVWXYZabcdefghijklmnopqrstuvwxyz0123456789 '()+,-./:=?")
T = "<string::%s as std::convert::TryFrom<std::string::String>>::try_from"
TS = "<string::%s as std::convert::TryFrom<&str>>::try_from"


def run(ctx):
    rep = ctx.rep
    for cfg in (CONFIGS_QUICK if ctx.tier == "quick" else CONFIGS_THOROUGH):
        crate = ctx.crate(cfg)
        alpha(cfg, crate, rep)
        enc(cfg, crate, rep)
        ctor(cfg, crate, rep)
        sink(cfg, crate, rep)


def fails_of(crate, fn):
    I = Interp(crate)
    out = I.run_fn(fn)
    return I, out, [(c, v, n) for c, v, n, f in I.fails if f == fn]


def alpha(cfg, crate, rep):
    # PrintableString / Ia5String / TeletexString: the admitted byte set is computed from the rejection formula
    for ty, want, text in (("PrintableString", PRINTABLE, "PrintableString admits exactly A-Z a-z 0-9 space ' ( ) + , - . / : = ?"),
                           ("Ia5String", set(range(0x00, 0x80)), "Ia5String rejects exactly the inputs that are not ASCII (U+0000..U+007F)"),
                           ("TeletexString", set(range(0x20, 0x80)), "TeletexString admits exactly the texts all of whose bytes are in 0x20..=0x7F")):
        fn = T % ty
        rep.fn(fn)
        acc, why, I = bytepred.byte_acceptance(crate, fn)
        rep.ob("C13.alpha", "%s|%s" % (cfg, ty), acc == want, text + " (every byte of the input is tested; any other byte returns Err)", expected="%d byte values" % len(want),
               found=why if acc is None else ("accepts %d byte values via %s; missing %s extra %s" % (len(acc), why, sorted(chr(x) for x in want - acc)[:8], sorted(chr(x) for x in acc - want)[:8])))
        if acc is not None:
            rep.sample({"rule": "C13.alpha", "type": ty, "admitted_bytes": len(acc), "via": why})
    # BmpString / UniversalString: per-unit predicates over the decoded units, and the length tests, from the
    # normalised rejection terms (any spelling: loop with early return, all(..), any(..), matches!, match with guard)
    for fn, k, unit in (("string::BmpString::from_utf16be", 2, "u16"), ("string::UniversalString::from_utf32be", 4, "u32")):
        rep.fn(fn)
        terms, why, I, out = bytepred.rejection_terms(crate, fn)
        ty = "BmpString" if k == 2 else "UniversalString"
        if terms is None:
            rep.fail("C13.alpha", "%s|%s" % (cfg, ty), "rejection formula not extractable: %s" % why)
            rep.fail("C13.len", "%s|%s" % (cfg, fn), "rejection formula not extractable: %s" % why)
            continue
        foralls = [x for x in terms if x[0] == "forall"]
        plains = [x[1] for x in terms if x[0] == "plain"]
        # length: exactly one plain term, `len(vec) % k != 0`
        ok_len = False
        if len(plains) == 1:
            # the whole-input test as a function of r = len % k: rejected exactly for r != 0 (`% 2 != 0`, `% 2 == 1`,
            # `!(len % 4 == 0)`, a chain over 1, 2, 3 ...)
            ats = F.atoms(plains[0])
            rem = {}
            for a in ats:
                if a[0] == "eq" and ("len(vec) %% %d" % k) in (str(a[1]) + str(a[2])):
                    c_ = a[2] if ("len(vec) %% %d" % k) in str(a[1]) else a[1]
                    if str(c_).isdigit():
                        rem[a] = int(str(c_))
            if ats and len(rem) == len(ats):
                ok_len = all(F.evalf(plains[0], {a: (r_ == c_) for a, c_ in rem.items()}) == (r_ != 0) for r_ in range(k))
        rep.ob("C13.len", "%s|%s" % (cfg, fn), ok_len, "byte length not divisible by %d is rejected (and that is the only whole-input test)" % k, found=[F.show(x)[:160] for x in plains])
        ok = False
        found = None
        if len(foralls) == 1:
            _, src, body, elem = foralls[0]
            cs = calls_of(src)
            el = core(elem).r()
            found = "every unit of %s: %s" % (sorted(c.split("::")[-1] for c in cs), F.show(body).replace(el, "unit")[:200])
            src_ok = places(src) == {"vec"} and any(c.endswith("chunks_exact") for c in cs) \
                and any(isinstance(core(a_[1]), Const) and core(a_[1]).v == k for c_, a_, n_, cd, f_ in I.calls if c_.endswith("chunks_exact") and len(a_) > 1) \
                and big_endian_unit(I, src, elem, k)
            ats = F.atoms(body)
            if k == 2:
                src_ok = src_ok and any(c.endswith("decode_utf16") for c in cs)
                # acceptance of a unit  <=>  it decoded (Ok) and the scalar is <= 0xFFFE
                def cls(a):
                    if a[0] == "variant" and a[1] == el and a[2] in ("Ok", "Err"):
                        return ("ok", a[2] == "Ok")
                    ub = common.upper_bound(I, a)
                    if ub and ub[0] == el + "#Ok.0" and ub[1] == 0xFFFE:
                        return ("bmp", True)
                    return None
                kinds = {a: cls(a) for a in ats}
                if all(v is not None for v in kinds.values()) and {v[0] for v in kinds.values()} == {"ok", "bmp"}:
                    ok = src_ok
                    for okv in (False, True):
                        for bmp in (False, True):
                            asg = {a: ((okv if kd[0] == "ok" else bmp) == kd[1]) for a, kd in kinds.items()}
                            if F.evalf(body, asg) != (okv and bmp):
                                ok = False
                else:
                    found += " (unrecognised tests: %s)" % [F.show_atom(a)[-60:] for a, v in kinds.items() if v is None]
            else:
                # acceptance of a unit  <=>  char::from_u32(unit) is Some
                src_ok = src_ok  # the unit is the mapped element (u32::from_be_bytes of a 4-byte chunk)
                # "the unit is a Unicode scalar value": char::from_u32(unit) is Some  ==  char::try_from(unit) is Ok, where the
                # unit is the chunk read big-endian (mapped before the test, or computed inside the predicate)
                conv = [(c_, a_) for c_, a_, n_, cd, f_ in I.calls if (c_.endswith("char>::from_u32") or c_ == "std::char::from_u32" or "TryFrom<u32> for char>::try_from" in c_ or "char as std::convert::TryFrom<u32>" in c_) and a_]
                if len(conv) == 1 and len(ats) == 1 and not src_ok:
                    U = conv[0][1][0]
                    ur = core(U).r()
                    inner_ok = places(src) == {"vec"} and any(c.endswith("chunks_exact") for c in cs) \
                        and any(isinstance(core(a_[1]), Const) and core(a_[1]).v == k for c_, a_, n_, cd, f_ in I.calls if c_.endswith("chunks_exact") and len(a_) > 1) \
                        and big_endian_unit(I, U, U, k, direct=True)
                    if inner_ok and ((ats[0][0] == "variant" and ats[0][1] == ur) or (ats[0][0] == "some" and ats[0][1].endswith("from_u32(%s)" % ur))):
                        src_ok = True
                        el = ur
                        elem = U
                scalar_ok = len(ats) == 1 and (
                    (ats[0][0] == "some" and ats[0][1] in ("std::char::from_u32(%s)" % el, "std::char::methods::<impl char>::from_u32(%s)" % el)) or
                    (ats[0][0] == "variant" and ats[0][2] in ("Ok", "Err") and ats[0][1] == el and (any(c.endswith("TryFrom<u32> for char>::try_from") or "char as std::convert::TryFrom<u32>" in c for c in calls_of(elem)) or bool(conv))))
                if scalar_ok:
                    pos = ats[0][0] == "some" or ats[0][2] == "Ok"
                    ok = src_ok and F.evalf(body, {ats[0]: pos}) and not F.evalf(body, {ats[0]: not pos})
        text = ("BmpString admits exactly the UTF-16BE encodings of U+0000..=U+FFFE (every decode_utf16 item must be Ok(c) with c < 0xFFFF; lone/paired surrogates rejected)" if k == 2 else
                "UniversalString admits exactly the UTF-32BE encodings of Unicode scalar values (char::from_u32 is Some for every unit)")
        rep.ob("C13.alpha", "%s|%s" % (cfg, ty), ok, text, found=found or [str(x)[:120] for x in terms])
        v = core(out["value"])
        if isinstance(v, PhiV):
            oks = [core(x) for c_, x in v.alts if isinstance(core(x), StructV) and core(x).variant == "Ok"]
            v = oks[0] if len(oks) == 1 else v
        stores = isinstance(v, StructV) and v.variant == "Ok" and places(v) == {"vec"} and not [r for r in roots(v) if r.startswith("op:")]
        rep.ob("C13.enc", "%s|%s|stores-input" % (cfg, fn), stores, "the accepted bytes are stored unchanged", found=v.r()[:120])


def big_endian_unit(I, src, elem, k, direct=False):
    """The unit tested for each k-byte chunk is the chunk read big-endian - `uN::from_be_bytes([c[0], ..])`, a shift-or
    composition, ...: decided by substituting two byte patterns for the chunk and evaluating the unit expression."""
    from interp import IndexV, OpV, ArrayV, TupleV, Sel, IterMapV

    def subst(v, bytes_):
        if isinstance(v, IndexV):
            i = I.concrete(v.idx)
            if isinstance(i, int) and 0 <= i < len(bytes_) and core(v.base).r().endswith("[]"):
                return Const(bytes_[i])
            return IndexV(subst(v.base, bytes_), subst(v.idx, bytes_))
        if isinstance(v, MutV) and isinstance(v.base, OpV) and v.base.op == "repeat" and len(v.ops) == 1 and v.ops[0][0] == "call" \
                and v.ops[0][1] in ("copy_from_slice", "clone_from_slice") and len(v.ops[0]) > 2 and core(v.ops[0][2]).r().endswith("[]"):
            # `let mut a = [0; k]; a.copy_from_slice(chunk)`: the array holds the chunk's bytes
            return ArrayV([Const(b_) for b_ in bytes_])
        if isinstance(v, Via):
            return Via(v.name, subst(v.inner, bytes_), v.callee)
        if isinstance(v, CallV):
            return CallV(v.callee, [subst(a, bytes_) for a in v.args], v.node, getattr(v, "inst", None))
        if isinstance(v, OpV):
            return OpV(v.op, [subst(a, bytes_) for a in v.args])
        if isinstance(v, ArrayV):
            return ArrayV([subst(a, bytes_) for a in v.items])
        if isinstance(v, Sel):
            return Sel(subst(v.base, bytes_), v.sel)
        return v
    # the unit expression: walk from the tested element back to the value mapped over the chunks
    cand = []

    def find(v):
        v0 = core(v)
        if isinstance(v0, IterMapV):
            cand.append(v0.result)
            find(v0.src)
        elif isinstance(v0, CallV):
            for a in v0.args:
                find(a)
        elif isinstance(v0, Sel):
            find(v0.base)
    find(src)
    find(elem)
    if direct:
        cand.append(src)
    for u in cand:
        good = True
        for pat in ([0x12, 0x34, 0x56, 0x78][:k], [0xFE, 0x01, 0x80, 0x7F][:k]):
            val = I.concrete(subst(u, pat))
            if val != int.from_bytes(bytes(pat), "big"):
                good = False
        if good:
            return True
    return False


def interp_param(name):
    from interp import Param
    return Param(name)


def calls_txt(body):
    return " ".join(c for c, n, ps in common.calls_in(body))


def enc(cfg, crate, rep):
    for ty, unit_src, width, ctor in (("BmpString", "encode_utf16", "u16", "string::BmpString::from_utf16be"), ("UniversalString", "chars", "u32", "string::UniversalString::from_utf32be")):
        fn = TS % ty
        rep.fn(fn)
        I = Interp(crate)
        out = I.run_fn(fn)
        v = core(out["value"])
        ok_ret = isinstance(v, CallV) and v.callee == ctor
        # the buffer handed to the validating byte-level constructor: built from the text's units, each written
        # big-endian - by pushing / extending in a loop, for_each, flat_map + collect ... (provenance of the argument)
        ok_ext = False
        detail = None
        if ok_ret:
            arg = v.args[0]
            cs = calls_of(arg)
            rs = roots(arg)
            detail = core(arg).r()[:200]
            ok_ext = any(c.endswith("%s>::to_be_bytes" % width) for c in cs) and any(c.endswith(unit_src) for c in cs) and places(arg) <= {"value"} and "value" in places(arg) \
                and not any(c.endswith(("to_le_bytes", "to_ne_bytes", "swap_bytes", "reverse_bits")) for c in cs) \
                and not [r_ for r_ in rs if r_.startswith("op:") and r_ not in ("op:mutated", "op:index")]
            if ty == "UniversalString":
                # every char becomes its scalar value: the u32 whose bytes are written comes from `chars()` through
                # conversions only (`c as u32`, `u32::from(c)`, `.into()`), not through a char method computing something else
                ok_ext = ok_ext and not any(c.split("::")[-1] in ("to_digit", "len_utf8", "len_utf16", "to_ascii_uppercase", "to_ascii_lowercase", "encode_utf8", "encode_utf16", "is_ascii", "eq_ignore_ascii_case") for c in cs)
        rep.ob("C13.enc", "%s|%s" % (cfg, fn), ok_ret and ok_ext, "text is converted unit by unit (%s -> %s::to_be_bytes) and then validated by the byte-level constructor" % (unit_src, width), found=detail)
        if ok_ret:
            rep.ob("C13.enc", "%s|%s|validates-built-bytes" % (cfg, fn), ok_ext, "the validated buffer is the one that was filled", found=detail)
    for ty in ("PrintableString", "Ia5String", "TeletexString"):
        fn = T % ty
        I = Interp(crate)
        v = core(I.run_fn(fn)["value"])
        alts = v.alts if isinstance(v, PhiV) else [(True, v)]
        oks = [x for c, x in alts if isinstance(core(x), StructV) and core(x).variant == "Ok"]
        ok = len(oks) == 1 and places(oks[0]) <= {"value", "input"} and not [r for r in roots(oks[0]) if r.startswith(("op:", "call:"))]
        rep.ob("C13.enc", "%s|%s|stores-text" % (cfg, fn), ok, "the accepted text is stored as is", found=[core(x).r()[:80] for x in oks])
        fn2 = TS % ty
        v2 = Interp(crate).run_fn(fn2)["value"]
        rep.ob("C13.enc", "%s|%s|delegates" % (cfg, fn2), fn in calls_of(v2) or ((".try_into" in v2.r() or ".try_from" in v2.r()) and places(v2) == {"input"}), "the &str constructor delegates (String -> Self conversion, whose only implementation is the validating constructor)", found=v2.r()[:120])


def ctor(cfg, crate, rep):
    allowed = {
        "string::PrintableString": {T % "PrintableString"}, "string::Ia5String": {T % "Ia5String"}, "string::TeletexString": {T % "TeletexString"},
        "string::BmpString": {"string::BmpString::from_utf16be"}, "string::UniversalString": {"string::UniversalString::from_utf32be"},
    }
    uses = {k: set() for k in allowed}
    for name, b in common.all_bodies(crate):
        if common.is_test_fn(name) or name in crate.derived_fns:
            continue
        for n in common.hir_walk(b["hir"]):
            if n["k"] == "Call" and "Ctor" in n.get("dk", "") or (n["k"] == "Call" and n.get("dk") == "SelfCtor"):
                d = n.get("ctor_of") or n.get("callee")
                if d in uses:
                    uses[d].add(name)
            if n["k"] == "Struct" and n.get("adt") in uses:
                uses[n["adt"]].add(name)
    # a widening conversion `impl From<Narrow> for Wide` is a validated construction too: the text was validated against
    # an alphabet contained in the target's, and is handed over unchanged (PrintableString < IA5String, TeletexString)
    WIDENS = {("string::PrintableString", "string::Ia5String"), ("string::PrintableString", "string::TeletexString")}
    import re as _re
    for k, fns in uses.items():
        for f_ in sorted(fns - allowed[k]):
            m_ = _re.match(r"^<(string::\w+) as std::convert::From<(string::\w+)>>::from$", f_)
            if not m_ or m_.group(1) != k or (m_.group(2), k) not in WIDENS:
                continue
            v_ = core(Interp(crate).run_fn(f_)["value"])
            ps_ = [p_.get("name") for p_ in crate.bodies[f_].get("params", []) if p_.get("k") == "Binding"]
            if isinstance(v_, StructV) and len(v_.fields) == 1 and len(ps_) == 1 and core(list(v_.fields.values())[0]).r() == ps_[0] + ".0" \
                    and not [r for r in roots(list(v_.fields.values())[0]) if r.startswith(("op:", "call:"))]:
                fns = fns - {f_}
        uses[k] = fns
    for k, fns in uses.items():
        rep.ob("C13.ctor", "%s|%s|constructed-only-when-validated" % (cfg, k), fns == allowed[k], "the wrapper is constructed only inside its validating constructor", expected=sorted(allowed[k]), found=sorted(fns))
        adt = crate.adts.get(k)
        priv = adt is not None and all(f["vis"] != "pub" for f in adt["variants"][0]["fields"])
        rep.ob("C13.ctor", "%s|%s|private-field" % (cfg, k), priv, "the inner field is private (no unvalidated construction from outside the crate)")
    # mutation of the inner value
    for k in allowed:
        for im in crate.impls:
            if im.get("self_adt") == k and im.get("trait") in ("std::ops::DerefMut", "std::convert::AsMut", "std::borrow::BorrowMut"):
                rep.fail("C13.ctor", "%s|%s|%s" % (cfg, k, im["trait"]), "mutable access to the validated value is handed out")


def sink(cfg, crate, rep):
    """Admitted alphabet is contained in what the writer used for that variant tolerates."""
    art = common.artefact(crate, CERT_FN)
    want = {
        "BmpString": ("OCTET STRING", "TAG_BMPSTRING", "BmpString::as_bytes"),
        "TeletexString": ("OCTET STRING", "TAG_TELETEXSTRING", "TeletexString::as_bytes"),
        "UniversalString": ("OCTET STRING", "TAG_UNIVERSALSTRING", "UniversalString::as_bytes"),
        "Ia5String": ("IA5String", None, "Ia5String::as_str"),
        "Utf8String": ("UTF8String", None, None),
    }
    # the attribute value written for every DnValue variant: the leaves inside the issuer's RDN SET, specialised per
    # variant (one arm per variant, or one tagged write whose tag and bytes were selected by a match - same thing)
    from interp import specialise
    leaves = []
    place = None
    for n, p, c, r in S.walk(art.tbs):
        if n["t"] != "Prim" or n["kind"] == "OID" or not any(lab == "Set" for lab, _ in p):
            continue
        ats = [a for a in F.atoms(c) if a[0] == "variant" and a[1].endswith("[].1") and "issuer" in a[1]]
        if not ats:
            continue
        place = ats[0][1]
        leaves.append((n, p, c))
    seen = {}
    adt = crate.adts.get("DnValue") or {}
    variants = [x["name"] for x in adt.get("variants", [])]
    for v in variants:
        asg = {("variant", place, x): (x == v) for x in variants}
        hit = [(n, p) for n, p, c in leaves if S.pe_formula(c, asg) is True]
        if len(hit) != 1:
            continue
        n, p = hit[0]
        tag = None
        for lab, node in p:
            if lab == "Tagged":
                tv = specialise(node["tag"], asg)
                tag = S.tag_str(art.I, tv).replace("[UNIVERSAL ", "").replace("]", "")
        arg = specialise(n["args"][0], asg)
        seen[v] = (n["kind"], tag, sorted(calls_of(arg)), n)
    for v, (kind, tag, acc) in want.items():
        got = seen.get(v)
        ok = got is not None and got[0] == kind and got[1] == tag and (acc is None or any(x.endswith(acc) for x in got[2]))
        rep.ob("C13.sink", "%s|DnValue::%s" % (cfg, v), ok, "DnValue::%s is written as %s%s from the wrapper's own accessor; the sink tolerates the wrapper's whole alphabet" % (v, kind, " under " + tag if tag else ""), found=got[:3] if got else None)
    got = seen.get("PrintableString")
    if got is not None:
        if got[0] == "PrintableString":
            a = bytepred.byte_acceptance(crate, T % "PrintableString")[0]
            ok = a is not None and a <= c10.YASNA_PRINTABLE
            rep.ob("C13.sink", "%s|DnValue::PrintableString" % cfg, ok, "written with yasna's write_printable_string whose alphabet must contain the wrapper's", found=sorted(chr(x) for x in (a - c10.YASNA_PRINTABLE)) if a else None, sp=got[3].get("sp"))
        else:
            ok = got[0] == "OCTET STRING" and got[1] == "TAG_PRINTABLESTRING" and any(x.endswith("PrintableString::as_str") for x in got[2])
            rep.ob("C13.sink", "%s|DnValue::PrintableString" % cfg, ok, "written as the validated bytes under the PrintableString tag", found=got[:3])
    else:
        rep.fail("C13.sink", "%s|DnValue::PrintableString" % cfg, "no writer site found")
    rep.floor("C13.sink", "DnValue writer arms (%s)" % cfg, len(seen), 6)
    # SAN: Ia5String -> IA5String
    n_ia5 = 0
    for n, p, c, r in S.walk(art.tbs):
        in_san = any(lab == "Seq" and S.oid_key(art.I, node) == "oid:2.5.29.17" for lab, node in p)
        if n["t"] == "Prim" and n["kind"] == "IA5String" and in_san:
            n_ia5 += 1
            rep.ob("C13.sink", "%s|SanType-ia5" % cfg, any(x.endswith("Ia5String::as_str") for x in calls_of(n["args"][0])), "alternative names of kind IA5String are written from a validated Ia5String")
    rep.floor("C13.sink", "SAN IA5String sites (%s)" % cfg, n_ia5, 1)
