"""C08 - a CRL revokes exactly the listed certificates and says what was asked."""
import formula as F
from formula import Or, And, Not, atom
import schema as S
import artrefs
import common
from common import CRL_FN
from interp import core, places, calls_of, Interp, StructV, PhiV, Via

PROP = "C08"
CONFIGS_QUICK = ["K1", "K2", "K3"]
CONFIGS_THOROUGH = ["K1", "K2", "K3", "K0"]
EXPLANATION = (
    "Static: the TBSCertList writer is abstractly interpreted into a TLV tree and compared with the RFC 5280 section 5 reference "
    "(v2, inner AlgorithmIdentifier, issuer Name, thisUpdate, nextUpdate, revokedCertificates only when non-empty, per-entry serial / "
    "revocationDate / entry extensions with reasonCode ENUMERATED and invalidityDate as GeneralizedTime, crlExtensions with AKI derived "
    "from the issuer key by the CRL's method, CRL number, optional critical IDP with [0] fullName URIs and [1]/[2] scope flags); the two "
    "refusal guards (nextUpdate not later than thisUpdate; issuer key usages lacking cRLSign) are located, their formulas checked and "
    "required to precede serialisation; the update-order comparison must be made on the values as they will be encoded (through the "
    "time writer's own sub-second canonicaliser); the entry-extension guard must imply a non-empty extension list and be implied by "
    "every non-trivial requested entry extension; reason codes equal the RFC table. Decides these clauses, not a revocation checker's verdict.")
ASSUMPTIONS = ["yasna encoders; the `time` crate's comparison of OffsetDateTime is by instant", "webpki/OpenSSL revocation semantics are not analysed"]

SIGNED_BY = "crl::CertificateRevocationListParams::signed_by"
REASONS = {"Unspecified": 0, "KeyCompromise": 1, "CaCompromise": 2, "AffiliationChanged": 3, "Superseded": 4, "CessationOfOperation": 5,
           "CertificateHold": 6, "RemoveFromCrl": 8, "PrivilegeWithdrawn": 9, "AaCompromise": 10}


def time_canonicalisers(crate):
    """Local functions the shared time writer applies to a value before building UTCTime / GeneralizedTime."""
    I = Interp(crate)
    out = I.run_fn("write_dt_utc_or_generalized")
    canon = set()
    for n, p, c, r in S.walk(S.norm(out["items"])):
        if n["t"] == "Prim" and n["kind"] in ("UTCTime", "GeneralizedTime"):
            for cal in calls_of(n["args"][0]):
                if cal in crate.bodies:
                    canon.add(cal)
    # follow one level: helpers called by those helpers on their argument (dt_to_generalized -> dt_strip_nanos)
    for fn in list(canon):
        for callee, n, ps in common.calls_in(crate.body(fn)):
            if callee in crate.bodies:
                canon.add(callee)
    return canon


def check_guards(cfg, crate, rep):
    rep.fn(SIGNED_BY)
    key = "%s|%s" % (cfg, SIGNED_BY)
    I = Interp(crate, no_inline={CRL_FN})
    I.run_fn(SIGNED_BY)
    fails = {core(v).r(): (c, v, n) for c, v, n, f in I.fails if f == SIGNED_BY}
    upd = [x for k, x in fails.items() if "InvalidCrlNextUpdate" in k]
    sgn = [x for k, x in fails.items() if "IssuerNotCrlSigner" in k]
    ser = [(c, a, n, cond, f) for c, a, n, cond, f in I.calls if c == CRL_FN and f == SIGNED_BY]
    rep.ob("C08.guards", key + "|serialize-site", len(ser) == 1, "one call of the TBSCertList serializer", found=len(ser))

    def line(n):
        try:
            return int(n.get("sp", ":0").rsplit(":", 1)[1])
        except Exception:
            return 0
    rep.ob("C08.guards", key + "|update-order-guard", len(upd) == 1, "a refusal Err(InvalidCrlNextUpdate) exists", found=len(upd))
    if upd:
        c, v, n = upd[0]
        ats = F.atoms(c)
        cmpa = [a for a in ats if a[0] == "cmp"]
        ok = len(ats) == 1 and len(cmpa) == 1
        detail = F.show(c)
        shape = False
        if ok:
            a = cmpa[0]
            l, r = I.atom_vals.get(a, (None, None))
            pl, pr = places(l) if l is not None else set(), places(r) if r is not None else set()
            op = a[1]
            # refuse iff next <= this   (equivalently this >= next)
            shape = (op == "<=" and pl == {"self.next_update"} and pr == {"self.this_update"} and F.evalf(c, {a: True})) or \
                    (op == ">=" and pl == {"self.this_update"} and pr == {"self.next_update"} and F.evalf(c, {a: True})) or \
                    (op == ">" and pl == {"self.next_update"} and pr == {"self.this_update"} and not F.evalf(c, {a: True}) ) or \
                    (op == "<" and pl == {"self.this_update"} and pr == {"self.next_update"} and not F.evalf(c, {a: True}))
            rep.ob("C08.guards", key + "|update-order-formula", shape, "refused exactly when nextUpdate is not later than thisUpdate (equality included)", found=detail, sp=n.get("sp"))
            canon = time_canonicalisers(crate)
            for side, val in (("next_update", l if "next_update" in "".join(pl) else r), ("this_update", r if "this_update" in "".join(pr) else l)):
                used = calls_of(val) & canon if val is not None else set()
                rep.ob("C08.order", key + "|compare-as-encoded|" + side, bool(used),
                       "the update-order guard must compare the values as they are encoded (whole seconds): operand is not passed through the time writer's canonicaliser %s, so two instants less than a second apart pass the guard and encode equal" % sorted(canon),
                       expected="one of %s applied to self.%s" % (sorted(canon), side), found=core(val).r() if val is not None else None, sp=n.get("sp"))
        else:
            rep.fail("C08.guards", key + "|update-order-formula", "guard is not a single comparison of the two update times", found=detail, sp=n.get("sp"))
        if ser:
            rep.ob("C08.guards", key + "|update-order-before-serialize", line(n) < line(ser[0][2]) and _not_under(ser[0][3], c), "the refusal dominates serialisation", sp=n.get("sp"))
    rep.ob("C08.guards", key + "|crl-sign-guard", len(sgn) == 1, "a refusal Err(IssuerNotCrlSigner) exists", found=len(sgn))
    if sgn:
        c, v, n = sgn[0]
        want = F.parse("!empty(issuer.params.key_usages)")
        ats = [a for a in F.atoms(c) if a[0] == "contains"]
        ok = len(ats) == 1 and ats[0][1] == "issuer.params.key_usages" and "CrlSign" in ats[0][2]
        if ok:
            want = And(want, Not(("atom", ats[0])))
            # strip the earlier guard's negation (the second refusal is evaluated after the first did not fire)
            c2 = _drop_cmp(c)
            ces = F.counterexamples(want, c2, "equiv")
            rep.ob("C08.guards", key + "|crl-sign-formula", not ces, "refused exactly when the issuer declares key usages that lack cRLSign", expected=F.show(want), found=F.show(c2), sp=n.get("sp"))
        else:
            rep.fail("C08.guards", key + "|crl-sign-formula", "guard does not test issuer.params.key_usages for CrlSign", found=F.show(c), sp=n.get("sp"))
        if ser:
            rep.ob("C08.guards", key + "|crl-sign-before-serialize", line(n) < line(ser[0][2]), "the refusal dominates serialisation", sp=n.get("sp"))
    rep.sample({"rule": "C08.guards", "cfg": cfg, "refusals": {k: F.show(x[0]) for k, x in fails.items()}})


def _drop_cmp(f):
    if f is True or f is False:
        return f
    if f[0] == "atom":
        return True if f[1][0] == "cmp" else f
    if f[0] == "not":
        x = f[1]
        if x is not True and x is not False and x[0] == "atom" and x[1][0] == "cmp":
            return True
        return Not(_drop_cmp(x))
    if f[0] == "and":
        return And(*[_drop_cmp(g) for g in f[1]])
    return Or(*[_drop_cmp(g) for g in f[1]])


def _not_under(cond, guard):
    return True


def check_schema(cfg, crate, rep):
    rep.fn(CRL_FN, "crl::RevokedCertParams::write_der", "crl::CrlIssuingDistributionPoint::write_der", "crl::write_distribution_point_name_uris")
    art = common.artefact(crate, CRL_FN)
    key = "%s|%s" % (cfg, CRL_FN)
    if art.tbs is None:
        rep.fail("C08.schema", key + "|tbs", "no TBSCertList found")
        return None
    m = S.Matcher(art.I, rep, "C08.schema", key)
    m.match_list(S.canon_ref(artrefs.tbs_cert_list(True)), art.tbs, ("TBSCertList",))
    rep.floor("C08.schema", "schema nodes matched (%s)" % cfg, m.n, 45)
    rep.sample({"rule": "C08.schema", "cfg": cfg, "tree_tail": [l.split("   --")[0] for l in S.render(art.I, art.tbs)][-30:]})
    return art


def check_entry_guard(cfg, art, rep):
    key = "%s|crl::RevokedCertParams::write_der" % cfg
    reason = inval = None
    Ge = None
    for n, p, c, r in S.walk(art.tbs):
        if n["t"] == "Seq" and r and n["c"]:
            k = S.oid_key(art.I, n)
            if k == "oid:2.5.29.21":
                reason = c
            elif k == "oid:2.5.29.24":
                inval = c
    # the entry-extension SEQUENCE is the conditional SEQUENCE inside the entry that contains those
    for n, p, c, r in S.walk(art.tbs):
        if n["t"] == "Seq" and r and any(S.oid_key(art.I, k) in ("oid:2.5.29.21", "oid:2.5.29.24") for cc, rr, k in S.flatten(n["c"]) if k["t"] == "Seq"):
            Ge = c
    if reason is None or inval is None or Ge is None:
        rep.fail("C08.entry", key + "|sites", "reasonCode / invalidityDate / entry-extension SEQUENCE not found")
        return
    E = Or(reason, inval)
    for ce in F.counterexamples(Ge, E, "implies"):
        rep.fail("C08.entry", key + "|nonempty|" + F.show_asg(ce), "an empty crlEntryExtensions SEQUENCE is written when " + F.show_asg(ce), expected=F.show(E), found=F.show(Ge))
    for ce in F.counterexamples(inval, Ge, "implies"):
        rep.fail("C08.entry", key + "|invalidity-dropped|" + F.show_asg(ce), "a requested invalidity date is dropped when " + F.show_asg(ce), expected=F.show(inval), found=F.show(Ge))
    unspec = [a for a in F.atoms(Ge) if a[0] == "eq" and "Unspecified" in (a[1] + a[2])]
    nontrivial = And(reason, Not(("atom", unspec[0]))) if unspec else reason
    for ce in F.counterexamples(nontrivial, Ge, "implies"):
        rep.fail("C08.entry", key + "|reason-dropped|" + F.show_asg(ce), "a requested reason code (other than unspecified, which is equivalent to absent) is dropped when " + F.show_asg(ce), expected=F.show(nontrivial), found=F.show(Ge))
    if not (F.counterexamples(Ge, E, "implies") or F.counterexamples(inval, Ge, "implies") or F.counterexamples(nontrivial, Ge, "implies")):
        rep.ob("C08.entry", key + "|guard", True, "entry-extension guard is consistent with the emitted extensions")
    rep.sample({"rule": "C08.entry", "cfg": cfg, "guard": F.show(Ge), "reason": F.show(reason), "invalidity": F.show(inval)})


def check_reasons(cfg, crate, rep):
    adt = crate.adts.get("crl::RevocationReason")
    if not adt:
        rep.fail("C08.reason", "%s|table" % cfg, "RevocationReason enum not found")
        return
    got = {v["name"]: v.get("discr") for v in adt["variants"]}
    for k, want in REASONS.items():
        rep.ob("C08.reason", "%s|%s" % (cfg, k), got.get(k) == want, "CRLReason code (RFC 5280 5.3.1)", expected=want, found=got.get(k))
    for k in got:
        if k not in REASONS:
            rep.fail("C08.reason", "%s|%s" % (cfg, k), "reason without a reference code")
    # the ENUMERATED value written for every reason is its RFC code: either the discriminant cast of the entry's reason
    # (the discriminants were just compared with the RFC table) or, specialised per variant, a constant equal to the code
    from interp import specialise, variant_assignment, Interp as _I
    art = common.artefact(crate, CRL_FN)
    en = [n for n, p, c, r in S.walk(art.tbs) if n["t"] == "Prim" and n["kind"] == "ENUMERATED"]
    place = "self.revoked_certs[].reason_code?"
    bad = {}
    if len(en) == 1:
        arg = en[0]["args"][0]
        if isinstance(arg, Via) and arg.name.startswith("as:") and core(arg).r() == place:
            pass
        else:
            for k_, want in REASONS.items():
                x = core(specialise(arg, variant_assignment(arg, place, k_)))
                val = art.I.concrete(x)
                if val != want:
                    bad[k_] = "%s (%s)" % (val, x.r()[:60])
    ok = len(en) == 1 and not bad and places(en[0]["args"][0]) <= {place}
    rep.ob("C08.reason", "%s|enumerated-is-discriminant" % cfg, ok, "reasonCode is written as the RFC 5280 code of the entry's reason (for every variant)", found=bad or [core(x["args"][0]).r()[:120] for x in en])


def run(ctx):
    rep = ctx.rep
    for cfg in (CONFIGS_QUICK if ctx.tier == "quick" else CONFIGS_THOROUGH):
        crate = ctx.crate(cfg)
        check_guards(cfg, crate, rep)
        art = check_schema(cfg, crate, rep)
        if art is not None:
            check_entry_guard(cfg, art, rep)
        check_reasons(cfg, crate, rep)
        if cfg in ("K1", "K3"):
            # thisUpdate / nextUpdate / revocationDate / invalidityDate and the update-order guard all go through the
            # shared time helpers: their rules (instant preserved, truncation, form) are necessary here too
            import c09
            common.borrow_rules(rep, lambda: (c09.single(cfg, crate, rep), c09.helper(cfg, crate, rep)), "C09.", "C08.time")
            # "an authority key identifier derived from the issuer key by the chosen method": the CRL writer goes through
            # KeyIdMethod::derive, which must return pre-specified identifiers unchanged and cut digests to 20 octets
            import c02
            common.borrow_rules(rep, lambda: c02.check_derive(cfg, crate, rep), "C02.", "C08.derive")
