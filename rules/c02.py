"""C02 - a certificate says exactly what its parameters say."""
import formula as F
from formula import Or, And, Not
import schema as S
import refs as R
from refs import Seq, Set, Tagged, Prim, Cond, Rep, Choice, Time, P, C, ext
import common
from interp import Def, roots, core, places, calls_of, PhiV, CallV, DerV, Interp

PROP = "C02"
CONFIGS_QUICK = ["K1", "K2", "K3"]
CONFIGS_THOROUGH = ["K1", "K2", "K3", "K0"]
EXPLANATION = (
    "Static: the TBSCertificate writer is abstractly interpreted (every branch, every helper that takes a DER writer inlined) "
    "into an abstract TLV tree whose leaves are bound to parameter places and whose optional parts carry propositional emission "
    "conditions; the tree is compared with a reference TBSCertificate transcribed from RFC 5280 (structure, tags and tagging mode, "
    "OIDs, criticality, field bindings, conditions by enumeration of all atom assignments); the hand-maintained extension guard is "
    "compared with the disjunction of the emission conditions of the extension sites; tag/bit/OID tables are extracted and compared "
    "with RFC tables; SKI/AKI/report bindings are checked by value-origin resolution. Decides the structural clauses, not decoder output.")
ASSUMPTIONS = [
    "yasna's encoders produce the TLV named by the method called (trusted base)",
    "digest and CIDR mask arithmetic inside dependencies/std are not evaluated",
    "rustc's type checker and name resolution (facts come from the type-checked HIR)",
]

GN_TAGS = {"otherName": 0, "rfc822Name": 1, "dNSName": 2, "directoryName": 4, "uniformResourceIdentifier": 6, "iPAddress": 7}
KU_BITS = {"DigitalSignature": 0, "ContentCommitment": 1, "KeyEncipherment": 2, "DataEncipherment": 3, "KeyAgreement": 4,
           "KeyCertSign": 5, "CrlSign": 6, "EncipherOnly": 7, "DecipherOnly": 8}
EKU_OIDS = {"Any": [2, 5, 29, 37, 0], "ServerAuth": [1, 3, 6, 1, 5, 5, 7, 3, 1], "ClientAuth": [1, 3, 6, 1, 5, 5, 7, 3, 2],
            "CodeSigning": [1, 3, 6, 1, 5, 5, 7, 3, 3], "EmailProtection": [1, 3, 6, 1, 5, 5, 7, 3, 4],
            "TimeStamping": [1, 3, 6, 1, 5, 5, 7, 3, 8], "OcspSigning": [1, 3, 6, 1, 5, 5, 7, 3, 9]}
DN_OIDS = {"CountryName": [2, 5, 4, 6], "LocalityName": [2, 5, 4, 7], "StateOrProvinceName": [2, 5, 4, 8],
           "OrganizationName": [2, 5, 4, 10], "OrganizationalUnitName": [2, 5, 4, 11], "CommonName": [2, 5, 4, 3]}
OID_CONSTS = {
    "oid::PKCS_9_AT_EXTENSION_REQUEST": [1, 2, 840, 113549, 1, 9, 14], "oid::COUNTRY_NAME": [2, 5, 4, 6], "oid::LOCALITY_NAME": [2, 5, 4, 7],
    "oid::STATE_OR_PROVINCE_NAME": [2, 5, 4, 8], "oid::ORG_NAME": [2, 5, 4, 10], "oid::ORG_UNIT_NAME": [2, 5, 4, 11], "oid::COMMON_NAME": [2, 5, 4, 3],
    "oid::EC_PUBLIC_KEY": [1, 2, 840, 10045, 2, 1], "oid::EC_SECP_256_R1": [1, 2, 840, 10045, 3, 1, 7], "oid::EC_SECP_384_R1": [1, 3, 132, 0, 34],
    "oid::EC_SECP_521_R1": [1, 3, 132, 0, 35], "oid::RSA_ENCRYPTION": [1, 2, 840, 113549, 1, 1, 1], "oid::RSASSA_PSS": [1, 2, 840, 113549, 1, 1, 10],
    "oid::KEY_USAGE": [2, 5, 29, 15], "oid::SUBJECT_ALT_NAME": [2, 5, 29, 17], "oid::BASIC_CONSTRAINTS": [2, 5, 29, 19],
    "oid::SUBJECT_KEY_IDENTIFIER": [2, 5, 29, 14], "oid::AUTHORITY_KEY_IDENTIFIER": [2, 5, 29, 35], "oid::EXT_KEY_USAGE": [2, 5, 29, 37],
    "oid::NAME_CONSTRAINTS": [2, 5, 29, 30], "oid::CRL_DISTRIBUTION_POINTS": [2, 5, 29, 31], "oid::PE_ACME": [1, 3, 6, 1, 5, 5, 7, 1, 31],
    "oid::CRL_NUMBER": [2, 5, 29, 20], "oid::CRL_REASONS": [2, 5, 29, 21], "oid::CRL_INVALIDITY_DATE": [2, 5, 29, 24],
    "oid::CRL_ISSUING_DISTRIBUTION_POINT": [2, 5, 29, 28],
}

GUARD = ("true(self.use_authority_key_identifier_extension) || !empty(self.subject_alt_names) || !empty(self.key_usages) || "
         "!empty(self.extended_key_usages) || (some(self.name_constraints) && !(empty(self.name_constraints?.permitted_subtrees) && "
         "empty(self.name_constraints?.excluded_subtrees))) || !empty(self.crl_distribution_points) || variant(self.is_ca,Ca) || "
         "variant(self.is_ca,ExplicitNoCa) || !empty(self.custom_extensions)")
NC_NONEMPTY = ("some(self.name_constraints) && !(empty(self.name_constraints?.permitted_subtrees) && "
               "empty(self.name_constraints?.excluded_subtrees))")


def aki_pred(v, I):
    """AKI = issuer's pre-specified id, else issuer's method applied to the issuer key's SPKI."""
    pl = places(v)
    bad = [p for p in pl if not (p.startswith("issuer.key_identifier_method") or p.startswith("issuer.key_pair"))]
    if bad:
        return "authority key identifier depends on %s (must come from the issuer only)" % bad
    if not any(p.startswith("issuer.key_identifier_method") for p in pl):
        return "authority key identifier ignores the issuer's key identifier method"
    v0 = core(v)
    alts = v0.alts if isinstance(v0, PhiV) else [(True, v0)]
    for c, x in alts:
        xs = core(x)
        if isinstance(xs, CallV):
            if not xs.callee.endswith("KeyIdMethod::derive"):
                return "derived through %s instead of KeyIdMethod::derive" % xs.callee
            if places(xs.args[0]) != {"issuer.key_identifier_method"}:
                return "derive() is applied to %s" % sorted(places(xs.args[0]))
            if places(xs.args[1]) != {"issuer.key_pair"} or not any(k.endswith("public_key_der") or k.endswith("serialize_public_key_der") for k in calls_of(xs.args[1])):
                return "derive() input is not the issuer key's SubjectPublicKeyInfo"
        else:
            if places(x) != {"issuer.key_identifier_method#PreSpecified.0"}:
                return "pre-specified arm writes %s" % sorted(places(x))
    return None


def make_ski_pred(art):
    def ski_pred(v, I):
        v0 = core(v)
        if not isinstance(v0, CallV) or not v0.callee.endswith("KeyIdMethod::derive"):
            return "subject key identifier is not KeyIdMethod::derive(..)"
        if places(v0.args[0]) != {"self.key_identifier_method"}:
            return "derive() applied to %s, expected self.key_identifier_method" % sorted(places(v0.args[0]))
        d = core(v0.args[1])
        if not isinstance(d, DerV):
            return "derive() input is not a freshly built SubjectPublicKeyInfo (found %s)" % d.r()
        # the DER must be the SPKI of the same pub_key that is written as subjectPublicKeyInfo
        m = S.Matcher(I, art.rep, "C02.ski", art.fn)
        before = len([o for o in art.rep.obligations if not o["ok"]])
        m.match_list(S.canon_ref([R.spki("pub_key")]), S.norm(d.items), ("ski-input",))
        after = len([o for o in art.rep.obligations if not o["ok"]])
        if after != before:
            return "derive() input is not SubjectPublicKeyInfo(pub_key)"
        return None
    return ski_pred


def general_subtrees(tag, lst):
    el = lst + "[]"
    return Cond("!empty(%s)" % lst, [Tagged(tag, "implicit", [Seq([Rep(lst, [Seq([Choice(el, {
        "Rfc822Name": [Tagged(1, "implicit", [Prim("IA5String", P(lst))])],
        "DnsName": [Tagged(2, "implicit", [Prim("IA5String", P(lst))])],
        # Name is a CHOICE: directoryName [4] is explicitly tagged (X.680 31.2.7)
        "DirectoryName": [Tagged(4, "explicit", [R.name(el + "#DirectoryName.0")])],
        "IpAddress": [Tagged(7, "implicit", [Prim("OCTET STRING", P(lst, via=["CidrSubnet::to_bytes"]))])],
    })])])])])])


def reference_tbs(crypto, art):
    san = "self.subject_alt_names"
    el = san + "[]"
    serial = [Cond("some(self.serial_number)", [Prim("INTEGER", P("self.serial_number"), args=[C(True)])])]
    if crypto:
        serial.append(Cond("!some(self.serial_number)", [Prim("INTEGER", {"any": True}, args=[C(True)])]))
    ski = make_ski_pred(art)
    exts = [
        Cond("true(self.use_authority_key_identifier_extension)", [ext(R.OID_AKI, False, [Seq([Tagged(0, "implicit", [Prim("OCTET STRING", {"pred": aki_pred})])])])]),
        Cond("!empty(%s)" % san, [ext(R.OID_SAN, "empty(self.distinguished_name)", [Seq([Rep(san, [Choice(el, {
            "Rfc822Name": [Tagged(1, "implicit", [Prim("IA5String", P(san))])],
            "DnsName": [Tagged(2, "implicit", [Prim("IA5String", P(san))])],
            "URI": [Tagged(6, "implicit", [Prim("IA5String", P(san))])],
            "IpAddress": [Tagged(7, "implicit", [Choice(el + "#IpAddress.0", {
                "V4": [Prim("OCTET STRING", P(san, via=["octets"]))],
                "V6": [Prim("OCTET STRING", P(san, via=["octets"]))]})])],
            "OtherName": [Tagged(0, "implicit", [Seq([Prim("OID", P(san)), Tagged(0, "explicit", [Choice(el + "#OtherName.0.1", {"Utf8String": [Prim("UTF8String", P(san))]})])])])],
        })])])])]),
        Cond("!empty(self.key_usages)", [ext(R.OID_KU, True, [Prim("BIT STRING", P("self.key_usages", via=["KeyUsagePurpose::to_u16"], loose=True))])]),
        Cond("!empty(self.extended_key_usages)", [ext(R.OID_EKU, False, [Seq([Rep("self.extended_key_usages", [Prim("OID", P("self.extended_key_usages", via=["ExtendedKeyUsagePurpose::oid"]))])])])]),
        Cond(NC_NONEMPTY, [ext(R.OID_NC, True, [Seq([
            general_subtrees(0, "self.name_constraints?.permitted_subtrees"),
            general_subtrees(1, "self.name_constraints?.excluded_subtrees")])])]),
        Cond("!empty(self.crl_distribution_points)", [ext(R.OID_CRLDP, False, [Seq([Rep("self.crl_distribution_points", [
            Seq([R.distribution_point_name("self.crl_distribution_points[].uris")])])])])]),
        Cond("variant(self.is_ca,Ca)", [
            ext(R.OID_SKI, False, [Prim("OCTET STRING", {"pred": ski})]),
            ext(R.OID_BC, True, [Seq([Prim("BOOLEAN", C(True)), Cond("variant(self.is_ca#Ca.0,Constrained)", [Prim("INTEGER", P("self.is_ca#Ca.0#Constrained.0"))])])])]),
        Cond("variant(self.is_ca,ExplicitNoCa)", [
            ext(R.OID_SKI, False, [Prim("OCTET STRING", {"pred": ski})]),
            # cA DEFAULT FALSE: an explicit FALSE is tolerated here (decodes the same); C04 decides canonicity
            ext(R.OID_BC, True, [Seq([Prim("BOOLEAN", C(False), optional=True)])])]),
        Rep("self.custom_extensions", [Seq([
            Prim("OID", P("self.custom_extensions")),
            Cond("true(self.custom_extensions[].critical)", [Prim("BOOLEAN", C(True))]),
            Prim("OCTET STRING", inner=[{"t": "Raw", "v": P("self.custom_extensions", via=["CustomExtension::content"])}])])]),
    ]
    return [Seq([
        Tagged(0, "explicit", [Prim("INTEGER", C(2))]),
        *serial,
        R.alg_ident("issuer.key_pair.alg", "issuer.key_pair"),
        R.name("issuer.distinguished_name"),
        Seq([Time("self.not_before"), Time("self.not_after")]),
        R.name("self.distinguished_name"),
        R.spki("pub_key"),
        Cond(GUARD, [Tagged(3, "explicit", [Seq(exts, unordered=True)])]),
    ])]


def check_schema(ctx, cfg, crate, rep):
    art = common.artefact(crate, common.CERT_FN)
    art.rep = rep
    rep.fn(common.CERT_FN, common.SIGN_DER, "write_distinguished_name", "write_x509_extension", "key_pair::serialize_public_key_der")
    if art.tbs is None:
        rep.fail("C02.schema", "%s|%s|tbs" % (cfg, common.CERT_FN), "could not locate the TBSCertificate embedded by sign_der")
        return art
    crypto = cfg != "K3"
    m = S.Matcher(art.I, rep, "C02.schema", "%s|%s" % (cfg, common.CERT_FN))
    m.match_list(S.canon_ref(reference_tbs(crypto, art)), art.tbs, ("TBSCertificate",))
    rep.floor("C02.schema", "schema nodes matched (%s)" % cfg, m.n, 60 if crypto else 55)
    return art


def check_guard(cfg, art, rep):
    """G <=> OR(E_i): the extension block is written iff at least one extension is."""
    blocks = [(n, p, c, r) for n, p, c, r in S.walk(art.tbs) if n["t"] == "Tagged" and S.tag_str(art.I, n["tag"]) == "[3]"]
    if len(blocks) != 1:
        rep.fail("C02.guard", "%s|%s|block" % (cfg, common.CERT_FN), "expected exactly one [3] extensions block, found %d" % len(blocks))
        return
    blk, _, G, _ = blocks[0]
    seqs = [k for k in blk["c"] if k["t"] == "Seq"]
    if len(seqs) != 1:
        rep.fail("C02.guard", "%s|%s|block" % (cfg, common.CERT_FN), "extensions block does not contain one SEQUENCE")
        return
    es = [c for c, reps, n in S.flatten(seqs[0]["c"]) if not reps] + [F.atom("empty", S.rep_str(reps[0]))  and Not(F.atom("empty", S.rep_str(reps[0]))) for c, reps, n in S.flatten(seqs[0]["c"]) if reps]
    E = S.alias(Or(*es))
    G = S.alias(G)
    ces = F.counterexamples(E, G, "implies")
    if not ces:
        rep.ob("C02.guard", "%s|%s|requested=>block" % (cfg, common.CERT_FN), True, "every requested extension implies the [3] block")
    for ce in ces:
        rep.fail("C02.guard", "%s|%s|requested=>block|%s" % (cfg, common.CERT_FN, F.show_asg(ce)),
                 "an extension is requested but the [3] extensions block is not written, so it is silently dropped, when " + F.show_asg(ce),
                 sp=blk.get("sp"), expected=F.show(E), found=F.show(G))
    ces2 = F.counterexamples(G, E, "implies")
    if not ces2:
        rep.ob("C02.guard", "%s|%s|block=>nonempty" % (cfg, common.CERT_FN), True, "the [3] block is never written empty")
    for ce in ces2:
        rep.fail("C02.guard", "%s|%s|block=>nonempty|%s" % (cfg, common.CERT_FN, F.show_asg(ce)),
                 "the [3] block is written with an empty Extensions SEQUENCE when " + F.show_asg(ce),
                 sp=blk.get("sp"), expected=F.show(E), found=F.show(G))
    n = n2 = len(list(F.assignments(F.atoms(E, F.atoms(G)))))
    rep.sample({"rule": "C02.guard", "cfg": cfg, "guard": F.show(G), "emissions": [F.show(e) for e in es], "assignments_enumerated": n + n2})


def check_tables(cfg, crate, rep):
    I = Interp(crate)
    def table(fn, want, what, via=None):
        rep.fn(fn)
        tab = S.variant_table(I, fn)
        if tab is None:
            rep.fail("C02.tables", "%s|%s" % (cfg, fn), "table not extractable (unrecognised idiom)")
            return
        for k, v in want.items():
            rep.ob("C02.tables", "%s|%s|%s" % (cfg, fn, k), tab.get(k) == v, "%s for %s" % (what, k), expected=v, found=tab.get(k))
        for k in tab:
            if k not in want:
                rep.fail("C02.tables", "%s|%s|%s" % (cfg, fn, k), "variant not in the reference table", expected="absent", found=tab[k])
        rep.sample({"rule": "C02.tables", "fn": fn, "table": tab})
    table("SanType::tag", {"OtherName": 0, "Rfc822Name": 1, "DnsName": 2, "URI": 6, "IpAddress": 7}, "GeneralName tag (RFC 5280 4.2.1.6)")
    table("certificate::GeneralSubtree::tag", {"Rfc822Name": 1, "DnsName": 2, "DirectoryName": 4, "IpAddress": 7}, "GeneralName tag")
    # key usage: the bit mask of every variant, by exhaustive constant propagation (analysis L)
    fn = "KeyUsagePurpose::to_u16"
    rep.fn(fn)
    import ceval
    E = ceval.Eval(crate)
    vals = ceval.enum_values(crate, "KeyUsagePurpose")
    if not vals:
        rep.fail("C02.tables", "%s|%s" % (cfg, fn), "KeyUsagePurpose is not a field-less enum any more")
    else:
        seen = {}
        for v in vals:
            nm = v.variant.split("::")[-1]
            try:
                seen[nm] = E.call(fn, [v])
            except (ceval.Unsupported, ceval.Panic) as e:
                seen[nm] = "%s: %s" % (type(e).__name__, e)
        for nm, bit in KU_BITS.items():
            want = 0x8000 >> bit
            rep.ob("C02.tables", "%s|%s|%s" % (cfg, fn, nm), seen.get(nm) == want, "KeyUsage bit %d (RFC 5280 4.2.1.3), big-endian u16 mask" % bit, expected=hex(want), found=hex(seen[nm]) if isinstance(seen.get(nm), int) else seen.get(nm))
        for nm in seen:
            if nm not in KU_BITS:
                rep.fail("C02.tables", "%s|%s|%s" % (cfg, fn, nm), "variant not in the reference table")
        rep.sample({"rule": "C02.tables", "fn": fn, "table": {k: hex(x) for k, x in seen.items() if isinstance(x, int)}})
    ku_encoding(cfg, crate, rep)
    # EKU OIDs
    fn = "certificate::ExtendedKeyUsagePurpose::oid"
    rep.fn(fn)
    out = I.run_fn(fn)
    v = core(out["value"])
    if isinstance(v, PhiV):
        seen = {}
        for c, x in v.alts:
            names = S._variants_of(c) or []
            for nm in names:
                seen[nm] = I.concrete(x)
        for nm, want in EKU_OIDS.items():
            rep.ob("C02.tables", "%s|%s|%s" % (cfg, fn, nm), seen.get(nm) == want, "id-kp OID (RFC 5280 4.2.1.12)", expected=want, found=seen.get(nm))
        oth = [x for c, x in v.alts if "Other" in (S._variants_of(c) or [])]
        rep.ob("C02.tables", "%s|%s|Other" % (cfg, fn), len(oth) == 1 and places(oth[0]) == {"self#Other.0"}, "Other(oid) yields its own payload", found=[o.r() for o in oth])
    else:
        rep.fail("C02.tables", "%s|%s" % (cfg, fn), "EKU OID table not extractable")
    # DN type OIDs: to_oid and from_oid
    fn = "certificate::DnType::to_oid"
    rep.fn(fn)
    out = I.run_fn(fn)
    v = core(out["value"])
    seen = {}
    if isinstance(v, CallV) and v.callee.endswith("ObjectIdentifier::from_slice") and isinstance(core(v.args[0]), PhiV):
        for c, x in core(v.args[0]).alts:
            for nm in S._variants_of(c) or []:
                seen[nm] = I.concrete(x)
        for nm, want in DN_OIDS.items():
            rep.ob("C02.tables", "%s|%s|%s" % (cfg, fn, nm), seen.get(nm) == want, "id-at OID", expected=want, found=seen.get(nm))
        cus = [x for c, x in core(v.args[0]).alts if "CustomDnType" in (S._variants_of(c) or [])]
        rep.ob("C02.tables", "%s|%s|CustomDnType" % (cfg, fn), len(cus) == 1 and places(cus[0]) == {"self#CustomDnType.0"}, "custom type yields its own OID")
    else:
        rep.fail("C02.tables", "%s|%s" % (cfg, fn), "DnType::to_oid table not extractable")
    # every oid.rs constant
    n = 0
    for name, want in OID_CONSTS.items():
        if name not in crate.bodies:
            if name == "oid::EC_SECP_521_R1" and cfg != "K2":
                continue
            rep.fail("C02.tables", "%s|%s" % (cfg, name), "OID constant missing")
            continue
        got = I.concrete(I.const_value(name))
        n += 1
        rep.ob("C02.tables", "%s|%s" % (cfg, name), got == want, "registered OID value", expected=want, found=got)
    for name in crate.bodies:
        if name.startswith("oid::") and name not in OID_CONSTS and (crate.bodies[name].get("dk") or "").startswith(("Const", "Static")) and "::" not in name[5:]:
            rep.fail("C02.tables", "%s|%s" % (cfg, name), "OID constant without a reference value (add it to the reference table after checking its registration)")
    rep.floor("C02.tables", "oid.rs constants (%s)" % cfg, n, 25)
    # CIDR: to_bytes = address then mask; from_v4_prefix <-> u32, from_v6_prefix <-> u128
    cidr(cfg, crate, I, rep)


def ku_encoding(cfg, crate, rep, rule="C02.tables"):
    """The KeyUsage BIT STRING for every set of usages, by exhaustive constant propagation through write_key_usage
    (analysis L with effect capture): for all 512 subsets, and for lists with repeated entries, the bytes and the bit
    count handed to write_bitvec_bytes are the OR of the usages' RFC 5280 bits, with no trailing zero bits."""
    import ceval
    fn = "certificate::CertificateParams::write_key_usage"
    rep.fn(fn)
    vals = ceval.enum_values(crate, "KeyUsagePurpose") or []
    names = [v.variant.split("::")[-1] for v in vals]
    if sorted(names) != sorted(KU_BITS):
        rep.fail(rule, "%s|%s|encoding" % (cfg, fn), "KeyUsagePurpose variants differ from the reference table", found=names)
        return
    E = ceval.Eval(crate, budget=50_000_000)
    E.capture = "write_bitvec_bytes"
    lists = []
    for combo in range(1 << len(vals)):
        lists.append([v for i, v in enumerate(vals) if combo >> i & 1])
    for i, v in enumerate(vals):
        w = vals[(i + 1) % len(vals)]
        lists += [[v, v], [v, w, v], [w, v, v, w]]
    lists.append(list(reversed(vals)))
    bad = {}
    for ks in lists:
        mask = 0
        for k in ks:
            mask |= 0x8000 >> KU_BITS[k.variant.split("::")[-1]]
        E.captured = []
        try:
            # arguments by parameter type: the parameters (`&self`), or the usage list itself, and the writer
            args_ = []
            for p_ in crate.bodies[fn].get("params", []):
                ty_ = p_.get("ty") or ""
                if "KeyUsagePurpose" in ty_:
                    args_.append(list(ks))
                elif "DERWriter" in ty_:
                    args_.append(ceval.OPAQUE)
                else:
                    args_.append(ceval.Adt("certificate::CertificateParams", None, {"key_usages": list(ks)}))
            E.call(fn, args_)
            got = E.captured
        except (ceval.Unsupported, ceval.Panic) as e:
            got = "%s: %s" % (type(e).__name__, e)
        if mask == 0:
            want = []
        else:
            bits = 16 - ((mask & -mask).bit_length() - 1)
            want = [[list(mask.to_bytes(2, "big")[:(bits + 7) // 8]), bits]]
        if got != want:
            bad[",".join(k.variant.split("::")[-1] for k in ks) or "(none)"] = "%s, expected %s" % (got, want)
            if len(bad) >= 4:
                break
    rep.ob(rule, "%s|%s|encoding" % (cfg, fn), not bad, "for every set of key usages (all 512 subsets, and lists with repeated entries) the KeyUsage BIT STRING is the OR of the usages' bits without trailing zero bits; an empty list writes no extension",
           expected="%d usage lists agree" % len(lists), found=bad or "%d usage lists agree" % len(lists))


def cidr(cfg, crate, I, rep):
    import ceval
    for fn, width, n in (("certificate::CidrSubnet::from_v4_prefix", 32, 4), ("certificate::CidrSubnet::from_v6_prefix", 128, 16)):
        rep.fn(fn)
        E = ceval.Eval(crate)
        addr = [(17 * i + 3) & 0xff for i in range(n)]
        bad = {}
        variant_ok = True
        for prefix in range(256):
            try:
                r = E.call(fn, [list(addr), prefix])
            except (ceval.Unsupported, ceval.Panic) as e:
                bad[prefix] = "%s: %s" % (type(e).__name__, e)
                continue
            p_ = min(prefix, width)
            want_mask = list((((1 << width) - 1) ^ ((1 << (width - p_)) - 1)).to_bytes(n, "big"))
            if not isinstance(r, ceval.Adt) or not (r.variant or "").endswith("V4" if n == 4 else "V6"):
                variant_ok = False
                bad[prefix] = repr(r)[:60]
            elif r.fields.get("0") != addr or r.fields.get("1") != want_mask:
                bad[prefix] = "addr %s mask %s, expected mask %s" % (r.fields.get("0"), r.fields.get("1"), want_mask)
        rep.ob("C02.tables", "%s|%s|mask" % (cfg, fn), not bad,
               "for every prefix length 0..=255 the subnet is (addr unchanged, mask = the top min(prefix, %d) bits set, network byte order) - evaluated for all 256 prefixes" % width,
               expected="256 prefixes agree", found={k: bad[k] for k in sorted(bad)[:4]} or "256 prefixes agree")
        rep.ob("C02.tables", "%s|%s|pairing" % (cfg, fn), variant_ok, "%s(addr, mask(prefix))" % ("V4" if n == 4 else "V6"))
    fn = "certificate::CidrSubnet::from_addr_prefix"
    rep.fn(fn)
    v = core(Interp(crate).run_fn(fn)["value"])
    want = "phi(addr is V4 -> certificate::CidrSubnet::from_v4_prefix(std::net::Ipv4Addr::octets(addr#V4.0), prefix) | addr is V6 -> certificate::CidrSubnet::from_v6_prefix(std::net::Ipv6Addr::octets(addr#V6.0), prefix))"
    rep.ob("C02.tables", "%s|%s" % (cfg, fn), v.r() == want, "IPv4 addresses go to the 32-bit constructor and IPv6 to the 128-bit one, octets and prefix unchanged", expected=want, found=v.r())
    fn = "<certificate::CidrSubnet as std::str::FromStr>::from_str"
    if fn in crate.bodies:
        rep.fn(fn)
        I2 = Interp(crate)
        v = core(I2.run_fn(fn)["value"])
        calls = [(c, a) for c, a, n_, cnd, f in I2.calls if c == "certificate::CidrSubnet::from_addr_prefix"]
        ok = len(calls) == 1 and "parse::<std::net::IpAddr>" in calls_of(calls[0][1][0]) and "parse::<u8>" in calls_of(calls[0][1][1]) \
            and not [r for r in (S.roots(calls[0][1][0]) | S.roots(calls[0][1][1])) if r.startswith("op:") and r != "op:mutated"]
        rep.ob("C02.tables", "%s|%s" % (cfg, fn), ok, "`addr/prefix` text is parsed into (IpAddr, u8) and passed on unchanged", found=[core(x).r()[-90:] for x in calls[0][1]] if calls else None)
    # DnType::from_oid is the inverse of to_oid
    fn = "certificate::DnType::from_oid"
    rep.fn(fn)
    I3 = Interp(crate)
    v = core(I3.run_fn(fn)["value"])
    inv = {}
    custom_ok = False
    if isinstance(v, PhiV):
        from interp import flatten_phi
        import re as _re3
        custom_ok = True
        n_custom = 0
        for c, x in flatten_phi(v):     # (a match on constant patterns, an if / else-if chain, nested slice patterns: one table)
            xs = core(x)
            name = (xs.variant or "").split("::")[-1] if hasattr(xs, "variant") else None
            ats_ = F.atoms(c)
            if len(ats_) > 14:
                pos = [a for a in ats_ if a[0] == "eq" and F.evalf(c, {b: (b == a) for b in ats_})]
            else:
                pos = [a for a in ats_ if a[0] == "eq" and not F.counterexamples(c, ("atom", a), "implies")]
            if name == "CustomDnType":
                n_custom += 1
                custom_ok = custom_ok and places(xs) == {"slice"}
                continue
            oid_ = None
            cname = [s_ for a in pos for s_ in a[1:] if isinstance(s_, str) and s_.startswith("oid::")]
            if len(cname) == 1 and len(pos) == 1:
                oid_ = I3.concrete(I3.const_value(cname[0]))
            else:
                ln_, el_ = None, {}
                for a in pos:
                    l_, r_ = str(a[1]), str(a[2])
                    if r_.isdigit() and l_.endswith("len(slice)"):
                        ln_ = int(r_)
                    elif r_.isdigit() and _re3.fullmatch(r"slice\[(\d+)\]", l_):
                        el_[int(_re3.fullmatch(r"slice\[(\d+)\]", l_).group(1))] = int(r_)
                if ln_ is not None and sorted(el_) == list(range(ln_)) and len(pos) == ln_ + 1:
                    oid_ = [el_[i_] for i_ in range(ln_)]
            if name is None or oid_ is None or name in inv:
                inv[name or "?"] = "alternative %s: the accepted OID is not determined by its condition (%s)" % (name, F.show(c)[:120])
            else:
                inv[name] = oid_
        custom_ok = custom_ok and n_custom >= 1
    # the inverse of the writer's own table (which `to_oid` above pins to the RFC values for the well-known types; a
    # later release may name further types: they must then appear in both tables with the same OID)
    to_oid_table = {}
    It_ = Interp(crate)
    vt_ = core(It_.run_fn("certificate::DnType::to_oid")["value"])
    if isinstance(vt_, CallV) and vt_.args and isinstance(core(vt_.args[0]), PhiV):
        for c_, x_ in core(vt_.args[0]).alts:
            for nm_ in S._variants_of(c_) or []:
                to_oid_table[nm_] = It_.concrete(x_)
    want_inv = {k: v_ for k, v_ in to_oid_table.items() if k != "CustomDnType" and isinstance(v_, list)}
    rep.ob("C02.tables", "%s|%s" % (cfg, fn), inv == want_inv and set(DN_OIDS) <= set(inv) and custom_ok, "from_oid is the inverse of to_oid (each registered OID maps to its attribute type; anything else becomes CustomDnType(oid))", expected=want_inv, found=inv)
    fn = "certificate::CidrSubnet::to_bytes"
    rep.fn(fn)
    import ceval
    E = ceval.Eval(crate)
    found = {}
    for var, n in (("V4", 4), ("V6", 16)):
        addr = [(29 * i + 5) & 0xff for i in range(n)]
        mask = [(13 * i + 200) & 0xff for i in range(n)]
        try:
            got = E.call(fn, [ceval.Adt(None, "certificate::CidrSubnet::" + var, {"0": list(addr), "1": list(mask)})])
        except (ceval.Unsupported, ceval.Panic) as e:
            got = "%s: %s" % (type(e).__name__, e)
        if got != addr + mask:
            found[var] = got
    rep.ob("C02.tables", "%s|%s|order" % (cfg, fn), not found, "bytes = address followed by mask (evaluated on distinct symbolic-free byte patterns for both variants)", expected="addr ++ mask", found=found or "addr ++ mask")


def check_report(cfg, crate, rep):
    """The returned Certificate reports the input params and the SPKI of the key that was encoded."""
    sites = [("certificate::CertificateParams::signed_by", "public_key", "self"),
             ("certificate::CertificateParams::self_signed", "key_pair", "self"),
             ("csr::CertificateSigningRequestParams::signed_by", "self.public_key", "self.params")]
    n = 0
    for fn, key, params in sites:
        rep.fn(fn)
        I = Interp(crate, no_inline={common.CERT_FN})
        out = I.run_fn(fn)
        lits = [(sv, node) for sv, node, f, c in I.structs if (sv.adt or "").endswith("certificate::Certificate") and f == fn]
        if len(lits) != 1:
            rep.fail("C02.report", "%s|%s|literal" % (cfg, fn), "expected one Certificate{..} literal, found %d" % len(lits))
            continue
        sv, node = lits[0]
        n += 1
        p = sv.fields.get("params")
        rep.ob("C02.report", "%s|%s|params" % (cfg, fn), p is not None and core(p).r() == params and not _is_mut_param(crate, fn, params),
               "Certificate.params is the (unmodified, by-value, non-mut) input", sp=node.get("sp"), expected=params, found=core(p).r() if p else None)
        spki_v = sv.fields.get("subject_public_key_info")
        # the key handed to the serializer
        sers = [(c, a) for c, a, nn, cc, f in I.calls if c == common.CERT_FN and f == fn]
        ser_key = core(sers[0][1][1]).r() if sers else None
        okk = ser_key == key
        rep.ob("C02.report", "%s|%s|serializer-key" % (cfg, fn), okk, "serialize_der_with_signer receives the subject key", expected=key, found=ser_key, sp=node.get("sp"))
        ok = spki_v is not None and places(spki_v) == {key} and any(k.endswith("serialize_public_key_der") or k.endswith("public_key_der") for k in (calls_of(spki_v) | _der_calls(spki_v)))
        rep.ob("C02.report", "%s|%s|spki" % (cfg, fn), ok, "Certificate.subject_public_key_info is the SubjectPublicKeyInfo of the same key that was encoded",
               expected="SPKI(%s)" % key, found=sorted(places(spki_v)) if spki_v else None, sp=node.get("sp"))
        d = sv.fields.get("der")
        okd = d is not None and any(c == common.CERT_FN for c in calls_of(d))
        rep.ob("C02.report", "%s|%s|der" % (cfg, fn), okd, "Certificate.der is the serializer's output", found=core(d).r() if d else None, sp=node.get("sp"))
    rep.floor("C02.report", "Certificate literals (%s)" % cfg, n, 3)
    fn = "certificate::Certificate::key_identifier"
    rep.fn(fn)
    I = Interp(crate)
    v = core(I.run_fn(fn)["value"])
    ok = isinstance(v, CallV) and v.callee.endswith("KeyIdMethod::derive") and places(v.args[0]) == {"self.params.key_identifier_method"} and places(v.args[1]) == {"self.subject_public_key_info"}
    rep.ob("C02.report", "%s|%s" % (cfg, fn), ok, "key_identifier() = params.key_identifier_method.derive(subject_public_key_info)", found=v.r())


def _der_calls(v):
    """callees inside a DerV's producing closure (construct_der(|w| serialize_public_key_der(k, w)))."""
    out = set()
    v0 = core(v)
    if isinstance(v0, DerV):
        for n, p, c, r in S.walk(S.norm(v0.items)):
            if n.get("fn"):
                out.add(n["fn"])
    return out


def _is_mut_param(crate, fn, name):
    b = crate.body(fn)
    for p in b.get("params", []):
        if p.get("k") == "Binding" and p["name"] == name.split(".")[0] and p.get("mut"):
            return True
    return False


def places_with_der(v):
    return places(v)


def check_derive(cfg, crate, rep):
    """KeyIdMethod::derive: ShaN -> digest::SHAN, truncated to 0..20; PreSpecified -> its bytes.
    The result is specialised per variant of `self` (whatever the shape of the dispatch: one match, a selected digest
    constant, a helper per arm) and each specialised value is compared with the reference."""
    from interp import IndexV, specialise, variant_assignment
    fn = "KeyIdMethod::derive"
    rep.fn(fn)
    I = Interp(crate)
    v = I.run_fn(fn)["value"]
    adt = crate.adts.get("KeyIdMethod") or {}
    variants = [x["name"] for x in adt.get("variants", [])]
    want = {"Sha256": "SHA256", "Sha384": "SHA384", "Sha512": "SHA512"}
    rep.ob("C02.ski", "%s|%s|variants" % (cfg, fn), set(variants) == ({"PreSpecified"} | (set(want) if cfg != "K3" else set())), "the key identifier methods are PreSpecified and (with a crypto back end) SHA-256/384/512", found=variants)
    tab = {}
    detail = {}
    for var in variants:
        x = core(specialise(v, variant_assignment(v, "self", var)))
        if var == "PreSpecified":
            rep.ob("C02.ski", "%s|%s|PreSpecified" % (cfg, fn), places(x) == {"self#PreSpecified.0"} and not [r for r in roots(x) if r.startswith(("op:", "call:"))], "pre-specified bytes returned unchanged", found=x.r()[:160])
            continue
        detail[var] = x.r()[:200]
        if isinstance(x, IndexV):
            rb = common.range_bounds(I, x.idx)
            dg = core(x.base)
            if rb == (0, 20) and isinstance(dg, CallV) and dg.callee.endswith("digest::digest") and places(dg.args[1]) == {"subject_public_key_info"} \
                    and not [r for r in roots(dg.args[1]) if r.startswith("op:")]:
                m = core(dg.args[0])
                tab[var] = m.r().split("::")[-1] if isinstance(m, Def) else m.r()[:60]
    if cfg != "K3":
        rep.ob("C02.ski", "%s|%s|digest" % (cfg, fn), tab == want, "ShaN -> digest::SHAN over the SPKI, first 20 octets (RFC 7093)", expected=want, found={"table": tab, "values": detail})


def run(ctx):
    rep = ctx.rep
    cfgs = CONFIGS_QUICK if ctx.tier == "quick" else CONFIGS_QUICK + ["K0"]
    for cfg in cfgs:
        crate = ctx.crate(cfg)
        art = check_schema(ctx, cfg, crate, rep)
        if art.tbs is not None:
            check_guard(cfg, art, rep)
        check_derive(cfg, crate, rep)
        if cfg in ("K1", "K3"):
            # "validity instants": both Time leaves are written by the one shared time writer, which must encode the
            # UTC instant of the value it is given (whole seconds, form chosen on the UTC year)
            import c09
            common.borrow_rules(rep, lambda: (c09.single(cfg, crate, rep), c09.helper(cfg, crate, rep)), "C09.", "C02.time")
        if cfg in ("K1", "K2", "K0"):
            check_report(cfg, crate, rep)
        if cfg in ("K1", "K2"):
            check_tables(cfg, crate, rep)
            # "the subject public key is the requested one": a key given as a parsed SubjectPublicKeyInfo is re-serialised
            # from the algorithm the parser recognised, which must therefore be the complete identifier (curve included)
            import c11
            common.borrow_rules(rep, lambda: c11.check_spki(cfg, crate, rep), "C11.", "C02.spki")
            c11.check_pub(cfg, crate, rep, rule="C02.spki")
    art = common.artefact(ctx.crate("K1"), common.CERT_FN)
    if art.tbs:
        rep.sample({"rule": "C02.schema", "inferred_tree_head": S.render(art.I, art.tbs)[:40]})
