"""Check harness: runs a property module, writes evidence, applies known findings, sets the exit code."""
import json
import os
import sys
import time
import traceback

import facts

VERIF = facts.VERIF
EVID = os.environ.get("VERIF_EVIDENCE_DIR") or os.path.join(VERIF, "evidence")
KNOWN = os.path.join(VERIF, "known_findings.json")


class Report:
    def __init__(self, prop, tier):
        self.prop = prop
        self.tier = tier
        self.obligations = []   # dicts: rule, key, ok, detail, sp
        self.samples = []
        self.notes = []
        self.functions = set()
        self.configs = []
        self.floors = []
        self.assumptions = []
        self.extra = {}

    # -- recording -----------------------------------------------------------
    def ob(self, rule, key, ok, detail="", sp=None, expected=None, found=None, cfg=None):
        """One rule instance. `key` must not contain line numbers."""
        self.obligations.append({
            "rule": rule, "key": "%s|%s" % (rule, key), "ok": bool(ok), "detail": detail, "sp": sp,
            "expected": expected, "found": found, "cfg": cfg,
        })
        return bool(ok)

    def fail(self, rule, key, detail, sp=None, **kw):
        return self.ob(rule, key, False, detail, sp, **kw)

    def floor(self, rule, what, count, minimum):
        """Fail closed if a rule matched fewer sites than were confirmed by hand."""
        self.floors.append({"rule": rule, "what": what, "count": count, "floor": minimum})
        self.ob(rule, "floor:%s" % what, count >= minimum,
                "%s: matched %d site(s), floor %d (a rule that matches nothing passes vacuously)" % (what, count, minimum))

    def sample(self, s):
        if len(self.samples) < 40:
            self.samples.append(s)

    def note(self, s):
        self.notes.append(s)

    def fn(self, *names):
        self.functions.update(names)


def load_known():
    if not os.path.exists(KNOWN):
        return {"findings": [], "fixed": []}
    with open(KNOWN) as fh:
        return json.load(fh)


def run_property(prop, module, tier, configs, explanation, assumptions, explain=None):
    t0 = time.time()
    seed = int(os.environ.get("VERIF_SEED", "0") or 0)
    rep = Report(prop, tier)
    rep.assumptions = list(assumptions)
    os.makedirs(EVID, exist_ok=True)
    ev_path = os.path.join(EVID, "%s.json" % prop)
    vio_path = os.path.join(EVID, "%s.violations.json" % prop)
    for p in (ev_path, vio_path):
        if os.path.exists(p):
            os.remove(p)
    fatal = None
    th = None
    try:
        th, dirs, timings = facts.ensure_facts(configs)
        rep.configs = list(configs)
        rep.extra["fact_generation_s"] = {k: round(v, 2) for k, v in timings.items()}
        rep.extra["tree_hash"] = th

        class Ctx:
            pass
        ctx = Ctx()
        ctx.dirs = dirs
        ctx.th = th
        ctx.tier = tier
        ctx.rep = rep
        ctx._crates = {}

        def crate(cfg, name="rcgen.lib.json"):
            k = (cfg, name)
            if k not in ctx._crates:
                ctx._crates[k] = facts.load(dirs, cfg, name, expect_hash=th)
            return ctx._crates[k]
        ctx.crate = crate
        # enum universes for exhaustive one-hot reasoning
        import formula as _F
        _F.ENUMS[:] = [{"Ok", "Err"}, {"V4", "V6"}]
        try:
            for cfg in configs:
                for fname in facts.CONFIGS[cfg][1]:
                    cr = crate(cfg, fname)
                    for a in cr.adts.values():
                        if a.get("kind") == "Enum":
                            s = {v["name"] for v in a["variants"]}
                            if s not in _F.ENUMS:
                                _F.ENUMS.append(s)
        except facts.FactError:
            raise
        module.run(ctx)
    except facts.FactError as e:
        fatal = "fact generation failed: %s" % e
    except Exception as e:  # fail closed: an analysis crash is never a pass
        fatal = "checker error: %s\n%s" % (e, traceback.format_exc())
    if fatal:
        rep.fail("%s.internal" % prop, "fail-closed", fatal)

    if tier == "thorough" and not os.environ.get("VERIF_NO_LIVENESS") and not fatal:
        try:
            rep.extra["liveness"] = liveness(prop)
        except Exception as e:  # liveness is evidence only, never a verdict
            rep.extra["liveness"] = {"error": str(e)}
    known = load_known()
    known_keys = {f["key"]: f for f in known.get("findings", []) if f.get("property") == prop}
    failing = [o for o in rep.obligations if not o["ok"]]
    new = [o for o in failing if o["key"] not in known_keys]
    matched = [o for o in failing if o["key"] in known_keys]
    printed = set()
    for o in matched:
        if o["key"] in printed:
            continue
        printed.add(o["key"])
        print("KNOWN-FINDING: property=%s %s %s" % (prop, o["key"], known_keys[o["key"]].get("what", o["detail"]).replace("\n", " ")))
    stale = [k for k in known_keys if k not in {o["key"] for o in failing}]

    rules = {}
    for o in rep.obligations:
        r = rules.setdefault(o["rule"], {"instances": 0, "passed": 0})
        r["instances"] += 1
        r["passed"] += 1 if o["ok"] else 0
    n_ob = len(rep.obligations)
    n_ok = sum(1 for o in rep.obligations if o["ok"])
    distinct = len({o["key"] for o in rep.obligations})
    evidence = {
        "property_id": prop,
        "tier": tier,
        "seed": seed,
        "level": "other",
        "coverage": {
            "explanation": explanation,
            "obligations": n_ob,
            "discharged": n_ok,
            "evaluations": max(n_ob, 1),
            "distinct_nontrivial": max(distinct, 2) if distinct >= 2 else distinct,
            "rule": "one obligation per rule instance (site, table row, formula, schema node) found in the analysed functions; distinct = distinct instance keys",
            "rules": rules,
            "floors": rep.floors,
            "configs_analysed": rep.configs,
            "functions_analysed": sorted(rep.functions),
            "samples": rep.samples if rep.samples else [{"note": "no samples recorded"}],
            "known_findings_matched": [o["key"] for o in matched],
            "known_findings_not_reproduced": stale,
            "notes": rep.notes,
            "checker_cmd": "./check %s --tier %s" % (prop, tier),
            "exhaustive": False,
            **rep.extra,
        },
        "assumptions": rep.assumptions,
        "wall_s": round(time.time() - t0, 3),
        "violations": len(new),
    }
    with open(ev_path, "w") as fh:
        json.dump(evidence, fh, indent=1, default=str)
    if new:
        with open(vio_path, "w") as fh:
            json.dump({"property": prop, "tree_hash": th, "violations": new}, fh, indent=1, default=str)
        for o in new[:25]:
            print("  violated %s  at %s\n    %s" % (o["key"], o.get("sp"), str(o["detail"]).replace("\n", "\n    ")))
        print("VIOLATION property=%s replay=%s" % (prop, vio_path))
        return 1
    print("%s: %d/%d rule instances hold (%d rules, configs %s, %.1fs)%s" % (
        prop, n_ok, n_ob, len(rules), ",".join(rep.configs), time.time() - t0,
        "; %d known finding(s)" % len(matched) if matched else ""))
    return 0


def liveness(prop):
    """Rule-liveness pass (thorough tier, evidence only): every one-site mutation / seeded change mapped to this
    property is applied to a scratch copy of the *current* tree and the quick check is re-run against that copy; the
    rule set must fire.  Never affects the exit code; a patch that no longer applies is recorded as skipped."""
    import shutil
    import subprocess
    import tempfile
    with open(os.path.join(VERIF, "selftest", "liveness.json")) as fh:
        table = json.load(fh)
    mine = sorted(p for p, props in table.items() if prop in props)
    out = {}
    if not mine:
        return out
    scratch = tempfile.mkdtemp(prefix="rcgen-liveness-")
    evdir = tempfile.mkdtemp(prefix="rcgen-liveness-ev-")
    try:
        subprocess.run(["rsync", "-a", "--exclude", "target", "--exclude", ".git", facts.REPO + "/", scratch + "/"], check=True)
        env = dict(os.environ, RCGEN_REPO=scratch, VERIF_EVIDENCE_DIR=evdir, VERIF_NO_LIVENESS="1")
        for pth in mine:
            full = os.path.join(VERIF, pth)
            a = subprocess.run(["patch", "-p1", "-s", "-f", "-i", full], cwd=scratch, capture_output=True, text=True)
            if a.returncode != 0:
                subprocess.run(["patch", "-p1", "-R", "-s", "-f", "-i", full], cwd=scratch, capture_output=True)
                subprocess.run(["rsync", "-a", "--delete", "--exclude", "target", "--exclude", ".git", facts.REPO + "/", scratch + "/"], check=True)
                out[pth] = "skipped (patch does not apply to the current tree)"
                continue
            r = subprocess.run([os.path.join(VERIF, "check"), prop, "--tier", "quick"], cwd=VERIF, env=env, capture_output=True, text=True)
            fired = r.returncode == 1 and "VIOLATION property=%s" % prop in r.stdout
            keys = [l.strip().split("  at ")[0].replace("violated ", "") for l in r.stdout.splitlines() if l.strip().startswith("violated")][:3]
            out[pth] = {"fired": fired, "first_keys": keys}
            if not fired:
                print("LIVENESS-WARNING: %s did not fire on %s" % (prop, pth))
            subprocess.run(["patch", "-p1", "-R", "-s", "-f", "-i", full], cwd=scratch, capture_output=True)
    finally:
        shutil.rmtree(scratch, ignore_errors=True)
        shutil.rmtree(evdir, ignore_errors=True)
    return out


def explain(path):
    with open(path) as fh:
        d = json.load(fh)
    print("property %s, tree %s" % (d["property"], d.get("tree_hash")))
    for o in d["violations"]:
        print("- %s\n    at: %s\n    %s" % (o["key"], o.get("sp"), str(o["detail"]).replace("\n", "\n    ")))
        if o.get("expected") is not None:
            print("    expected: %s\n    found:    %s" % (o["expected"], o["found"]))
