"""C03 - issued certificates chain to their issuer, including imported CAs."""
import formula as F
import schema as S
import refs as R
import common
from common import CERT_FN, CRL_FN
from interp import core, places, calls_of, roots, Interp, CallV, PhiV, StructV, Via, MutV

PROP = "C03"
CONFIGS_QUICK = ["K1", "K2"]
CONFIGS_THOROUGH = ["K1", "K2", "K3", "K0"]
EXPLANATION = (
    "Static: each issuing entry point (CertificateParams::signed_by, CSR params signed_by, CRL params signed_by, self_signed) is abstractly "
    "interpreted *through* the Issuer view into the certificate tree, so leaves are expressed in terms of the entry point's own parameters. "
    "Rules: the issuer view takes name / key-id method / key usages from the issuer certificate's params and the signing key from the "
    "issuer_key argument, identically in all three signed_by (sibling agreement); the issuer Name is write_distinguished_name applied to "
    "issuer.params.distinguished_name and the subject Name the same function applied to the subject params (so issuer(child) and "
    "subject(issuer certificate) are the same function of the same value); every RDN SET in any artefact is written by that one function; "
    "the AKI is the issuer's pre-specified identifier or the issuer's method applied to the issuer key's SPKI - never anything of the "
    "subject; CA import captures the SubjectKeyIdentifier as PreSpecified, maps each string tag to the DnValue variant the writer writes "
    "back under the same tag, rejects multi-attribute RDNs, and must refuse a repeated attribute type because names are rebuilt through an "
    "upsert (push) - otherwise the imported issuer name is silently shorter than the certificate's subject. Validators' verdicts are not decided.")
ASSUMPTIONS = ["path validators (OpenSSL, webpki) are not analysed", "x509-parser returns the attributes of a Name in encoding order"]

ENTRIES = {
    "certificate::CertificateParams::signed_by": ("issuer.params", "issuer_key", "self"),
    "csr::CertificateSigningRequestParams::signed_by": ("issuer.params", "issuer_key", "self.params"),
    "certificate::CertificateParams::self_signed": ("self", "key_pair", "self"),
}
CRL_ENTRY = "crl::CertificateRevocationListParams::signed_by"
NAME_WRITER = "write_distinguished_name"


def aki_check(v, ipar, ikey):
    pl = places(v)
    bad = [p for p in pl if not (p.startswith(ipar + ".key_identifier_method") or p == ikey or p.startswith(ikey + "."))]
    if bad:
        return "authority key identifier depends on %s; it must come from the issuer only (%s.key_identifier_method / %s)" % (sorted(bad), ipar, ikey)
    v0 = core(v)
    alts = v0.alts if isinstance(v0, PhiV) else [(True, v0)]
    kinds = set()
    for c, x in alts:
        xs = core(x)
        if isinstance(xs, CallV):
            if not xs.callee.endswith("KeyIdMethod::derive"):
                return "derived through %s" % xs.callee
            if places(xs.args[0]) != {ipar + ".key_identifier_method"}:
                return "derive() applied to %s instead of the issuer's method" % sorted(places(xs.args[0]))
            if places(xs.args[1]) != {ikey} or not any(k.endswith(("public_key_der", "serialize_public_key_der")) for k in calls_of(xs.args[1])):
                return "derive() input is %s, not the issuer key's SubjectPublicKeyInfo" % sorted(places(xs.args[1]))
            kinds.add("derive")
        else:
            if places(x) != {ipar + ".key_identifier_method#PreSpecified.0"}:
                return "pre-specified arm writes %s" % sorted(places(x))
            kinds.add("pre")
    return None


def names_in(art):
    """(node, cond, place-set) of Name SEQUENCEs: SEQUENCE containing a Rep of SET."""
    out = []
    for n, p, c, r in S.walk(art.tbs):
        if n["t"] == "Seq":
            kids = S.flatten(n["c"])
            if kids and all(k[2]["t"] == "Set" and k[1] for k in kids):
                pl = set()
                for k in kids:
                    pl |= places(k[1][-1])
                out.append((n, c, r, pl))
    return out


def _artefact_der(I, fn, adt):
    for sv, node, f, c in I.structs:
        if f == fn and (sv.adt or "").endswith(adt) and "der" in sv.fields:
            return common.find_der(sv.fields["der"])
    return None


def check_entry(cfg, crate, fn, spec, rep):
    ipar, ikey, spar = spec
    rep.fn(fn)
    key = "%s|%s" % (cfg, fn)
    I = Interp(crate, inline_always={CERT_FN, CRL_FN})
    out = I.run_fn(fn)
    # issuer view literal
    lits = [(sv, node) for sv, node, f, c in I.structs if (sv.adt or "").endswith("Issuer") and f == fn]
    rep.ob("C03.view", key + "|one-view", len(lits) == 1, "one Issuer view is built", found=len(lits))
    if lits:
        sv, node = lits[0]
        want = {"distinguished_name": ipar + ".distinguished_name", "key_identifier_method": ipar + ".key_identifier_method", "key_usages": ipar + ".key_usages", "key_pair": ikey}
        for f_, w in want.items():
            got = core(sv.fields.get(f_)).r() if f_ in sv.fields else None
            rep.ob("C03.view", key + "|" + f_, got == w, "issuer view field `%s` is taken from the issuer (certificate's params / issuer key)" % f_, expected=w, found=got, sp=node.get("sp"))
        rep.ob("C03.view", key + "|fields", set(sv.fields) == set(want), "issuer view has exactly the audited fields", found=sorted(sv.fields))
    d = _artefact_der(I, fn, "certificate::Certificate")
    if d is None:
        rep.fail("C03.name", key + "|tree", "no certificate tree produced")
        return None
    outer = S.norm(d.items)
    tbs = outer[0]["c"][0].get("inner") if outer and outer[0]["t"] == "Seq" and outer[0]["c"] and outer[0]["c"][0]["t"] == "Raw" else None
    if not tbs:
        rep.fail("C03.name", key + "|tbs", "no TBSCertificate")
        return None

    class A:
        pass
    art = A()
    art.tbs, art.I = tbs, I
    nm = [x for x in names_in(art) if not x[2]]  # top-level names (not inside repetitions such as name constraints)
    top = [x for x in nm if x[1] is True]
    ok = len(top) == 2 and top[0][3] == {ipar + ".distinguished_name"} and top[1][3] == {spar + ".distinguished_name"}
    rep.ob("C03.name", key + "|issuer-then-subject", ok, "issuer Name is the issuer certificate's subject value and precedes the subject Name", expected=[ipar + ".distinguished_name", spar + ".distinguished_name"], found=[sorted(x[3]) for x in top])
    for n, c, r, pl in top:
        rep.ob("C03.name", key + "|writer|" + "+".join(sorted(pl)), n.get("fn") == NAME_WRITER, "the Name is written by the single Name writer", found=n.get("fn"), sp=n.get("sp"))
    # AKI
    akis = []
    for n, p, c, r in S.walk(tbs):
        if n["t"] == "Seq" and n["c"] and S.oid_key(I, n) == "oid:2.5.29.35":
            for k, pp, cc, rr in S.walk(n["c"]):
                if k["t"] == "Prim" and k["kind"] == "OCTET STRING" and "inner" not in k:
                    akis.append((k, c))
    rep.ob("C03.aki", key + "|site", len(akis) == 1, "one authority key identifier site", found=len(akis))
    for k, c in akis:
        e = aki_check(k["args"][0], ipar, ikey)
        rep.ob("C03.aki", key + "|value", e is None, e or "AKI = issuer's pre-specified id, else issuer's method over the issuer key's SPKI", found=core(k["args"][0]).r()[:300], sp=k.get("sp"))
        rep.sample({"rule": "C03.aki", "cfg": cfg, "fn": fn, "value": core(k["args"][0]).r()[:300]})
    return I


def check_crl(cfg, crate, rep):
    fn = CRL_ENTRY
    rep.fn(fn)
    key = "%s|%s" % (cfg, fn)
    I = Interp(crate, inline_always={CERT_FN, CRL_FN})
    out = I.run_fn(fn)
    lits = [(sv, node) for sv, node, f, c in I.structs if (sv.adt or "").endswith("Issuer") and f == fn]
    if len(lits) == 1:
        sv, node = lits[0]
        want = {"distinguished_name": "issuer.params.distinguished_name", "key_identifier_method": "issuer.params.key_identifier_method", "key_usages": "issuer.params.key_usages", "key_pair": "issuer_key"}
        for f_, w in want.items():
            got = core(sv.fields.get(f_)).r() if f_ in sv.fields else None
            rep.ob("C03.view", key + "|" + f_, got == w, "issuer view field `%s`" % f_, expected=w, found=got, sp=node.get("sp"))
    else:
        rep.fail("C03.view", key + "|one-view", "expected one Issuer view", found=len(lits))
    d = _artefact_der(I, fn, "crl::CertificateRevocationList")
    tbs = None
    if d is not None:
        outer = S.norm(d.items)
        if outer and outer[0]["t"] == "Seq" and outer[0]["c"] and outer[0]["c"][0]["t"] == "Raw":
            tbs = outer[0]["c"][0].get("inner")
    if not tbs:
        rep.fail("C03.name", key + "|tbs", "no TBSCertList")
        return

    class A:
        pass
    art = A()
    art.tbs, art.I = tbs, I
    top = [x for x in names_in(art) if not x[2] and x[1] is True]
    rep.ob("C03.name", key + "|issuer", len(top) == 1 and top[0][3] == {"issuer.params.distinguished_name"} and top[0][0].get("fn") == NAME_WRITER, "CRL issuer Name is the issuer certificate's subject value, written by the Name writer", found=[sorted(x[3]) for x in top])


def check_name_writer(cfg, crate, rep):
    """Every RDN SET in any artefact is written by write_distinguished_name."""
    n_sets = 0
    for fn in (CERT_FN, common.CSR_FN, CRL_FN):
        art = common.artefact(crate, fn)
        for n, p, c, r in S.walk(art.tbs):
            if n["t"] == "Set":
                n_sets += 1
                if n.get("fn") != NAME_WRITER and fn == common.CSR_FN and n.get("fn", "").endswith("write_extension_request_attribute"):
                    continue  # the extensionRequest attribute's value SET, not an RDN
                rep.ob("C03.name", "%s|%s|set-writer|%s" % (cfg, fn, n.get("fn")), n.get("fn") == NAME_WRITER, "RDN SETs are written only by the Name writer", found=n.get("fn"), sp=n.get("sp"))
    rep.floor("C03.name", "RDN SET sites (%s)" % cfg, n_sets, 6)


def check_import(cfg, crate, rep):
    fn = "certificate::CertificateParams::from_ca_cert_der"
    if fn not in crate.bodies:
        return
    rep.fn(fn, "DistinguishedName::from_name")
    key = "%s|%s" % (cfg, fn)
    I = Interp(crate)
    out = I.run_fn(fn)
    lits = [(sv, node) for sv, node, f, c in I.structs if (sv.adt or "").endswith("CertificateParams") and f == fn]
    rep.ob("C03.import", key + "|literal", len(lits) == 1, "one CertificateParams literal", found=len(lits))
    if lits:
        sv, node = lits[0]
        kim = sv.fields.get("key_identifier_method")
        txt = core(kim).r() if kim is not None else ""
        ok = kim is not None and "PreSpecified" in txt and "SubjectKeyIdentifier" in txt
        rep.ob("C03.import", key + "|ski-captured", ok, "the CA certificate's SubjectKeyIdentifier is captured as KeyIdMethod::PreSpecified", found=txt[:300], sp=node.get("sp"))
        # only the SubjectKeyIdentifier extension may be captured: the value stored in key_identifier_method may
        # select the payload of that ParsedExtension variant and of no other (semantic: variant selectors among the
        # value's provenance roots, whatever the shape of the search -- match arm, if-let, helper function)
        sels = sorted(r[len("sel:#"):] for r in roots(kim) if r.startswith("sel:#")) if kim is not None else []
        want_sels = ["SubjectKeyIdentifier.0"]
        rep.ob("C03.import", key + "|only-ski-captured", sels == want_sels, "the captured key identifier comes from the SubjectKeyIdentifier extension and from nothing else (an authority key identifier is the *parent's* id)", expected=want_sels, found=sels, sp=node.get("sp"))
        dn = sv.fields.get("distinguished_name")
        okd = dn is not None and any(c.endswith("DistinguishedName::from_name") for c in calls_of(dn)) and {"sel:.subject", "sel:.tbs_certificate"} <= roots(dn) and places(dn) == {"ca_cert"}
        rep.ob("C03.import", key + "|subject", okd, "the issuer name is rebuilt from the certificate's subject", found=core(dn).r()[:200] if dn is not None else None)
    # from_name: tag table, single-attribute RDNs, lossless
    fn2 = "DistinguishedName::from_name"
    key2 = "%s|%s" % (cfg, fn2)
    I2 = Interp(crate)
    I2.run_fn(fn2)
    pushes = [(t, k, payload, n, f, cond) for t, k, payload, n, f, cond in I2.muts if k == "method:DistinguishedName::push" and f == fn2]
    rep.ob("C03.import", key2 + "|push-site", len(pushes) == 1, "attributes are added through DistinguishedName::push (one site)", found=len(pushes))
    if pushes:
        t, k, payload, n, f, cond = pushes[0]
        val = core(payload[1])
        tab = {}
        if isinstance(val, PhiV):
            for c, x in val.alts:
                tags = [a[2].split("::")[-1] for a in F.atoms(c) if a[0] == "eq" and "Tag::" in str(a[2]) and F.evalf(c, {b: (b == a) for b in F.atoms(c)})]
                xs = core(x)
                if isinstance(xs, StructV) and xs.variant and len(tags) == 1:
                    tab[tags[0]] = xs.variant.split("::")[-1]
        want = {"BmpString": "BmpString", "Ia5String": "Ia5String", "PrintableString": "PrintableString", "T61String": "TeletexString", "UniversalString": "UniversalString", "Utf8String": "Utf8String"}
        rep.ob("C03.import", key2 + "|tag-table", tab == want, "each string tag is imported as the DnValue variant the Name writer writes back under the same tag", expected=want, found=tab, sp=n.get("sp"))
        # the UTF-8 decoding of the value's bytes is a precondition of the string kinds whose transfer encoding *is* (a subset
        # of) UTF-8 only: a BMPString / UniversalString value is UTF-16BE / UTF-32BE and must reach its own decoder whatever
        # `from_utf8` thinks of the bytes (otherwise names rcgen itself writes, "Société" as BMPString, cannot be re-imported)
        utf8_kinds = {"Ia5String", "PrintableString", "T61String", "Utf8String"}
        bad_u = []
        n_u = 0
        for tv, tn, tf, tc in I2.tries:
            # the `?` that is applied to the decoder's own result (through map_err / or / ok_or adaptors), wherever it is
            # written (in the arm, in a helper) -- not a `?` on an aggregate that merely contains such a call
            v_ = core(tv)
            from interp import OKNESS_PRESERVING
            while isinstance(v_, CallV) and v_.callee in OKNESS_PRESERVING and v_.args:
                v_ = core(v_.args[0])
            if not (isinstance(v_, CallV) and v_.callee.endswith(("str::from_utf8", "String::from_utf8"))):
                continue
            n_u += 1
            ats_ = [a for a in F.atoms(tc) if a[0] == "eq" and "Tag::" in str(a[2])]
            pos_ = {a[2].split("::")[-1] for a in ats_ if len(ats_) <= 12 and not F.counterexamples(tc, ("atom", a), "implies")}
            if not pos_ or not pos_ <= utf8_kinds:
                bad_u.append(F.show(tc)[-160:])
        rep.ob("C03.import", key2 + "|utf8-decode-only-for-utf8-kinds", n_u >= 1 and not bad_u, "the value's bytes are required to be UTF-8 only under the tags whose encoding is UTF-8 / ASCII (never for BMPString / UniversalString)", found=bad_u or n_u)
        # the imported value is the decoded text itself: no std operation that alters or drops text (trimming, case folding,
        # lossy decoding, replacing, splitting, truncating) takes part in computing the value that is stored
        ALTERING = ("::trim", "::trim_start", "::trim_end", "::trim_matches", "::trim_start_matches", "::trim_end_matches", "::to_lowercase", "::to_uppercase",
                    "::to_ascii_lowercase", "::to_ascii_uppercase", "::make_ascii_lowercase", "::make_ascii_uppercase", "::from_utf8_lossy", "::replace", "::replacen",
                    "::strip_prefix", "::strip_suffix", "::split", "::split_once", "::rsplit", "::split_whitespace", "::truncate", "::escape_default", "::escape_debug",
                    "::lines", "::repeat", "::retain", "::drain", "::pop", "::remove")
        alt_ = sorted({c_ for c_ in calls_of(payload[1]) if c_.endswith(ALTERING) and c_.startswith(("core::str", "std::str", "alloc::str", "std::string", "alloc::string", "core::slice", "std::vec", "alloc::vec", "core::char", "std::char"))})
        rep.ob("C03.import", key2 + "|value-unaltered", not alt_, "the imported attribute value is the decoded text as it stands (no trimming, case folding, lossy decoding, replacing or truncating on the way)", found=alt_, sp=n.get("sp"))
        # lossless: push is an upsert; a dominating duplicate check must leave with Err
        dup = [(c, v, nn) for c, v, nn, f3 in I2.fails if f3 == fn2 and any(("DistinguishedName::get" in F.show_atom(a) or "contains_key" in F.show_atom(a) or "contains(" in F.show_atom(a)) for a in F.atoms(c))]
        rep.ob("C03.lossless", key2 + "|duplicate-attribute-type", len(dup) >= 1,
               "names are imported by upserting into a type-keyed map (DistinguishedName::push): a subject with a repeated attribute type (DC=com,DC=example or several OUs) is silently collapsed, so certificates issued from the imported CA carry an issuer name different from the CA's subject; the import must fail instead (no duplicate-type refusal dominates the push)",
               expected="a `return Err(..)` guarded by dn.get(&ty).is_some() / contains_key before push", found="no duplicate check", sp=n.get("sp"))
    # Cardinality model of one RDN: n = number of attributes in it. Whatever the spelling -- successive `next()` calls on
    # the RDN's iterator (k-th `next()` is Some iff n >= k), "the RDN is (not) empty", a `count()` / `len()` of the RDN
    # compared with a constant, up front over all RDNs (`any`) or inside the loop -- the shape refusals are evaluated
    # for n = 1, 2, 3: refused for 2 and 3, not refused (for its shape) for 1.
    import re as _re2
    fconds = [I2.expand(common.concretise(I2, c)) for c, v, nn, f3 in I2.fails if f3 == fn2]
    fconds = [common.concretise(I2, c) for c in fconds]
    all_atoms = {a for c in fconds for a in F.atoms(c)}
    nexts = sorted({a for a in all_atoms if a[0] == "some" and a[1].split("(")[0].endswith("Iterator>::next")}, key=lambda a: len(a[1]))
    empties = sorted({a for a in all_atoms if a[0] == "empty" and "[]" in a[1]}, key=lambda a: len(a[1]))
    shape = {}
    k0 = 1
    for a in empties[:1]:
        shape[a] = lambda n: n == 0
        k0 = 2          # the first `next()` of the fresh iterator over the RDN was rendered as "the RDN is not empty"
    for i_, a in enumerate(nexts):
        shape[a] = (lambda k: (lambda n: n >= k))(k0 + i_)
    _cnt = _re2.compile(r"(?:Iterator>::count|::len)\(.*\[\]")
    _ops = {"<": lambda x, y: x < y, "<=": lambda x, y: x <= y, ">": lambda x, y: x > y, ">=": lambda x, y: x >= y, "==": lambda x, y: x == y, "!=": lambda x, y: x != y}
    def _used(t_):
        # `count()` of an iterator that already yielded j items (j earlier `next()` calls on it) is n - j
        return t_.count("call next")
    for a in all_atoms:
        if a[0] == "eq":
            l_, r_ = str(a[1]), str(a[2])
            if _cnt.search(l_) and r_.isdigit():
                shape[a] = (lambda k, j: (lambda n: max(n - j, 0) == k))(int(r_), _used(l_))
            elif _cnt.search(r_) and l_.isdigit():
                shape[a] = (lambda k, j: (lambda n: max(n - j, 0) == k))(int(l_), _used(r_))
        elif a[0] == "cmp" and a[1] in _ops:
            l_, r_ = str(a[2]), str(a[3])
            if _cnt.search(l_) and r_.isdigit():
                shape[a] = (lambda op, k, j: (lambda n: _ops[op](max(n - j, 0), k)))(a[1], int(r_), _used(l_))
            elif _cnt.search(r_) and l_.isdigit():
                shape[a] = (lambda op, k, j: (lambda n: _ops[op](k, max(n - j, 0))))(a[1], int(l_), _used(r_))

    def residual(n):
        """the disjunction of all refusal conditions for an RDN with n attributes, as a formula over the other tests"""
        parts = []
        for c in fconds:
            asg = {a: fn_(n) for a, fn_ in shape.items()}
            for a in F.atoms(c):
                if a[0] == "opaque" and str(a[1]).startswith("in-loop@"):
                    asg[a] = True
            parts.append(S.pe_formula(c, asg))
        return F.Or(*parts)

    def always(n):
        return residual(n) is True

    def sometimes_accepted(n):
        r_ = residual(n)
        if r_ is True:
            return False
        if r_ is False:
            return True
        al = F.atoms(r_)
        if len(al) <= 14:
            import itertools as _it
            return any(not F.evalf(r_, dict(zip(al, bits))) for bits in _it.product([False, True], repeat=len(al)))
        cands = [{a: False for a in al}] + [{a: (a == b) for a in al} for b in al] + [{a: (a in (b, c)) for a in al} for b in al for c in al]
        return any(not F.evalf(r_, asg) for asg in cands)
    multi_ok = bool(shape) and always(2) and always(3) and sometimes_accepted(1)
    found_m = "no refusal depends on the number of attributes of an RDN" if not shape else "always refused with 2 / 3 attributes: %s / %s; a single-attribute RDN can be accepted: %s" % (always(2), always(3), sometimes_accepted(1))
    rep.ob("C03.import", key2 + "|multi-valued-rdn-refused", multi_ok, "an RDN with more than one attribute is always refused, and one with exactly one attribute is not refused for its shape", found=found_m)
    other = [c for c, v, nn, f3 in I2.fails if f3 == fn2 and sum(1 for a in F.atoms(c) if a[0] == "eq" and "Tag::" in str(a[2])) >= 6]
    rep.ob("C03.import", key2 + "|unknown-tag-refused", len(other) >= 1, "an attribute value with any other tag is refused", found=len(other))


def run(ctx):
    rep = ctx.rep
    for cfg in (CONFIGS_QUICK if ctx.tier == "quick" else CONFIGS_THOROUGH):
        crate = ctx.crate(cfg)
        views = {}
        for fn, spec in ENTRIES.items():
            check_entry(cfg, crate, fn, spec, rep)
        check_crl(cfg, crate, rep)
        check_name_writer(cfg, crate, rep)
        if cfg in ("K1", "K2"):
            check_import(cfg, crate, rep)
            # the key identifier of a certificate issued for a parsed SubjectPublicKeyInfo is the hash of the SPKI that
            # is *re-serialised from the recognised algorithm*: recognising the complete identifier (OID and
            # parameters, i.e. the curve) is a necessary condition of SKI(issuer cert) == AKI(child)
            import c11
            common.borrow_rules(rep, lambda: c11.check_spki(cfg, crate, rep), "C11.", "C03.spki")
        if cfg in ("K1", "K2"):
            # an imported name is re-emitted under the attribute types `from_oid` chose: it must invert `to_oid`
            import c02 as _c02
            n0_ = len(rep.obligations)
            _c02.check_tables(cfg, crate, rep)
            keep_ = [o for o in rep.obligations[n0_:] if "DnType::" in o["key"]]
            del rep.obligations[n0_:]
            for o in keep_:
                o["key"] = o["key"].replace("C02.tables", "C03.import", 1)
                o["rule"] = "C03.import"
            rep.obligations.extend(keep_)
        if cfg == "K1":
            # "issuer name byte-identical to the issuer certificate's subject name" for an imported CA: a string
            # wrapper re-emits exactly the bytes it was decoded from only while its alphabet is the one whose UTF-8
            # spelling coincides with the DER contents (ASCII subsets; BMP/Universal by their own codecs)
            import c13
            common.borrow_rules(rep, lambda: (c13.alpha(cfg, crate, rep), c13.sink(cfg, crate, rep)), "C13.", "C03.strings")
        # SKI(issuer certificate) and AKI(child) are the same function of the same inputs only if KeyIdMethod::derive
        # returns pre-specified identifiers unchanged and truncates hashes alike
        import c02
        common.borrow_rules(rep, lambda: c02.check_derive(cfg, crate, rep), "C02.", "C03.derive")
