"""Exhaustive constant propagation over finite domains (analysis L).

A small evaluator for the *pure value fragment* of the type-checked HIR exported by the driver: integers with their
declared widths (overflow / oversized shift / division by zero / out-of-bounds index are reported as `Panic`, exactly
the conditions rustc's debug asserts test), booleans, tuples, arrays / slices / Vec, enum variants and struct
literals, Option / Result, closures handed to the std iterator adaptors, calls of other local functions and the
handful of std integer / slice methods rcgen's table functions use.

It is used by rules that need the *extension* of a table function (`KeyUsagePurpose::to_u16` for every variant,
`CidrSubnet::from_v4_prefix` for every u8, a per-byte predicate for every byte) or the truth of an arithmetic
side-condition for every value of its finite-typed free variables (C10: `1 << (15 - n)` cannot overflow for any
n the callee can return).  Anything outside the fragment raises `Unsupported` and the calling rule fails closed.
Nothing of rcgen is compiled or executed; the evaluator folds constants through the HIR of the analysed tree."""
import re


class Panic(Exception):
    pass


class Unsupported(Exception):
    pass


class _Return(Exception):
    def __init__(self, v):
        self.v = v


class _Break(Exception):
    def __init__(self, v=None):
        self.v = v


class _Continue(Exception):
    pass


class Adt:
    """enum variant / struct value"""
    __slots__ = ("adt", "variant", "fields")

    def __init__(self, adt, variant, fields=None):
        self.adt = adt
        self.variant = variant
        self.fields = fields or {}

    def key(self):
        return (self.variant or self.adt, tuple(sorted((k, _key(v)) for k, v in self.fields.items())))

    def __eq__(self, o):
        return isinstance(o, Adt) and self.key() == o.key()

    def __hash__(self):
        return hash(self.key())

    def __repr__(self):
        nm = (self.variant or self.adt or "?").split("::")[-1]
        if not self.fields:
            return nm
        return "%s(%s)" % (nm, ", ".join("%s" % (v,) if k.isdigit() else "%s: %s" % (k, v) for k, v in self.fields.items()))


def _key(v):
    if isinstance(v, (Adt, RStr)):
        return v.key()
    if isinstance(v, list):
        return tuple(_key(x) for x in v)
    if isinstance(v, tuple):
        return tuple(_key(x) for x in v)
    return v


class RStr:
    """a Rust String / &str given by its bytes (not necessarily valid UTF-8: per-byte predicates are probed with every
    single byte value)"""
    __slots__ = ("b",)

    def __init__(self, b):
        self.b = list(b)

    def key(self):
        return ("str", tuple(self.b))

    def __repr__(self):
        return "str%r" % (bytes(self.b),)


class Opaque:
    """a value the evaluator does not model (a DER writer): calls on it have no value, closures handed to such calls
    are run, and calls whose name matches `Eval.capture` are recorded with their evaluated arguments"""

    def __repr__(self):
        return "<opaque>"

    def key(self):
        return ("opaque", id(self))


OPAQUE = Opaque()


class Closure:
    def __init__(self, node, env):
        self.node = node
        self.env = env


class FnItem:
    def __init__(self, path):
        self.path = path


def Some(x):
    return Adt("std::option::Option", "Some", {"0": x})


NONE = Adt("std::option::Option", "None")


def Ok(x):
    return Adt("std::result::Result", "Ok", {"0": x})


def Err(x):
    return Adt("std::result::Result", "Err", {"0": x})


_INT = re.compile(r"^&*(?:mut )?([ui])(8|16|32|64|128|size)$")


def int_ty(ty):
    m = _INT.match(ty or "")
    if not m:
        return None
    bits = 64 if m.group(2) == "size" else int(m.group(2))
    return (m.group(1) == "i", bits)


def _range_of(t):
    signed, bits = t
    return (-(1 << (bits - 1)), (1 << (bits - 1)) - 1) if signed else (0, (1 << bits) - 1)


def wrap(v, t):
    signed, bits = t
    v &= (1 << bits) - 1
    if signed and v >> (bits - 1):
        v -= 1 << bits
    return v


def short(name):
    return (name or "").split("::")[-1]


class Eval:
    def __init__(self, crate, budget=2_000_000):
        self.crate = crate
        self.budget = budget
        self.depth = 0
        self._consts = {}
        self.capture = None       # suffix of a callee whose evaluated arguments are recorded in self.captured
        self.captured = []

    # -- entry points -----------------------------------------------------------------------------------------------
    def call(self, fn, args, node=None):
        body = self.crate.bodies.get(fn)
        if body is None or "hir" not in body:
            raise Unsupported("no body for %s" % fn)
        if self.depth > 60:
            raise Unsupported("recursion too deep at %s" % fn)
        env = {}
        for p, a in zip(body.get("params", []), args):
            if not self.bind(p, a, env):
                raise Unsupported("parameter pattern of %s does not match" % fn)
        # generic parameters of the callee -> what this call passes for them (as in interp.call_body)
        gen_, ta_ = body.get("generics"), (node or {}).get("targs")
        if not hasattr(self, "tsubst"):
            self.tsubst = []
        if gen_ and ta_ and len(gen_) == len(ta_):
            self.tsubst.append({g_: self._subst_ty(t_) for g_, t_ in zip(gen_, ta_) if not g_.startswith("'")})
        else:
            self.tsubst.append({})
        self.depth += 1
        try:
            return self.ev(body["hir"], env)
        except _Return as r:
            return r.v
        finally:
            self.depth -= 1
            self.tsubst.pop()

    def _subst_ty(self, ty):
        import re
        if not ty or not getattr(self, "tsubst", None) or not self.tsubst[-1]:
            return ty
        m = self.tsubst[-1]
        return re.sub(r"(?<![\w:])(Self|[A-Z]\w*)(?![\w:])", lambda mo: m.get(mo.group(0), mo.group(0)), ty)

    def _resolve_trait_item(self, item, n):
        """`Trait::item` named through a generic parameter of the function being evaluated: the impl item the current
        substitution selects (None when there is none)."""
        import re
        if not item or item.startswith("<") or not getattr(self, "tsubst", None) or not n:
            return None
        tr_path, _, leaf = item.rpartition("::")
        if tr_path not in self.crate.trait_paths():
            return None
        ta = n.get("targs")
        t0 = ta[0] if ta else ((n.get("recv") or {}).get("aty") or (n.get("recv") or {}).get("ty"))
        if not t0:
            return None
        c = re.sub(r"<.*$", "", self._subst_ty(t0).lstrip("&").replace("mut ", "").strip())
        if not c:
            return None
        for k in self.crate.bodies:
            if k.startswith("<" + c) and k.endswith(" as " + tr_path + ">::" + leaf):
                return k
        return None

    def const(self, path):
        if path in self._consts:
            return self._consts[path]
        body = self.crate.bodies.get(path)
        if body is None or "hir" not in body:
            raise Unsupported("constant %s has no initialiser here" % path)
        try:
            v = self.ev(body["hir"], {})
        except _Return as r:
            v = r.v
        self._consts[path] = v
        return v

    # -- expressions ------------------------------------------------------------------------------------------------
    def ev(self, n, env):
        self.budget -= 1
        if self.budget < 0:
            raise Unsupported("evaluation budget exhausted")
        m = getattr(self, "e_" + n["k"], None)
        if m is None:
            raise Unsupported("expression kind %s" % n["k"])
        return m(n, env)

    def e_Lit(self, n, env):
        lk = n.get("lk")
        if lk in ("int", "bool", "char", "byte"):
            return n["v"]
        if lk in ("str",):
            return n["v"]
        if lk == "bytestr":
            return list(n["v"]) if isinstance(n["v"], list) else n["v"]
        raise Unsupported("literal kind %s" % lk)

    def e_Path(self, n, env):
        res = n.get("res")
        if res == "local":
            if n["hid"] not in env:
                raise Unsupported("unbound local %s" % n.get("name"))
            return env[n["hid"]]
        dk = n.get("dk", "")
        d = n.get("def")
        if "Ctor" in dk:
            name = n.get("ctor_of") or d
            if "Variant" in dk:
                if name in ("None", "std::option::Option::None"):
                    return NONE
                return Adt(None, name)
            return Adt(name, None)
        if dk.startswith(("Const", "AssocConst", "Static")) and "Ctor" not in dk:
            c = STD_CONSTS.get(d)
            if c is not None:
                return c
            if d not in self.crate.bodies or "hir" not in self.crate.bodies[d]:
                d = self._resolve_trait_item(d, n) or d
            return self.const(d)
        if dk in ("Fn", "AssocFn"):
            if d not in self.crate.bodies:
                d = self._resolve_trait_item(d, n) or d
            return FnItem(d)
        raise Unsupported("path %s (%s)" % (d, dk))

    def e_Block(self, n, env):
        for st in n["stmts"]:
            if st["k"] == "Let":
                if st.get("init") is None:
                    for b in _bindings(st["pat"]):
                        env[b["hid"]] = None
                    continue
                v = self.ev(st["init"], env)
                if not self.bind(st["pat"], v, env):
                    if st.get("els") is not None:
                        self.ev(st["els"], env)
                        raise Unsupported("let-else fell through")
                    raise Unsupported("irrefutable let did not match")
            else:
                self.ev(st["e"], env)
        if n.get("expr") is not None:
            return self.ev(n["expr"], env)
        return ()

    def e_Tup(self, n, env):
        return tuple(self.ev(x, env) for x in n["es"])

    def e_Array(self, n, env):
        return [self.ev(x, env) for x in n["es"]]

    def e_AddrOf(self, n, env):
        return self.ev(n["e"], env)

    def e_Cast(self, n, env):
        v = self.ev(n["e"], env)
        t = int_ty(n.get("ty"))
        if isinstance(v, bool):
            v = int(v)
        if isinstance(v, Adt) and not v.fields:
            d = self.discriminant(v)
            if d is None:
                raise Unsupported("discriminant of %r" % v)
            v = d
        if t and isinstance(v, int):
            return wrap(v, t)
        if n.get("ty") == "char" and isinstance(v, int):
            return v
        raise Unsupported("cast to %s" % n.get("ty"))

    def discriminant(self, v):
        name = v.variant or ""
        enum = name.rsplit("::", 1)[0]
        a = self.crate.adts.get(enum)
        if not a:
            return None
        for var in a.get("variants", []):
            if var["name"] == name.split("::")[-1]:
                return var.get("discr")
        return None

    def e_Unary(self, n, env):
        v = self.ev(n["e"], env)
        op = n["op"]
        if op == "*":
            return v
        if op == "!":
            if isinstance(v, bool):
                return not v
            t = int_ty(n.get("ty"))
            if t and isinstance(v, int):
                return wrap(~v, t)
        if op == "-" and isinstance(v, int):
            t = int_ty(n.get("ty"))
            r = -v
            if t and not (_range_of(t)[0] <= r <= _range_of(t)[1]):
                raise Panic("attempt to negate with overflow")
            return r
        raise Unsupported("unary %s" % op)

    def e_Binary(self, n, env):
        op = n["op"]
        if op == "&&":
            return bool(self.ev(n["l"], env)) and bool(self.ev(n["r"], env))
        if op == "||":
            return bool(self.ev(n["l"], env)) or bool(self.ev(n["r"], env))
        l = self.ev(n["l"], env)
        r = self.ev(n["r"], env)
        return self.binop(op, l, r, n.get("ty"), n["l"].get("ty"))

    def binop(self, op, l, r, ty, lty):
        if op in ("==", "!="):
            eq = _key(l) == _key(r)
            return eq if op == "==" else not eq
        if op in ("<", "<=", ">", ">="):
            if isinstance(l, Adt) or isinstance(r, Adt):
                raise Unsupported("ordering of non-integers")
            return {"<": l < r, "<=": l <= r, ">": l > r, ">=": l >= r}[op]
        if isinstance(l, bool) and isinstance(r, bool) and op in ("&", "|", "^"):
            return {"&": l and r, "|": l or r, "^": l != r}[op]
        if not (isinstance(l, int) and isinstance(r, int)):
            raise Unsupported("binary %s on %r, %r" % (op, l, r))
        t = int_ty(ty) or int_ty(lty)
        if t is None:
            raise Unsupported("integer type of %s unknown (%s)" % (op, ty))
        lo, hi = _range_of(t)
        if op in ("<<", ">>"):
            if r < 0 or r >= t[1]:
                raise Panic("attempt to shift %s with overflow" % ("left" if op == "<<" else "right"))
            return wrap(l << r, t) if op == "<<" else (l >> r)
        if op in ("/", "%"):
            if r == 0:
                raise Panic("attempt to divide by zero")
            q = abs(l) // abs(r) * (1 if (l >= 0) == (r >= 0) else -1)
            res = q if op == "/" else l - q * r
            if not lo <= res <= hi:
                raise Panic("attempt to divide with overflow")
            return res
        if op in ("&", "|", "^"):
            return {"&": l & r, "|": l | r, "^": l ^ r}[op]
        res = {"+": l + r, "-": l - r, "*": l * r}.get(op)
        if res is None:
            raise Unsupported("binary %s" % op)
        if not lo <= res <= hi:
            raise Panic("attempt to %s with overflow" % {"+": "add", "-": "subtract", "*": "multiply"}[op])
        return res

    def e_If(self, n, env):
        c = self.ev(n["c"], env)
        if not isinstance(c, bool):
            raise Unsupported("non-boolean condition")
        if c:
            return self.ev(n["t"], env)
        if n.get("e") is not None:
            return self.ev(n["e"], env)
        return ()

    def e_LetCond(self, n, env):
        return self.bind(n["pat"], self.ev(n["init"], env), env)

    def e_Match(self, n, env):
        v = self.ev(n["scrut"], env)
        for a in n["arms"]:
            if self.bind(a["pat"], v, env):
                if a.get("guard") is not None and not self.ev(a["guard"], env):
                    continue
                return self.ev(a["body"], env)
        raise Unsupported("no match arm applies to %r" % (v,))

    def e_Ret(self, n, env):
        raise _Return(self.ev(n["e"], env) if n.get("e") is not None else ())

    def e_Break(self, n, env):
        raise _Break(self.ev(n["e"], env) if n.get("e") is not None else None)

    def e_Continue(self, n, env):
        raise _Continue()

    def e_For(self, n, env):
        it = self.iterable(self.ev(n["iter"], env))
        for x in it:
            if not self.bind(n["pat"], x, env):
                raise Unsupported("for pattern")
            try:
                self.ev(n["body"], env)
            except _Continue:
                continue
            except _Break:
                break
        return ()

    def e_Loop(self, n, env):
        for _ in range(100000):
            try:
                self.ev(n["body"], env)
            except _Continue:
                continue
            except _Break as b:
                return b.v if b.v is not None else ()
        raise Unsupported("loop did not finish within the evaluation bound")

    def e_Try(self, n, env):
        v = self.ev(n["e"], env)
        if isinstance(v, Adt) and v.variant in ("Some", "Ok"):
            return v.fields["0"]
        if isinstance(v, Adt) and v.variant == "None":
            raise _Return(NONE)
        if isinstance(v, Adt) and v.variant == "Err":
            raise _Return(v)
        raise Unsupported("`?` on %r" % (v,))

    def e_Closure(self, n, env):
        return Closure(n, env)

    def e_Struct(self, n, env):
        fields = {f["name"]: self.ev(f["e"], env) for f in n["fields"]}
        if n.get("base") is not None:
            b = self.ev(n["base"], env)
            if isinstance(b, Adt):
                for k, v in b.fields.items():
                    fields.setdefault(k, v)
        dk = n.get("dk", "")
        name = n.get("def") or n.get("adt")
        if (name or "").endswith(("std::ops::Range", "std::ops::RangeInclusive", "std::ops::RangeTo", "std::ops::RangeFrom", "std::ops::RangeFull", "std::ops::RangeToInclusive")) or \
                (n.get("adt") or "").startswith("std::ops::Range"):
            return Adt(n.get("adt") or name, None, fields)
        if "Variant" in dk:
            return Adt(None, name, fields)
        return Adt(n.get("adt") or name, None, fields)

    def e_Field(self, n, env):
        b = self.ev(n["base"], env)
        nm = n["name"]
        if isinstance(b, tuple) and nm.isdigit():
            return b[int(nm)]
        if isinstance(b, Adt) and nm in b.fields:
            return b.fields[nm]
        raise Unsupported("field %s of %r" % (nm, b))

    def e_Index(self, n, env):
        b = self.ev(n["base"], env)
        i = self.ev(n["idx"], env)
        return self.index(b, i)

    def index(self, b, i):
        if isinstance(b, (list, str)) and isinstance(i, int):
            if not 0 <= i < len(b):
                raise Panic("index out of bounds: the len is %d but the index is %d" % (len(b), i))
            return b[i]
        if isinstance(b, list) and isinstance(i, Adt) and (i.adt or "").startswith("std::ops::Range"):
            lo = i.fields.get("start", 0)
            hi = i.fields.get("end", len(b))
            if (i.adt or "").endswith("Inclusive") and "end" in i.fields:
                hi += 1
            if not (0 <= lo <= hi <= len(b)):
                raise Panic("range end index %d out of range for slice of length %d" % (hi, len(b)))
            return b[lo:hi]
        raise Unsupported("index %r[%r]" % (b, i))

    def e_Assign(self, n, env):
        self.store(n["l"], self.ev(n["r"], env), env)
        return ()

    def e_AssignOp(self, n, env):
        cur = self.ev(n["l"], env)
        r = self.ev(n["r"], env)
        op = n["op"].rstrip("=")
        self.store(n["l"], self.binop(op, cur, r, n["l"].get("ty"), n["l"].get("ty")), env)
        return ()

    def store(self, l, v, env):
        k = l["k"]
        if k == "Path" and l.get("res") == "local":
            env[l["hid"]] = v
            return
        if k in ("Unary", "AddrOf"):
            return self.store(l["e"], v, env)
        if k == "Index":
            b = self.ev(l["base"], env)
            i = self.ev(l["idx"], env)
            if isinstance(b, list) and isinstance(i, int):
                if not 0 <= i < len(b):
                    raise Panic("index out of bounds")
                b[i] = v
                return
        if k == "Field":
            b = self.ev(l["base"], env)
            if isinstance(b, Adt):
                b.fields[l["name"]] = v
                return
        raise Unsupported("assignment target %s" % k)

    def e_Repeat(self, n, env):
        raise Unsupported("array repeat expression")

    def e_ConstBlock(self, n, env):
        return self.ev(n["e"], {})

    # -- calls ------------------------------------------------------------------------------------------------------
    def e_Call(self, n, env):
        callee = n.get("callee")
        dk = n.get("dk", "")
        args = [self.ev(a, env) for a in n["args"]]
        if callee and "Ctor" in dk:
            name = n.get("ctor_of") or callee
            fields = {str(i): a for i, a in enumerate(args)}
            if "Variant" in dk:
                if short(name) in ("Some", "Ok", "Err") and name.count("::") <= 3 and not name.startswith(tuple(self.local_roots())):
                    return Adt(None, short(name), fields)
                return Adt(None, name, fields)
            return Adt(name, None, fields)
        if callee in ("Some", "Ok", "Err"):
            return Adt(None, callee, {"0": args[0]})
        if callee and dk in ("Fn", "AssocFn"):
            return self.call_path(n.get("inst") or callee, callee, args, n)
        f = self.ev(n["f"], env)
        return self.apply(f, args)

    def local_roots(self):
        if not hasattr(self, "_roots"):
            self._roots = {k.lstrip("<").split("::")[0] for k in self.crate.bodies}
        return self._roots

    def apply(self, f, args):
        if isinstance(f, Closure):
            env = dict(f.env)
            for p, a in zip(f.node["params"], args):
                if not self.bind(p, a, env):
                    raise Unsupported("closure parameter pattern")
            try:
                r = self.ev(f.node["body"], env)
            except _Return as r_:
                r = r_.v
            # write captured mutations back
            for k_, v_ in env.items():
                if k_ in f.env:
                    f.env[k_] = v_
            return r
        if isinstance(f, FnItem):
            return self.call_path(f.path, f.path, args, None)
        raise Unsupported("call of %r" % (f,))

    def call_path(self, inst, callee, args, n):
        import facts
        for c in (inst, callee):
            c = facts.norm_path(c or "")
            if c in self.crate.bodies and "hir" in self.crate.bodies[c]:
                return self.call(c, args, n)
        ri_ = self._resolve_trait_item(facts.norm_path(callee or ""), n)
        if ri_ is not None and "hir" in self.crate.bodies[ri_]:
            return self.call(ri_, args, n)
        return self.std(inst or callee, callee, args, n)

    def e_MethodCall(self, n, env):
        recv = self.ev(n["recv"], env)
        args = [recv] + [self.ev(a, env) for a in n["args"]]
        callee = n.get("callee") or ("?::" + n["name"])
        return self.call_path(n.get("inst") or callee, callee, args, n)

    def iterable(self, v):
        if isinstance(v, (list, tuple)):
            return list(v)
        if isinstance(v, str):
            return list(v)
        if isinstance(v, Adt) and (v.adt or "").startswith("std::ops::Range"):
            lo = v.fields.get("start")
            hi = v.fields.get("end")
            if lo is None or hi is None:
                raise Unsupported("open range iteration")
            if (v.adt or "").endswith("Inclusive"):
                hi += 1
            if hi - lo > 1_000_000:
                raise Unsupported("range too large to iterate")
            return list(range(lo, hi))
        if isinstance(v, Adt) and v.variant == "Some":
            return [v.fields["0"]]
        if isinstance(v, Adt) and v.variant == "None":
            return []
        raise Unsupported("iteration over %r" % (v,))

    # std model ---------------------------------------------------------------------------------------------------
    def std(self, inst, callee, a, n):
        last = short(callee)
        if any(isinstance(x_, Opaque) for x_ in a) or (self.capture and any(isinstance(x_, (Closure, FnItem)) for x_ in a) and (callee or "").startswith("yasna::")):
            # an effect on an unmodelled object (DER writer): record it if asked, run the closures it is given
            if self.capture and (callee or "").endswith(self.capture):
                self.captured.append([x_ for x_ in a if not isinstance(x_, Opaque)])
            for x_ in a:
                if isinstance(x_, (Closure, FnItem)):
                    np_ = len(x_.node["params"]) if isinstance(x_, Closure) else len(self.crate.bodies.get(x_.path, {}).get("params", []))
                    self.apply(x_, [OPAQUE] * np_)
            return OPAQUE
        ty = (n or {}).get("ty", "")
        rty = ((n or {}).get("recv") or {}).get("ty", "") if n else ""
        full = inst or callee or ""
        x = a[0] if a else None
        it = int_ty(rty) or (int_ty(((n or {}).get("args") or [{}])[0].get("ty", "")) if n and n.get("k") == "Call" and n.get("args") else None)
        if last in ("max_value", "min_value") and not a:
            t_ = int_ty(ty)
            if t_:
                return _range_of(t_)[1 if last == "max_value" else 0]
        if isinstance(x, RStr):
            if last in ("as_bytes", "bytes", "into_bytes"):
                return list(x.b)
            if last == "len":
                return len(x.b)
            if last == "is_empty":
                return not x.b
            if last == "is_ascii":
                return all(c < 128 for c in x.b)
            if last in ("as_str", "clone", "to_string", "to_owned", "into", "as_ref", "borrow", "deref", "from", "as_mut_str", "into_boxed_str", "into_string"):
                return x
            if last in ("try_from", "try_into"):
                pass
            else:
                raise Unsupported("str method %s on a byte-probe string" % last)
        # --- identity-like adaptors
        if last in ("clone", "to_owned", "as_ref", "as_slice", "as_mut", "as_mut_slice", "borrow", "deref", "iter", "into_iter", "copied", "cloned", "to_vec", "into_vec",
                    "as_bytes", "into_boxed_slice", "iter_mut", "by_ref", "as_str", "as_deref") and len(a) == 1:
            if last in ("iter", "into_iter", "iter_mut") or last in ("copied", "cloned"):
                return self.iterable(x) if not isinstance(x, Adt) or x.variant not in ("Some", "None") or last in ("iter", "into_iter") else x
            if last == "as_bytes" and isinstance(x, str):
                return list(x.encode())
            if last == "to_vec" and isinstance(x, list):
                return list(x)
            return x
        if last == "bytes" and isinstance(x, str):
            return list(x.encode())
        if last in ("into", "from") and len(a) == 1:
            t = int_ty(ty)
            if t and isinstance(x, int) and not isinstance(x, bool):
                return x
            if isinstance(x, bool) and t:
                return int(x)
            return x
        if last in ("try_from", "try_into") and len(a) == 1:
            m = re.search(r"Result<(\w+),", ty or "")
            t = int_ty(m.group(1)) if m else None
            if t and isinstance(x, int):
                lo, hi = _range_of(t)
                return Ok(x) if lo <= x <= hi else Err(Adt("TryFromIntError", None))
            if isinstance(x, list) and "[" in (ty or ""):
                m2 = re.search(r"; (\d+)\]", ty)
                if m2:
                    return Ok(list(x)) if len(x) == int(m2.group(1)) else Err(Adt("TryFromSliceError", None))
            raise Unsupported("conversion %s" % full)
        # --- integers
        if it and isinstance(x, int) and not isinstance(x, bool):
            lo, hi = _range_of(it)
            bits = it[1]
            y = a[1] if len(a) > 1 else None
            if last in ("checked_shr", "checked_shl"):
                if not 0 <= y < bits:
                    return NONE
                return Some((x >> y) if last == "checked_shr" else wrap(x << y, it))
            if last in ("wrapping_shr", "wrapping_shl"):
                y %= bits
                return (x >> y) if last == "wrapping_shr" else wrap(x << y, it)
            if last in ("checked_add", "checked_sub", "checked_mul"):
                r = {"checked_add": x + y, "checked_sub": x - y, "checked_mul": x * y}[last]
                return Some(r) if lo <= r <= hi else NONE
            if last in ("wrapping_add", "wrapping_sub", "wrapping_mul"):
                return wrap({"wrapping_add": x + y, "wrapping_sub": x - y, "wrapping_mul": x * y}[last], it)
            if last in ("saturating_add", "saturating_sub", "saturating_mul"):
                r = {"saturating_add": x + y, "saturating_sub": x - y, "saturating_mul": x * y}[last]
                return max(lo, min(hi, r))
            if last == "checked_div":
                return NONE if y == 0 else Some(x // y)
            if last == "leading_zeros":
                return bits - x.bit_length() if x >= 0 else 0
            if last == "trailing_zeros":
                return bits if x == 0 else (x & -x).bit_length() - 1
            if last == "count_ones":
                return bin(x & ((1 << bits) - 1)).count("1")
            if last == "count_zeros":
                return bits - bin(x & ((1 << bits) - 1)).count("1")
            if last == "reverse_bits":
                return int(format(x & ((1 << bits) - 1), "0%db" % bits)[::-1], 2)
            if last == "swap_bytes":
                return int.from_bytes((x & ((1 << bits) - 1)).to_bytes(bits // 8, "big"), "little")
            if last in ("to_be_bytes", "to_le_bytes", "to_ne_bytes"):
                return list((x & ((1 << bits) - 1)).to_bytes(bits // 8, "big" if last == "to_be_bytes" else "little"))
            if last == "pow":
                r = x ** y
                if not lo <= r <= hi:
                    raise Panic("attempt to multiply with overflow")
                return r
            if last in ("min", "max") and isinstance(y, int):
                return min(x, y) if last == "min" else max(x, y)
            if last == "is_power_of_two":
                return x > 0 and x & (x - 1) == 0
            if last == "abs":
                return abs(x)
            if last.startswith("is_ascii") and bits == 8:
                return _ascii_pred(last, x)
            if last in ("eq", "ne", "lt", "le", "gt", "ge") and isinstance(y, int):
                return {"eq": x == y, "ne": x != y, "lt": x < y, "le": x <= y, "gt": x > y, "ge": x >= y}[last]
            if last == "to_string":
                return str(x)
        if last in ("from_be_bytes", "from_le_bytes", "from_ne_bytes") and isinstance(x, list):
            t = int_ty(ty)
            if t:
                return wrap(int.from_bytes(bytes(x), "big" if last == "from_be_bytes" else "little"), t)
        if rty.lstrip("&") == "char" or (last.startswith("is_ascii") and "char" in full):
            if last.startswith("is_ascii") and isinstance(x, int):
                return x < 128 and _ascii_pred(last, x)
        if last in ("eq", "ne") and len(a) == 2:
            eq = _key(a[0]) == _key(a[1])
            return eq if last == "eq" else not eq
        # --- bool
        if isinstance(x, bool):
            if last == "then_some":
                return Some(a[1]) if x else NONE
            if last == "then":
                return Some(self.apply(a[1], [])) if x else NONE
            if last == "not":
                return not x
        # --- Option / Result
        if isinstance(x, Adt) and x.variant in ("Some", "None", "Ok", "Err"):
            v = x.variant
            inner = x.fields.get("0")
            if last in ("is_some", "is_ok"):
                return v in ("Some", "Ok")
            if last in ("is_none", "is_err"):
                return v in ("None", "Err")
            if last in ("unwrap", "expect"):
                if v in ("Some", "Ok"):
                    return inner
                raise Panic("called `unwrap()` on a `%s` value" % v)
            if last == "unwrap_or":
                return inner if v in ("Some", "Ok") else a[1]
            if last == "unwrap_or_default":
                if v in ("Some", "Ok"):
                    return inner
                t = int_ty(ty)
                if t:
                    return 0
                raise Unsupported("default of %s" % ty)
            if last == "unwrap_or_else":
                return inner if v in ("Some", "Ok") else self.apply(a[1], [] if v == "None" else [inner])
            if last == "map":
                return Adt(None, v, {"0": self.apply(a[1], [inner])}) if v in ("Some", "Ok") else x
            if last == "map_err":
                return Err(self.apply(a[1], [inner])) if v == "Err" else x
            if last == "and_then":
                return self.apply(a[1], [inner]) if v in ("Some", "Ok") else x
            if last == "ok":
                return Some(inner) if v == "Ok" else NONE
            if last == "err":
                return Some(inner) if v == "Err" else NONE
            if last == "ok_or":
                return Ok(inner) if v == "Some" else Err(a[1])
            if last == "ok_or_else":
                return Ok(inner) if v == "Some" else Err(self.apply(a[1], []))
            if last == "or":
                return x if v in ("Some", "Ok") else a[1]
            if last == "or_else":
                return x if v in ("Some", "Ok") else self.apply(a[1], [] if v == "None" else [inner])
            if last == "filter":
                return x if v == "Some" and self.apply(a[1], [inner]) else NONE
            if last == "is_some_and":
                return v == "Some" and bool(self.apply(a[1], [inner]))
            if last == "map_or":
                return self.apply(a[2], [inner]) if v in ("Some", "Ok") else a[1]
            if last in ("copied", "cloned", "as_ref", "as_deref", "as_mut"):
                return x
            if last in ("iter", "into_iter"):
                return [inner] if v == "Some" else []
            if last == "unwrap_or_else":
                return inner
        # --- ranges
        if isinstance(x, Adt) and (x.adt or "").startswith("std::ops::Range"):
            if last == "contains":
                y = a[1]
                lo = x.fields.get("start")
                hi = x.fields.get("end")
                incl = (x.adt or "").endswith("Inclusive")
                ok = True
                if lo is not None:
                    ok = ok and lo <= y
                if hi is not None:
                    ok = ok and (y <= hi if incl else y < hi)
                return ok
            if last in ("rev", "map", "filter", "all", "any", "for_each", "fold", "collect", "step_by", "len", "count", "enumerate", "zip", "filter_map", "find", "position", "sum"):
                x = self.iterable(x)
                a = [x] + a[1:]
        if last == "new" and "RangeInclusive" in full and len(a) == 2:
            return Adt("std::ops::RangeInclusive", None, {"start": a[0], "end": a[1]})
        # --- sequences
        if isinstance(x, (list, tuple, str)):
            seq = list(x)
            if last == "len" or last == "count":
                return len(seq)
            if last == "is_empty":
                return len(seq) == 0
            if last == "contains":
                return any(_key(e) == _key(a[1]) for e in seq)
            if last == "rev":
                return seq[::-1]
            if last == "enumerate":
                return [(i, e) for i, e in enumerate(seq)]
            if last == "zip":
                return list(zip(seq, self.iterable(a[1])))
            if last == "chain":
                return seq + self.iterable(a[1])
            if last == "skip":
                return seq[a[1]:]
            if last == "take":
                return seq[:a[1]]
            if last == "step_by":
                return seq[::a[1]]
            if last == "map":
                return [self.apply(a[1], [e]) for e in seq]
            if last == "filter":
                return [e for e in seq if self.apply(a[1], [e])]
            if last == "filter_map":
                out = []
                for e in seq:
                    r = self.apply(a[1], [e])
                    if r.variant == "Some":
                        out.append(r.fields["0"])
                return out
            if last == "flat_map":
                out = []
                for e in seq:
                    out.extend(self.iterable(self.apply(a[1], [e])))
                return out
            if last == "flatten":
                out = []
                for e in seq:
                    out.extend(self.iterable(e))
                return out
            if last == "all":
                return all(bool(self.apply(a[1], [e])) for e in seq)
            if last == "any":
                return any(bool(self.apply(a[1], [e])) for e in seq)
            if last == "for_each":
                for e in seq:
                    self.apply(a[1], [e])
                return ()
            if last == "find":
                for e in seq:
                    if self.apply(a[1], [e]):
                        return Some(e)
                return NONE
            if last == "find_map":
                for e in seq:
                    r = self.apply(a[1], [e])
                    if r.variant == "Some":
                        return r
                return NONE
            if last == "position":
                for i, e in enumerate(seq):
                    if self.apply(a[1], [e]):
                        return Some(i)
                return NONE
            if last == "fold":
                acc = a[1]
                for e in seq:
                    acc = self.apply(a[2], [acc, e])
                return acc
            if last == "sum":
                return sum(seq)
            if last in ("max", "min") and len(a) == 1:
                if not seq:
                    return NONE
                return Some(max(seq) if last == "max" else min(seq))
            if last == "next":
                return Some(seq[0]) if seq else NONE
            if last in ("last",):
                return Some(seq[-1]) if seq else NONE
            if last == "first":
                return Some(seq[0]) if seq else NONE
            if last == "get" and isinstance(a[1], int):
                return Some(seq[a[1]]) if 0 <= a[1] < len(seq) else NONE
            if last == "collect":
                # Result<Vec<_>, _> / Option<Vec<_>> / Vec<_>
                if ty.startswith("std::result::Result") or ty.startswith("std::option::Option"):
                    out = []
                    for e in seq:
                        if isinstance(e, Adt) and e.variant in ("Err", "None"):
                            return e
                        out.append(e.fields["0"])
                    return Ok(out) if ty.startswith("std::result::Result") else Some(out)
                return seq
            if last == "concat":
                out = []
                for e in seq:
                    out.extend(e)
                return out
            if last in ("split_at",) and isinstance(a[1], int):
                if a[1] > len(seq):
                    raise Panic("mid > len")
                return (seq[:a[1]], seq[a[1]:])
            if last == "chunks_exact" or last == "chunks":
                k = a[1]
                if k == 0:
                    raise Panic("chunk size must be non-zero")
                full_ = len(seq) // k * k if last == "chunks_exact" else len(seq)
                return [seq[i:i + k] for i in range(0, full_, k)]
            if last == "starts_with":
                return seq[:len(a[1])] == list(a[1])
            if last == "ends_with":
                return seq[len(seq) - len(a[1]):] == list(a[1])
            if last == "join" and isinstance(a[1], str):
                return a[1].join(seq)
            if isinstance(x, list):
                if last == "push":
                    x.append(a[1])
                    return ()
                if last == "pop":
                    return Some(x.pop()) if x else NONE
                if last == "extend" or last == "extend_from_slice":
                    x.extend(self.iterable(a[1]))
                    return ()
                if last == "copy_from_slice":
                    src = list(a[1])
                    if len(src) != len(x):
                        raise Panic("source slice length does not match destination slice length")
                    x[:] = src
                    return ()
                if last == "insert" and isinstance(a[1], int):
                    if a[1] > len(x):
                        raise Panic("insertion index out of bounds")
                    x.insert(a[1], a[2])
                    return ()
                if last == "clear":
                    del x[:]
                    return ()
                if last == "truncate":
                    del x[a[1]:]
                    return ()
                if last == "reverse":
                    x.reverse()
                    return ()
                if last == "sort":
                    x.sort(key=_key)
                    return ()
        if last in ("new", "with_capacity", "default") and ("Vec<" in ty or "vec::Vec" in full):
            return []
        if last == "from_fn" and "array" in full:
            m2 = re.search(r"; (\d+)\]", ty)
            if m2:
                return [self.apply(a[0], [i]) for i in range(int(m2.group(1)))]
        if last == "from_u32" and "char" in full:
            c = a[0]
            return Some(c) if (0 <= c < 0xD800 or 0xE000 <= c <= 0x10FFFF) else NONE
        if last == "index" and len(a) == 2:
            return self.index(a[0], a[1])
        if self.capture:
            # effect-capturing mode: an unmodelled foreign call yields an unmodelled value (using it in a condition or
            # in arithmetic is still Unsupported)
            return OPAQUE
        raise Unsupported("std function %s" % full)

    # -- patterns ---------------------------------------------------------------------------------------------------
    def bind(self, p, v, env):
        k = p["k"]
        if k == "Binding":
            env[p["hid"]] = v
            if p.get("sub"):
                return self.bind(p["sub"], v, env)
            return True
        if k in ("Wild", "Missing"):
            return True
        if k in ("Ref", "Deref"):
            return self.bind(p["pat"], v, env)
        if k == "Guard":
            return self.bind(p["pat"], v, env) and bool(self.ev(p["cond"], env))
        if k == "Or":
            return any(self.bind(x, v, env) for x in p["pats"])
        if k == "Tuple":
            if not isinstance(v, (tuple, list)):
                return False
            if p.get("rest"):
                raise Unsupported("tuple pattern with ..")
            return len(v) == len(p["pats"]) and all(self.bind(sp, x, env) for sp, x in zip(p["pats"], v))
        if k == "Range":
            lo = self.pat_value(p["lo"]) if p.get("lo") else None
            hi = self.pat_value(p["hi"]) if p.get("hi") else None
            if not isinstance(v, int):
                return False
            if lo is not None and v < lo:
                return False
            if hi is not None and (v > hi if p["incl"] else v >= hi):
                return False
            return True
        if k == "Expr":
            e = p["e"]
            if e["k"] == "Lit":
                return _key(v) == _key(e["v"] if e.get("lk") != "bytestr" else list(e["v"]))
            return self.match_path(e, [], v, env, tuple_style=True)
        if k == "TupleStruct":
            return self.match_path(p, [(str(i), sp) for i, sp in enumerate(p["pats"])], v, env, tuple_style=True)
        if k == "Struct":
            return self.match_path(p, [(f["name"], f["pat"]) for f in p["fields"]], v, env, tuple_style=False)
        if k == "Slice":
            if not isinstance(v, list):
                return False
            nb, na = len(p["before"]), len(p["after"])
            if p.get("mid") is None:
                if len(v) != nb + na:
                    return False
            elif len(v) < nb + na:
                return False
            ok = all(self.bind(sp, x, env) for sp, x in zip(p["before"], v[:nb]))
            ok = ok and all(self.bind(sp, x, env) for sp, x in zip(p["after"], v[len(v) - na:] if na else []))
            if ok and p.get("mid") is not None:
                ok = self.bind(p["mid"], v[nb:len(v) - na], env)
            return ok
        raise Unsupported("pattern kind %s" % k)

    def pat_value(self, e):
        if e["k"] == "Lit":
            return e["v"]
        d = e.get("def")
        if d in STD_CONSTS:
            return STD_CONSTS[d]
        return self.const(d)

    def match_path(self, info, subpats, v, env, tuple_style):
        dk = info.get("dk", "")
        d = info.get("ctor_of") or info.get("def")
        if dk.startswith(("Const", "AssocConst", "Static")) and "Ctor" not in dk:
            c = STD_CONSTS.get(d)
            if c is None:
                c = self.const(d)
            return _key(c) == _key(v)
        if not isinstance(v, Adt):
            return False
        if "Variant" in dk:
            if short(d) != short(v.variant or ""):
                return False
        for key, sp in subpats:
            if key not in v.fields:
                return False
            if not self.bind(sp, v.fields[key], env):
                return False
        return True


def _ascii_pred(name, x):
    c = chr(x) if 0 <= x < 128 else None
    if c is None:
        return False
    return {
        "is_ascii": True, "is_ascii_alphabetic": c.isalpha(), "is_ascii_alphanumeric": c.isalnum(), "is_ascii_digit": c.isdigit(),
        "is_ascii_uppercase": c.isupper(), "is_ascii_lowercase": c.islower(), "is_ascii_hexdigit": c in "0123456789abcdefABCDEF",
        "is_ascii_punctuation": c in "!\"#$%&'()*+,-./:;<=>?@[\\]^_`{|}~", "is_ascii_graphic": 0x21 <= x <= 0x7e,
        "is_ascii_whitespace": c in " \t\n\x0c\r", "is_ascii_control": x < 0x20 or x == 0x7f,
    }.get(name, False)


def _bindings(p):
    out = []
    if p["k"] == "Binding":
        out.append(p)
        if p.get("sub"):
            out += _bindings(p["sub"])
    for key in ("pat",):
        if isinstance(p.get(key), dict):
            out += _bindings(p[key])
    for key in ("pats", "before", "after"):
        for x in p.get(key) or []:
            out += _bindings(x)
    for f in p.get("fields") or []:
        out += _bindings(f["pat"])
    if isinstance(p.get("mid"), dict):
        out += _bindings(p["mid"])
    return out


STD_CONSTS = {}
for _t, _b in (("u8", 8), ("u16", 16), ("u32", 32), ("u64", 64), ("u128", 128), ("usize", 64)):
    for _pfx in ("core::num::<impl %s>::", "std::%s::", "core::%s::"):
        STD_CONSTS[(_pfx % _t) + "MAX"] = (1 << _b) - 1
        STD_CONSTS[(_pfx % _t) + "MIN"] = 0
        STD_CONSTS[(_pfx % _t) + "BITS"] = _b
for _t, _b in (("i8", 8), ("i16", 16), ("i32", 32), ("i64", 64), ("i128", 128), ("isize", 64)):
    for _pfx in ("core::num::<impl %s>::", "std::%s::", "core::%s::"):
        STD_CONSTS[(_pfx % _t) + "MAX"] = (1 << (_b - 1)) - 1
        STD_CONSTS[(_pfx % _t) + "MIN"] = -(1 << (_b - 1))
        STD_CONSTS[(_pfx % _t) + "BITS"] = _b


def enum_values(crate, adt_path):
    """all values of a field-less enum of the analysed crate"""
    a = crate.adts.get(adt_path)
    if not a or a.get("kind") != "Enum":
        return None
    if any(v.get("fields") for v in a["variants"]):
        return None
    return [Adt(None, "%s::%s" % (adt_path, v["name"])) for v in a["variants"]]
