"""Compact pseudo-Rust rendering of the exported HIR (debugging / evidence samples)."""
import sys


def short(p):
    if p is None:
        return "?"
    return p


def pat(p):
    k = p["k"]
    if k == "Binding":
        s = ("ref " if p.get("byref") else "") + ("mut " if p.get("mut") else "") + p["name"] + "#%d" % p["hid"]
        if p.get("sub"):
            s += " @ " + pat(p["sub"])
        return s
    if k == "Wild":
        return "_"
    if k == "Struct":
        return "%s{%s%s}" % (p.get("def"), ", ".join("%s: %s" % (f["name"], pat(f["pat"])) for f in p["fields"]), ", .." if p["rest"] else "")
    if k == "TupleStruct":
        return "%s(%s%s)" % (p.get("def"), ", ".join(pat(x) for x in p["pats"]), ", .." if p["rest"] else "")
    if k == "Or":
        return " | ".join(pat(x) for x in p["pats"])
    if k == "Tuple":
        return "(%s)" % ", ".join(pat(x) for x in p["pats"])
    if k in ("Ref", "Deref"):
        return "&" + pat(p["pat"])
    if k == "Expr":
        e = p["e"]
        return str(e.get("v")) if e["k"] == "Lit" else str(e.get("def"))
    if k == "Range":
        f = lambda e: "" if e is None else (str(e.get("v")) if e["k"] == "Lit" else str(e.get("def")))
        return "%s..%s%s" % (f(p["lo"]), "=" if p["incl"] else "", f(p["hi"]))
    return k


def expr(n, ind=0):
    I = "  " * ind
    if n is None:
        return ""
    k = n["k"]
    if k == "Block":
        out = "{\n"
        for s in n["stmts"]:
            if s["k"] == "Let":
                out += I + "  let %s = %s;%s\n" % (pat(s["pat"]), expr(s["init"], ind + 1) if s["init"] else "", (" else " + expr(s["els"], ind + 1)) if s.get("els") else "")
            else:
                out += I + "  " + expr(s["e"], ind + 1) + (";" if s["k"] == "Semi" else "") + "\n"
        if n.get("expr"):
            out += I + "  " + expr(n["expr"], ind + 1) + "\n"
        return out + I + "}"
    if k == "Call":
        return "%s(%s)" % (n.get("callee") or expr(n["f"], ind), ", ".join(expr(a, ind) for a in n["args"]))
    if k == "MethodCall":
        c = n.get("inst") or n.get("callee") or n["name"]
        return "%s.[%s](%s)" % (expr(n["recv"], ind), c, ", ".join(expr(a, ind) for a in n["args"]))
    if k == "Path":
        if n["res"] == "local":
            return "%s#%d" % (n["name"], n["hid"])
        return str(n.get("def") or n.get("res"))
    if k == "Field":
        return "%s.%s" % (expr(n["base"], ind), n["name"])
    if k == "Lit":
        return repr(n.get("v"))
    if k == "AddrOf":
        return "&" + ("mut " if n["mut"] else "") + expr(n["e"], ind)
    if k == "Unary":
        return n["op"] + expr(n["e"], ind)
    if k == "Binary":
        return "(%s %s %s)" % (expr(n["l"], ind), n["op"], expr(n["r"], ind))
    if k == "Cast":
        return "(%s as %s)" % (expr(n["e"], ind), n["ty"])
    if k == "Try":
        return expr(n["e"], ind) + "?"
    if k == "If":
        s = "if %s %s" % (expr(n["c"], ind), expr(n["t"], ind))
        if n.get("e"):
            s += " else " + expr(n["e"], ind)
        return s
    if k == "LetCond":
        return "let %s = %s" % (pat(n["pat"]), expr(n["init"], ind))
    if k == "Match":
        out = "match %s {\n" % expr(n["scrut"], ind)
        for a in n["arms"]:
            out += I + "  %s%s => %s,\n" % (pat(a["pat"]), (" if " + expr(a["guard"], ind + 1)) if a.get("guard") else "", expr(a["body"], ind + 1))
        return out + I + "}"
    if k == "For":
        return "for %s in %s %s" % (pat(n["pat"]), expr(n["iter"], ind), expr(n["body"], ind))
    if k == "Loop":
        return "loop " + expr(n["body"], ind)
    if k == "Closure":
        return "|%s| %s" % (", ".join(pat(p) for p in n["params"]), expr(n["body"], ind))
    if k == "Ret":
        return "return " + expr(n.get("e"), ind)
    if k == "Break":
        return "break " + expr(n.get("e"), ind)
    if k == "Struct":
        return "%s{%s%s}" % (n.get("def"), ", ".join("%s: %s" % (f["name"], expr(f["e"], ind)) for f in n["fields"]), (", .." + expr(n["base"], ind)) if n.get("base") else "")
    if k in ("Tup", "Array"):
        return ("(%s)" if k == "Tup" else "[%s]") % ", ".join(expr(x, ind) for x in n["es"])
    if k == "Assign":
        return "%s = %s" % (expr(n["l"], ind), expr(n["r"], ind))
    if k == "AssignOp":
        return "%s %s %s" % (expr(n["l"], ind), n["op"], expr(n["r"], ind))
    if k == "Index":
        return "%s[%s]" % (expr(n["base"], ind), expr(n["idx"], ind))
    if k == "Repeat":
        return "[%s; _]" % expr(n["e"], ind)
    return "<%s>" % k


if __name__ == "__main__":
    sys.path.insert(0, __import__("os").path.dirname(__file__))
    import facts
    th, dirs, _ = facts.ensure_facts([sys.argv[1]])
    c = facts.load(dirs, sys.argv[1], sys.argv[2] if len(sys.argv) > 3 else "rcgen.lib.json")
    name = sys.argv[-1]
    for d, b in c.bodies.items():
        if name in d and "hir" in b:
            print("fn", d, "(%s)" % ", ".join(pat(p) for p in b.get("params", [])), b["sp"])
            print(expr(b["hir"]))
