"""C17 - importing a CA certificate recovers the fields it claims to recover."""
import re as _re
import formula as F
import schema as S
import common
from interp import core, places, calls_of, roots, Interp, CallV, PhiV, StructV, Via, MutV
import c07

PROP = "C17"
CONFIGS_QUICK = ["K1", "K2"]
CONFIGS_THOROUGH = ["K1", "K2", "K3"]
EXPLANATION = (
    "Static, on the import path (x509-parser configurations): (fields) the CertificateParams literal built by from_ca_cert_der "
    "initialises every recoverable field explicitly from the converter of the corresponding certificate field (none falls through to "
    "..Default::default()), and from_ca_cert_pem only delegates with the PEM contents; (tables) each converter is the inverse of the "
    "writer's table: key-usage flags are bit-reversed and decoded with the writer's own to_u16 table over all nine variants, the seven "
    "standard EKU flags map to the like-named variants, GeneralName->SanType and GeneralName->GeneralSubtree arms invert the tag tables, "
    "IPv4/IPv6 subnets are split 4+4 / 16+16 under a dominating length test, and the basicConstraints arms are "
    "ca&&Some(n<=255)->Constrained(n), ca&&None->Unconstrained, !ca->ExplicitNoCa, absent->NoCa; (lossless) names are rebuilt without "
    "loss or refused (C03.lossless). Not decided: value equality of a re-issued certificate (x509-parser's decoding is trusted).")
ASSUMPTIONS = ["x509-parser decodes the certificate fields correctly (incl. its LSB-first key-usage flag order)"]

FN = "certificate::CertificateParams::from_ca_cert_der"
P = "certificate::CertificateParams::"
FIELD_SRC = {
    "is_ca": ("call", P + "convert_x509_is_ca"),
    "subject_alt_names": ("call", P + "convert_x509_subject_alternative_name"),
    "key_usages": ("call", P + "convert_x509_key_usages"),
    "extended_key_usages": ("call", P + "convert_x509_extended_key_usages"),
    "name_constraints": ("call", P + "convert_x509_name_constraints"),
    "serial_number": ("sel", "sel:.serial"),
    "not_before": ("sel", "sel:.not_before"),
    "not_after": ("sel", "sel:.not_after"),
    "distinguished_name": ("call", "DistinguishedName::from_name"),
    "key_identifier_method": ("text", "SubjectKeyIdentifier"),
}


def run(ctx):
    rep = ctx.rep
    for cfg in (CONFIGS_QUICK if ctx.tier == "quick" else CONFIGS_THOROUGH):
        crate = ctx.crate(cfg)
        if FN not in crate.bodies:
            rep.fail("C17.fields", "%s|%s" % (cfg, FN), "import function not found in this configuration")
            continue
        fields(cfg, crate, rep)
        tables(cfg, crate, rep)
        # "with the certificate's subject key identifier captured as a fixed key identifier": the SKI and nothing else
        import c03
        common.borrow_rules(rep, lambda: c03.check_import(cfg, crate, rep), "C03.", "C17.import")


def fields(cfg, crate, rep):
    rep.fn(FN, P + "from_ca_cert_pem")
    key = "%s|%s" % (cfg, FN)
    I = Interp(crate)
    out = I.run_fn(FN)
    lits = [(sv, node) for sv, node, f, c in I.structs if (sv.adt or "").endswith("CertificateParams") and f == FN]
    if len(lits) != 1:
        rep.fail("C17.fields", key + "|literal", "expected one CertificateParams literal", found=len(lits))
        return
    sv, node = lits[0]
    for fld, (how, what) in FIELD_SRC.items():
        v = sv.fields.get(fld)
        if v is None:
            rep.fail("C17.fields", key + "|" + fld, "recoverable field `%s` is not initialised from the certificate (falls through to the default)" % fld, sp=node.get("sp"))
            continue
        rts = roots(v)
        if how == "call":
            ok = what in calls_of(v)
        elif how == "sel":
            ok = what in rts
        else:
            ok = what in core(v).r()
        from_cert = places(v) == {"ca_cert"}
        rep.ob("C17.fields", key + "|" + fld, ok and from_cert, "field `%s` is recovered from the parsed certificate through %s" % (fld, what), found=core(v).r()[:200], sp=node.get("sp"))
    rep.ob("C17.fields", key + "|serial-big-endian", "to_bytes_be" in core(sv.fields.get("serial_number")).r() if sv.fields.get("serial_number") is not None else False, "serial number bytes are taken big-endian")
    base = sv.base
    rep.ob("C17.fields", key + "|rest-default", base is not None and "Default" in core(base).r(), "remaining (non-recoverable) fields are defaults", found=core(base).r() if base is not None else None)
    rep.sample({"rule": "C17.fields", "cfg": cfg, "fields": {k: core(v).r()[:120] for k, v in sv.fields.items()}})
    fp = P + "from_ca_cert_pem"
    if fp in crate.bodies:
        I2 = Interp(crate)
        v = I2.run_fn(fp)["value"]
        via = calls_of(v)
        ok = FN in via and any(c.endswith("pem::parse") for c in via) and any(c.endswith("contents") for c in via)
        rep.ob("C17.fields", "%s|%s" % (cfg, fp), ok, "PEM import parses the envelope and delegates its contents to the DER import", found=core(v).r()[:200])


def arms_of(body, pred):
    ms = [n for n in common.hir_walk(body["hir"]) if n["k"] == "Match" and pred(n)]
    return ms


def patsum(p):
    while p["k"] in ("Ref", "Deref"):
        p = p["pat"]
    k = p["k"]
    if k == "Wild":
        return "_"
    if k == "Binding":
        return "$" + p["name"]
    if k == "Expr":
        e = p["e"]
        return str(e.get("v")) if e["k"] == "Lit" else (e.get("ctor_of") or e.get("def") or "?").split("::")[-1]
    if k == "TupleStruct":
        return "%s(%s)" % ((p.get("ctor_of") or p.get("def") or "?").split("::")[-1], ",".join(patsum(x) for x in p["pats"]))
    if k == "Struct":
        return "%s{%s%s}" % ((p.get("ctor_of") or p.get("def") or "?").split("::")[-1], ",".join("%s:%s" % (f["name"], patsum(f["pat"])) for f in p["fields"]), ",.." if p["rest"] else "")
    return k


def ctors_in(n, prefix):
    out = []
    for x in common.hir_walk(n):
        d = None
        if x["k"] == "Call" and "Ctor" in x.get("dk", ""):
            d = x.get("ctor_of") or x.get("callee")
        elif x["k"] == "Path" and x.get("res") == "def" and "Ctor" in x.get("dk", ""):
            d = x.get("ctor_of") or x.get("def")
        if d and prefix in d and d.split("::")[-1] not in out:
            out.append(d.split("::")[-1])
    return sorted(out)


def tables(cfg, crate, rep):
    # key usages
    fn = P + "convert_x509_key_usages"
    rep.fn(fn)
    v = core(Interp(crate).run_fn(fn)["value"])
    txt = v.r()
    inner = core(v.fields.get("0")) if isinstance(v, StructV) and v.variant == "Ok" else v
    ok = isinstance(inner, CallV) and inner.callee == "KeyUsagePurpose::from_u16" and isinstance(core(inner.args[0]), CallV) and core(inner.args[0]).callee.endswith("::reverse_bits") \
        and "sel:.flags" in roots(inner) and any(c.endswith("TbsCertificate::key_usage") for c in calls_of(inner))
    rep.ob("C17.tables", "%s|%s" % (cfg, fn), ok, "key usage = from_u16(reverse_bits(flags)) of the certificate's KeyUsage (absent -> empty)", found=txt[:160])
    # EKU
    fn = P + "convert_x509_extended_key_usages"
    rep.fn(fn)
    Ie = Interp(crate)
    Ie.run_fn(fn)
    pairs = common.eku_pairs_interp(Ie)
    want = {"any": "Any", "server_auth": "ServerAuth", "client_auth": "ClientAuth", "code_signing": "CodeSigning", "email_protection": "EmailProtection", "time_stamping": "TimeStamping", "ocsp_signing": "OcspSigning"}
    rep.ob("C17.tables", "%s|%s" % (cfg, fn), pairs == want, "each standard EKU flag maps to the like-named variant", expected=want, found=pairs)
    # "standard extended key usages (as a set)": non-standard purposes are left out, they never make the import fail
    rej = sorted({F.show(c)[-160:] + " => " + core(x).r()[:60] for c, x, n, f in Ie.fails})
    rep.ob("C17.tables", "%s|%s|total" % (cfg, fn), not rej, "the EKU converter has no rejecting path of its own (only the parser's error is propagated): purposes it cannot represent are skipped", found=rej)
    # SAN: every entry through try_from_general
    fn = P + "convert_x509_subject_alternative_name"
    rep.fn(fn)
    Is = Interp(crate)
    outs = Is.run_fn(fn)
    cs = calls_of(outs["value"])
    conv = [a for c, a, n, cond, f in Is.calls if c.endswith("SanType::try_from_general") and a]
    arg = core(conv[0][0]).r() if len(conv) == 1 else ""
    ok = any(c.endswith("SanType::try_from_general") for c in cs) and any(c.endswith("subject_alternative_name") for c in cs) \
        and arg.endswith("[]") and ".general_names" in arg and _re.search(r"subject_alternative_name\((x509|tbs\w*)(\.tbs_certificate)?\)", arg)
    rep.ob("C17.tables", "%s|%s" % (cfg, fn), ok, "every entry of the certificate's subjectAltName general_names is converted by the shared GeneralName converter and the results are what is returned",
           found={"converter_arg": arg[-80:], "calls_in_result": sorted(c.split("::")[-1] for c in cs)})
    c07.san_back(cfg, crate, rep)
    # the importer decodes string values as the writer encodes them only while each string type stores and writes its own
    # transfer encoding (alphabets, sinks)
    if cfg == "K1":
        import c13
        common.borrow_rules(rep, lambda: (c13.alpha(cfg, crate, rep), c13.sink(cfg, crate, rep)), "C13.", "C17.strings")
    # "subject name ... equal": attribute types come back through DnType::from_oid, which must invert to_oid
    import c02
    n0_ = len(rep.obligations)
    c02.check_tables(cfg, crate, rep)
    keep_ = [o for o in rep.obligations[n0_:] if "DnType::" in o["key"]]
    del rep.obligations[n0_:]
    for o in keep_:
        o["key"] = o["key"].replace("C02.tables", "C17.tables", 1)
        o["rule"] = "C17.tables"
    rep.obligations.extend(keep_)
    rep.floor("C17.tables", "DnType OID tables (%s)" % cfg, len(keep_), 2)
    for o in rep.obligations:
        if o["rule"] == "C07.back" and ("try_from_general" in o["key"] or "ip_addr_from_octets" in o["key"]):
            o["rule"] = "C17.tables"
            o["key"] = o["key"].replace("C07.back", "C17.tables")
    # general subtrees: what is appended for one parsed subtree, specialised per GeneralName variant / octet length
    # (from the interpreter's log of pushes onto the result: arms in the loop, or a per-element helper returning Option)
    from interp import specialise
    fn = P + "convert_x509_general_subtrees"
    rep.fn(fn)
    Ig = Interp(crate)
    Ig.run_fn(fn)
    pushes = [(cond, payload[0]) for tgt, kind, payload, n_, f_, cond in Ig.muts if kind.endswith("Vec::push") and f_ == fn and payload]
    got = {}
    if len(pushes) == 1:
        cond, val = pushes[0]
        from interp import split_guards
        ats = list(F.atoms(cond))
        for g in split_guards(val):
            for a in F.atoms(g):
                if a not in ats:
                    ats.append(a)
        base = [a for a in ats if a[0] == "variant" and a[1].endswith(".base")]
        lens = [a for a in ats if a[0] == "eq" and "len(" in str(a[1]) and str(a[2]) in ("8", "32")]
        place = base[0][1] if base else None
        cases = [(v_, None) for v_ in ("RFC822Name", "DNSName", "DirectoryName", "URI", "OtherName")] + [("IPAddress", 8), ("IPAddress", 32), ("IPAddress", 5)]
        for gname, ln in cases:
            asg = {a: (a[2] == gname) for a in base}
            asg[("variant", place, gname)] = True
            for a in lens:
                asg[a] = (ln is not None and str(a[2]) == str(ln))
            pushed = S.pe_formula(cond, asg)
            if pushed is False:
                got["%s%s" % (gname, "/%d" % ln if ln else "")] = None
                continue
            x = specialise(val, asg)
            txt = core(x).r()
            # which part of the octet string each CidrSubnet field is: `b[..k]` / `b.split_at(k).0` is the first k
            # octets, `b[k..]` / `b.split_at(k).1` the rest
            splits = []
            for sv_ in common.find_structs(x, "CidrSubnet::"):
                for fk_ in sorted(sv_.fields):
                    fv_ = core(sv_.fields[fk_])
                    ft_ = fv_.r()
                    if isinstance(fv_, MutV):
                        # a zeroed array filled by `copy_from_slice(src)`: the field is (a copy of) src
                        fills_ = [o for o in fv_.ops if o[0] == "call" and o[1] in ("copy_from_slice", "clone_from_slice") and len(o) > 2]
                        if len(fills_) == 1 and len(fv_.ops) == 1:
                            ft_ = core(fills_[0][2]).r()
                    # structural walk (constants by value: `split_at(V4_LEN)`, `[..ADDR_LEN]`)
                    roles_ = set()
                    src_ = fv_
                    if isinstance(fv_, MutV):
                        fl_ = [o for o in fv_.ops if o[0] == "call" and o[1] in ("copy_from_slice", "clone_from_slice") and len(o) > 2]
                        if len(fl_) == 1 and len(fv_.ops) == 1:
                            src_ = fl_[0][2]

                    def _roles(v_, depth=0):
                        from interp import IndexV, Sel, TupleV, ArrayV
                        if depth > 12 or v_ is None:
                            return
                        if isinstance(v_, Via):
                            _roles(v_.inner, depth + 1)
                        elif isinstance(v_, IndexV):
                            ix = core(v_.idx)
                            if isinstance(ix, StructV) and (ix.adt or "").startswith("std::ops::Range"):
                                st_, en_ = ix.fields.get("start"), ix.fields.get("end")
                                cs_ = Ig.concrete(st_) if st_ is not None else None
                                ce_ = Ig.concrete(en_) if en_ is not None else None
                                if "RangeTo" in ix.adt and isinstance(ce_, int):
                                    roles_.add(("head", ce_))
                                elif "RangeFrom" in ix.adt and isinstance(cs_, int):
                                    roles_.add(("tail", cs_))
                            _roles(v_.base, depth + 1)
                        elif isinstance(v_, Sel):
                            b_ = core(v_.base)
                            if isinstance(b_, CallV) and b_.callee.endswith(("::split_at", "::split_at_checked")) and len(b_.args) == 2 and v_.sel in (".0", ".1"):
                                k_ = Ig.concrete(b_.args[1])
                                if isinstance(k_, int):
                                    roles_.add(("head" if v_.sel == ".0" else "tail", k_))
                            _roles(v_.base, depth + 1)
                        elif isinstance(v_, CallV):
                            for a_ in v_.args:
                                _roles(a_, depth + 1)
                        elif isinstance(v_, PhiV):
                            for _, y_ in v_.alts:
                                _roles(y_, depth + 1)
                    _roles(src_)
                    splits.append(sorted(roles_))
            got["%s%s" % (gname, "/%d" % ln if ln else "")] = (sorted(common.struct_variants(x, "GeneralSubtree::") | common.struct_variants(x, "CidrSubnet::")), splits, pushed is True)
    want = {"RFC822Name": (["Rfc822Name"], [], True), "DNSName": (["DnsName"], [], True), "DirectoryName": (["DirectoryName"], [], True), "URI": None, "OtherName": None,
            "IPAddress/8": (["IpAddress", "V4"], [[("head", 4)], [("tail", 4)]], True), "IPAddress/32": (["IpAddress", "V6"], [[("head", 16)], [("tail", 16)]], True), "IPAddress/5": None}
    rep.ob("C17.tables", "%s|%s" % (cfg, fn), got == want, "GeneralName -> GeneralSubtree conversion inverts the writer's table; subnets are split addr||mask at 4 / 16 exactly when the octet string has 8 / 32 octets; other forms are skipped", expected=want, found=got)
    # name constraints: the two lists come from their own halves of the extension, and an extension that is present is
    # dropped (None) at most when *both* converted lists are empty
    fn = P + "convert_x509_name_constraints"
    rep.fn(fn)
    In_ = Interp(crate)
    outn = In_.run_fn(fn)
    bad_nc = []
    n_some = 0
    for c_, x_ in common.distribute(outn["value"]):
        x0_ = core(x_)
        inner_ = core(x0_.fields.get("0")) if isinstance(x0_, StructV) and x0_.variant == "Ok" and "0" in x0_.fields else None
        if inner_ is None:
            continue
        ext_present = any(a[0] == "some" and _re.search(r"name_constraints\((x509|tbs\w*)(\.tbs_certificate)?\)", a[1]) and F.evalf(c_, {b: (b == a) for b in F.atoms(c_)}) for a in F.atoms(c_)) or \
            any(a[0] == "some" and _re.search(r"name_constraints\((x509|tbs\w*)(\.tbs_certificate)?\)", a[1]) and not F.counterexamples(c_, ("atom", a), "implies") for a in F.atoms(c_) if len(F.atoms(c_)) <= 12)
        if isinstance(inner_, StructV) and inner_.variant == "Some":
            nc_ = core(inner_.fields.get("0"))
            if isinstance(nc_, StructV) and (nc_.adt or "").endswith("NameConstraints"):
                n_some += 1
                for fld, other in (("permitted_subtrees", "excluded_subtrees"), ("excluded_subtrees", "permitted_subtrees")):
                    fv_ = nc_.fields.get(fld)
                    txt_ = core(fv_).r() if fv_ is not None else ""
                    if fv_ is None or ("." + fld) not in txt_ and "Vec::new" not in txt_ or ("." + other) in txt_:
                        bad_nc.append("%s is not built from the extension's %s only: %s" % (fld, fld, txt_[-120:]))
        elif isinstance(inner_, StructV) and inner_.variant == "None" and ext_present:
            empt = [a for a in F.atoms(c_) if a[0] == "empty" and len(F.atoms(c_)) <= 12 and not F.counterexamples(c_, ("atom", a), "implies")]
            if not (any("permitted_subtrees" in a[1] for a in empt) and any("excluded_subtrees" in a[1] for a in empt)):
                bad_nc.append("a present extension is dropped when %s" % F.show(c_)[-160:])
    rep.ob("C17.tables", "%s|%s" % (cfg, fn), n_some >= 1 and not bad_nc, "imported name constraints keep both subtree lists (each from its own half of the extension); a present extension is dropped at most when both lists are empty", found=bad_nc or n_some)
    # is_ca: decision table over {extension present, cA, pathLen present, pathLen <= 255}
    fn = P + "convert_x509_is_ca"
    rep.fn(fn)
    Ic = Interp(crate)
    outc = Ic.run_fn(fn)
    somes = sorted((a[1] for c, v, n, f in Ic.fails for a in F.atoms(c) if a[0] == "some"), key=len)
    v0 = core(outc["value"])
    inner = core(v0.fields.get("0")) if isinstance(v0, StructV) and v0.variant == "Ok" else v0
    if isinstance(inner, PhiV):
        somes = sorted(set(somes) | {a[1] for c, x in inner.alts for a in F.atoms(c) if a[0] == "some"}, key=len)
    bc = somes[0] if somes else None
    ok = False
    found = None
    if bc and _re.search(r"basic_constraints\((x509|tbs\w*)(\.tbs_certificate)?\)", bc):
        plc = bc + "?.path_len_constraint"

        _BC = r"basic_constraints\((x509|tbs\w*)(\.tbs_certificate)?\)"

        def classify(a):
            # by what is tested of the parsed extension, whatever the access path (`ext.value`, a mapped Option, a
            # converter that receives `&ext.value`)
            if a[0] == "some" and (a[1] == bc or (_re.search(_BC, a[1]) and not a[1].endswith((".ca", ".path_len_constraint", ".path_len_constraint?")))):
                return ("present", True)
            if a[0] == "true" and _re.search(_BC, a[1]) and a[1].endswith(".ca"):
                return ("ca", True)
            if a[0] == "some" and _re.search(_BC, a[1]) and a[1].endswith(".path_len_constraint"):
                return ("plc", True)
            ub = common.upper_bound(Ic, a)
            if ub and _re.search(_BC, ub[0]) and ub[0].endswith(".path_len_constraint?") and ub[1] == 255:
                return ("fits", True)
            return None
        names = ["present", "ca", "plc", "fits"]
        tab, err = common.decision_table(Ic, outc, fn, classify, names)
        found = err

        def summ(kind, v):
            if kind == "Err":
                return "Err"
            x = core(v)
            if isinstance(x, StructV) and x.variant == "Ok":
                x = core(x.fields.get("0"))
            if not isinstance(x, StructV):
                return "?" + x.r()[:40]
            nm = (x.variant or "").split("::")[-1]
            if nm == "Ca":
                y = core(x.fields.get("0"))
                ynm = (getattr(y, "variant", None) or "?").split("::")[-1]
                if ynm == "Constrained":
                    z = y.fields.get("0")
                    zr = core(z).r()
                    exact = (zr == plc + "?" or (_re.search(_BC, zr) and zr.endswith(".path_len_constraint?"))) and not [r_ for r_ in roots(z) if r_.startswith("op:")]
                    return "Ca(Constrained(%s))" % ("n" if exact else zr[-40:])
                return "Ca(%s)" % ynm
            return nm
        if tab is not None:
            def ref(present, ca, plc_, fits):
                if not present:
                    return "NoCa"
                if not ca:
                    return "ExplicitNoCa"
                if not plc_:
                    return "Ca(Unconstrained)"
                return "Ca(Constrained(n))" if fits else "Err"
            bad = {}
            for bits, (kind, v) in tab.items():
                got = summ(kind, v)
                if got != ref(*bits):
                    bad[str(dict(zip(names, bits)))] = "%s, expected %s" % (got, ref(*bits))
            ok = not bad
            found = bad or "16 assignments agree"
    else:
        found = "basic constraints source not found (%s)" % (bc or "")[-80:]
    rep.ob("C17.tables", "%s|%s" % (cfg, fn), ok, "basicConstraints decision table: absent->NoCa; cA=false->ExplicitNoCa; cA, no pathLen->Ca(Unconstrained); cA, pathLen n<=255->Ca(Constrained(n)); cA, pathLen>255->Err", found=found)
    # name constraints: permitted <- permitted_subtrees, excluded <- excluded_subtrees
    fn = P + "convert_x509_name_constraints"
    rep.fn(fn)
    I = Interp(crate)
    I.run_fn(fn)
    lits = [(sv, node) for sv, node, f, c in I.structs if (sv.adt or "").endswith("NameConstraints") and f == fn]
    ok = False
    found = None
    if len(lits) == 1:
        sv = lits[0][0]
        # (the rendering, plus the places the value depends on: a list filled through `&mut` shows its source there)
        pt, et = [core(sv.fields.get(f_)).r() + " " + " ".join(sorted(r_ for r_ in roots(sv.fields.get(f_)) if not r_.startswith("atom:"))) for f_ in ("permitted_subtrees", "excluded_subtrees")]
        found = (pt[:120], et[:120])
        ok = ".permitted_subtrees" in pt and ".excluded_subtrees" not in pt and ".excluded_subtrees" in et and ".permitted_subtrees" not in et
    rep.ob("C17.tables", "%s|%s" % (cfg, fn), ok, "permitted/excluded subtrees are imported into the like-named lists", found=found)
