"""C01 - every issued artefact carries a valid signature over exactly its signed bytes."""
import formula as F
import schema as S
import refs as R
import common
from common import CERT_FN, CSR_FN, CRL_FN, SIGN_DER
from interp import known_fns, core, places, calls_of, roots, Interp, DerV, CallV, StructV, PhiV, Via, Def, MutV

PROP = "C01"
CONFIGS_QUICK = ["K1", "K2", "K3"]
CONFIGS_THOROUGH = ["K1", "K2", "K3", "K0"]
EXPLANATION = (
    "Static: the single sign-and-wrap routine (KeyPair::sign_der) and its three users are abstractly interpreted. Rules: the byte "
    "string embedded as TBS and the byte string handed to the signer are the same immutable value (object identity in the abstract "
    "interpretation); the outer element script is [TBS, AlgorithmIdentifier(signer.alg), BIT STRING(signature)]; the inner "
    "AlgorithmIdentifier of certificates/CRLs is produced from the same key place as the outer one and the two subtrees are "
    "identical; the signer is the issuer key (requester's key for CSRs); artefact values are only built from sign_der results that "
    "went through `?`; no Result on the signing chain is discarded; the algorithm table equals the RFC 4055/5758/8410 table and "
    "pairs each algorithm with the back-end constant of the same hash/curve; signature BIT STRINGs have len*8 bits. "
    "Decides these structural clauses; does not decide that the back end's signature verifies.")
ASSUMPTIONS = [
    "ring / aws-lc-rs / a remote signer return a signature valid for the message they are given (cryptography is not analysed)",
    "yasna::try_construct_der returns exactly the bytes its closure wrote",
]

ART_FNS = {"cert": CERT_FN, "csr": CSR_FN, "crl": CRL_FN}

# RFC table: static -> (SPKI oids, signature OID, params kind, back-end token)
ALGS = {
    "PKCS_RSA_SHA256": ([[1, 2, 840, 113549, 1, 1, 1]], [1, 2, 840, 113549, 1, 1, 11], "Null", "Rsa", "RSA_PKCS1_SHA256"),
    "PKCS_RSA_SHA384": ([[1, 2, 840, 113549, 1, 1, 1]], [1, 2, 840, 113549, 1, 1, 12], "Null", "Rsa", "RSA_PKCS1_SHA384"),
    "PKCS_RSA_SHA512": ([[1, 2, 840, 113549, 1, 1, 1]], [1, 2, 840, 113549, 1, 1, 13], "Null", "Rsa", "RSA_PKCS1_SHA512"),
    "PKCS_RSA_PSS_SHA256": ([[1, 2, 840, 113549, 1, 1, 10]], [1, 2, 840, 113549, 1, 1, 10], "RsaPss", "Rsa", "RSA_PSS_SHA256"),
    "PKCS_ECDSA_P256_SHA256": ([[1, 2, 840, 10045, 2, 1], [1, 2, 840, 10045, 3, 1, 7]], [1, 2, 840, 10045, 4, 3, 2], "None", "EcDsa", "ECDSA_P256_SHA256_ASN1_SIGNING"),
    "PKCS_ECDSA_P384_SHA384": ([[1, 2, 840, 10045, 2, 1], [1, 3, 132, 0, 34]], [1, 2, 840, 10045, 4, 3, 3], "None", "EcDsa", "ECDSA_P384_SHA384_ASN1_SIGNING"),
    "PKCS_ECDSA_P521_SHA512": ([[1, 2, 840, 10045, 2, 1], [1, 3, 132, 0, 35]], [1, 2, 840, 10045, 4, 3, 4], "None", "EcDsa", "ECDSA_P521_SHA512_ASN1_SIGNING"),
    "PKCS_ED25519": ([[1, 3, 101, 112]], [1, 3, 101, 112], "None", "EdDsa", "ED25519"),
}


def alg_statics(crate):
    return sorted(n for n in crate.statics if n.startswith("sign_algo::algo::PKCS_"))


def check_table(cfg, crate, rep):
    I = Interp(crate)
    names = alg_statics(crate)
    expect = 8 if cfg == "K2" else 7
    rep.floor("C01.table", "algorithm statics (%s)" % cfg, len(names), expect)
    for full in names:
        nm = full.split("::")[-1]
        rep.fn(full)
        if nm not in ALGS:
            rep.fail("C01.table", "%s|%s" % (cfg, nm), "algorithm static without a reference row (check its RFC registration and add it)")
            continue
        spki, sig, params, family, backend = ALGS[nm]
        v = core(I.const_value(full))
        if not isinstance(v, StructV):
            rep.fail("C01.table", "%s|%s" % (cfg, nm), "static is not a struct literal")
            continue
        got_spki = I.concrete(v.fields.get("oids_sign_alg"))
        rep.ob("C01.table", "%s|%s|spki-oids" % (cfg, nm), got_spki == spki, "SubjectPublicKeyInfo algorithm OIDs", expected=spki, found=got_spki)
        got_sig = I.concrete(v.fields.get("oid_components"))
        rep.ob("C01.table", "%s|%s|sig-oid" % (cfg, nm), got_sig == sig, "signature algorithm OID (RFC 4055 / 5758 / 8410)", expected=sig, found=got_sig)
        pv = core(v.fields.get("params"))
        pk = (pv.variant or "").split("::")[-1] if isinstance(pv, StructV) else None
        rep.ob("C01.table", "%s|%s|params" % (cfg, nm), pk == params, "AlgorithmIdentifier parameters: NULL for RSA PKCS#1 v1.5, absent for ECDSA/Ed25519", expected=params, found=pk)
        if cfg != "K3":
            sa = core(v.fields.get("sign_alg"))
            fam = (sa.variant or "").split("::")[-1] if isinstance(sa, StructV) else None
            be = core(sa.fields.get("0")) if isinstance(sa, StructV) and sa.fields else None
            bename = be.path.split("::")[-1] if isinstance(be, Def) else (be.r() if be is not None else None)
            rep.ob("C01.table", "%s|%s|backend" % (cfg, nm), fam == family and bename == backend, "paired back-end signing constant (same hash / curve)", expected="%s(%s)" % (family, backend), found="%s(%s)" % (fam, bename))
        rep.sample({"rule": "C01.table", "cfg": cfg, "alg": nm, "spki": got_spki, "sig_oid": got_sig, "params": pk})
    # writers of the identifier
    fn = "sign_algo::SignatureAlgorithm::alg_ident_oid"
    rep.fn(fn)
    # (when the one-line helper has been written out at its use, write_alg_ident below checks the same thing)
    v = core(Interp(crate).run_fn(fn)["value"]) if fn in crate.bodies else None
    ok_ = v is None or isinstance(v, CallV) and v.callee.endswith("ObjectIdentifier::from_slice") and places(v) == {"self.oid_components"}
    if not ok_ and isinstance(v, CallV) and v.callee.endswith("ObjectIdentifier::from_slice"):
        # the helper may take the arcs instead of the algorithm: then it is `from_slice(<its parameter>)` and every caller
        # hands it some algorithm's `.oid_components`
        ps_ = [p_.get("name") for p_ in crate.bodies[fn].get("params", []) if p_.get("k") == "Binding"]
        if len(ps_) == 1 and ps_[0] != "self" and places(v) == {ps_[0]}:
            sites_ = [(n_, ps2) for name_, b_ in common.all_bodies(crate) if not common.is_test_fn(name_) for c_, n_, ps2 in common.calls_in(b_) if c_ == fn]
            def _arg_ok(n_):
                a_ = (n_.get("args") or [None])[0]
                while isinstance(a_, dict) and a_.get("k") in ("AddrOf", "Deref", "Paren", "DropTemps") and a_.get("e"):
                    a_ = a_["e"]
                return isinstance(a_, dict) and a_.get("k") == "Field" and a_.get("name") == "oid_components"
            ok_ = bool(sites_) and all(_arg_ok(n_) for n_, _ in sites_)
    rep.ob("C01.table", "%s|%s" % (cfg, fn), ok_, "identifier OID = self.oid_components", found=v.r() if v is not None else "helper written out at its use")
    for fn, ref in (("sign_algo::SignatureAlgorithm::write_alg_ident", [R.alg_ident("self", "self")]),):
        rep.fn(fn)
        I2 = Interp(crate)
        out = I2.run_fn(fn)
        m = S.Matcher(I2, rep, "C01.table", "%s|%s" % (cfg, fn))
        m.match_list(S.canon_ref(ref), S.norm(out["items"]), ("AlgorithmIdentifier",))


def check_wrap(cfg, crate, rep):
    rep.fn(SIGN_DER, "key_pair::KeyPair::sign")
    I = Interp(crate)
    out = I.run_fn(SIGN_DER)
    d = common.find_der(out["value"])
    key = "%s|%s" % (cfg, SIGN_DER)
    if d is None:
        rep.fail("C01.wrap", key + "|outer", "sign_der does not build a DER value")
        return
    outer = S.norm(d.items)
    if len(outer) != 1 or outer[0]["t"] != "Seq":
        rep.fail("C01.wrap", key + "|outer", "outer value is not one SEQUENCE", found=S.render(I, outer)[:5])
        return
    kids = S.flatten(outer[0]["c"])
    # script: Raw(tbs), AlgId(self.alg), BIT STRING alternatives
    ok_script = len(kids) >= 3 and kids[0][2]["t"] == "Raw" and kids[0][0] is True and kids[1][2]["t"] == "Seq" and kids[1][0] is True and all(k[2]["t"] == "Prim" and k[2]["kind"] == "BIT STRING" for k in kids[2:])
    rep.ob("C01.wrap", key + "|script", ok_script, "outer SEQUENCE = [embedded TBS, AlgorithmIdentifier, BIT STRING signature]",
           found=[S.Matcher(I, rep, "x", "x").label(k[2]) for k in kids], sp=outer[0].get("sp"))
    if not ok_script:
        return
    raw = kids[0][2]
    tbs_v = core(raw["v"])
    rep.ob("C01.wrap", key + "|tbs-built-here", isinstance(tbs_v, DerV), "the embedded bytes are built by try_construct_der in sign_der itself", found=tbs_v.r(), sp=raw.get("sp"))
    # the embedded inner must be exactly SEQUENCE { f's elements }
    inner = raw.get("inner", [])
    ok_inner = len(inner) == 1 and inner[0]["t"] == "Seq"
    rep.ob("C01.wrap", key + "|tbs-shape", ok_inner, "TBS = one SEQUENCE written by the caller's closure", found=S.render(I, inner)[:3])
    # the local holding the bytes must be immutable and the same object must be signed
    signs = [(c, a, n, cond, f) for c, a, n, cond, f in I.calls if c == "key_pair::KeyPair::sign" and f == SIGN_DER]
    rep.ob("C01.wrap", key + "|one-sign", len(signs) == 1, "exactly one KeyPair::sign call in sign_der", found=len(signs))
    if signs:
        c, a, n, cond, f = signs[0]
        msg = a[1]
        same = core(msg) is tbs_v
        mutated = isinstance(msg, MutV) or isinstance(raw["v"], MutV)
        rep.ob("C01.wrap", key + "|same-bytes", same and not mutated,
               "the bytes signed are the very bytes embedded (same immutable local; no re-encoding, slicing or copy with edits in between)",
               expected=tbs_v.r(), found=core(msg).r() + (" (mutable binding)" if mutated else ""), sp=n.get("sp"))
        rep.ob("C01.wrap", key + "|signer-is-self", core(a[0]).r() == "self", "the signature is made by the receiver of sign_der", found=core(a[0]).r(), sp=n.get("sp"))
        rep.ob("C01.wrap", key + "|unconditional", cond is True, "the signature is written on every path", found=F.show(cond))
        # the `?` on sign
        tried = any(core(v) is not None and n2.get("e") is n for v, n2, f2, c2 in I.tries)
        how = None
        for bn_ in [SIGN_DER] + sorted(I.inlined):
            bb_ = crate.bodies.get(bn_)
            if not bb_ or "hir" not in bb_:
                continue
            for node_, ps_ in common.hir_walk_p(bb_["hir"]):
                if node_ is n:
                    how = _consumed(node_, ps_)
                    if bn_ != SIGN_DER and how in ("?", "tail", "return", "closure-result"):
                        # inside a helper of sign_der: the helper's own result must be propagated by its caller too
                        hows_ = []
                        for bn2_ in [SIGN_DER] + sorted(I.inlined):
                            b2_ = crate.bodies.get(bn2_)
                            for n2_, ps2_ in common.hir_walk_p((b2_ or {}).get("hir") or {}):
                                if n2_.get("k") in ("Call", "MethodCall") and common.facts_norm(n2_.get("inst") or n2_.get("callee") or "") == bn_:
                                    hows_.append(_consumed(n2_, ps2_))
                        if not hows_ or not all(h_ in ("?", "tail", "return", "closure-result") for h_ in hows_):
                            how = None
        rep.ob("C01.err", key + "|sign?", tried or how in ("?", "tail", "return", "closure-result"), "the result of KeyPair::sign is propagated (`?` or returned as the closure's result), never discarded", found=how, sp=n.get("sp"))
    # outer AlgorithmIdentifier from self.alg through write_alg_ident
    alg = kids[1][2]
    m = S.Matcher(I, rep, "C01.wrap", key)
    m.match_list(S.canon_ref([R.alg_ident("self.alg", "self.alg")]), [alg], ("outer-AlgorithmIdentifier",))
    # signature alternatives cover every key kind, each signs msg with its key
    conds = [k[0] for k in kids[2:]]
    kinds = []
    for cnd, reps, node in kids[2:]:
        vs = S._variants_of(cnd) or _sole_kind(node)
        kinds += vs
        a0 = node["args"][0]
        rts = roots(a0)
        signed = ("der@%s" % (tbs_v.node or {}).get("sp")) in rts if isinstance(tbs_v, DerV) else False
        keyed = any(p.startswith("self.kind") for p in places(a0))
        rep.ob("C01.wrap", key + "|sig-of-tbs|" + ",".join(vs), signed and keyed, "signature value is computed from the embedded TBS bytes with this key",
               found=sorted(rts), sp=node.get("sp"))
        # ... and is the signer's output itself: nothing but the signing call, its error conversion, the random source and
        # the buffer it fills may take part in computing the value that is written (no re-encoding, trimming, padding)
        def _sig_ok(c_):
            last_ = c_.split("::")[-1]
            if c_ in crate.bodies and c_ not in known_fns(crate.name) and "hir" in crate.bodies[c_]:
                return True         # a helper added by a later change: it was inlined, what it calls is in the list itself
            if c_ in crate.bodies and ((crate.bodies[c_].get("hir") or {}).get("ty") or "") in ("error::Error", "Error"):
                return True         # a local constructor of the crate's error value (handed to map_err / or_else)
            return last_ in ("sign", "sign_der", "_err", "map_err", "as_ref", "as_slice", "to_vec", "from_elem", "with_capacity", "new", "rsa_key_pair_public_modulus_len", "public_modulus_len", "public_key", "modulus_len", "deref", "into", "from", "clone", "as_mut_slice", "as_mut") \
                and not c_.startswith(("yasna::", "pem::"))
        extra_ = sorted(c_ for c_ in calls_of(a0) if not _sig_ok(c_))
        rep.ob("C01.wrap", key + "|sig-is-signer-output|" + ",".join(vs), not extra_, "the BIT STRING holds exactly what the signer returned", found=extra_, sp=node.get("sp"))
        e = R._whole_bits(node["args"][1], I) if len(node["args"]) > 1 else "no length"
        if e is None:
            from interp import CallV as _C
            l0 = core(node["args"][1])
            inner = [core(a) for a in l0.args if isinstance(core(a), _C)]
            if not inner or core(inner[0].args[0]).r() != core(a0).r():
                e = "length is taken from %s, bytes from %s" % (core(inner[0].args[0]).r()[:60] if inner else "?", core(a0).r()[:60])
        rep.ob("C01.bits", key + "|" + ",".join(vs), e is None, "signature BIT STRING has len*8 bits (no unused bits, whole signature)", found=core(node["args"][1]).r() if len(node["args"]) > 1 else None, sp=node.get("sp"))
    want_kinds = {"Remote"} if cfg == "K3" else {"Ec", "Ed", "Rsa", "Remote"}
    rep.ob("C01.wrap", key + "|kinds", set(kinds) == want_kinds, "one signature arm per key kind", expected=sorted(want_kinds), found=sorted(kinds))
    rep.sample({"rule": "C01.wrap", "cfg": cfg, "outer": S.render(I, outer)[:12]})


def _sole_kind(node):
    """an unconditional signature leaf (a build whose key enum has one variant, matched irrefutably and the result written
    once): the kind is the one variant whose payload the written value is computed from"""
    import re as _re
    ks = {m_.group(1) for p_ in places(node["args"][0]) for m_ in [_re.search(r"\.kind#(\w+)", p_)] if m_} if node.get("args") else set()
    return sorted(ks) if len(ks) == 1 else []


def check_sign_arms(cfg, crate, rep):
    """KeyPair::sign: each arm calls the back end with the key object of that arm, the message, and (RSA) the padding stored with the key."""
    fn = "key_pair::KeyPair::sign"
    I = Interp(crate)
    I.run_fn(fn)
    want = {"Ec": ["self.kind#Ec.0"], "Ed": ["self.kind#Ed.0"], "Rsa": ["self.kind#Rsa.0", "self.kind#Rsa.1"], "Remote": ["self.kind#Remote.0"]}
    seen = set()
    for cal, args, n, cond, f in I.calls:
        if f != fn or not cal.endswith("::sign") or cal == fn:
            continue
        vs = S._variants_of(cond) or []
        if len(vs) != 1:
            continue
        v = vs[0]
        seen.add(v)
        rendered = [core(a).r() for a in args]
        ok = all(w in rendered for w in want.get(v, ["?"])) and "msg" in rendered
        rep.ob("C01.wrap", "%s|%s|backend-call|%s" % (cfg, fn, v), ok, "the back-end signing call receives this arm's key object%s and the message" % (", the padding scheme stored with the key" if v == "Rsa" else ""), expected=want.get(v, []) + ["msg"], found=rendered[:5], sp=n.get("sp"))
    want_kinds = {"Remote"} if cfg == "K3" else {"Ec", "Ed", "Rsa", "Remote"}
    rep.ob("C01.wrap", "%s|%s|backend-call|arms" % (cfg, fn), seen == want_kinds, "one back-end call per key kind", expected=sorted(want_kinds), found=sorted(seen))
    # the written bits are the whole signature value
    items = S.norm(I.run_fn(fn)["items"]) if False else None


def check_artefacts(cfg, crate, rep):
    for kind, fn in ART_FNS.items():
        rep.fn(fn)
        art = common.artefact(crate, fn)
        key = "%s|%s" % (cfg, fn)
        if art.tbs is None:
            rep.fail("C01.algid", key + "|tbs", "artefact is not produced through sign_der (no embedded TBS found)")
            continue
        signer = {"cert": "issuer.key_pair", "crl": "issuer.key_pair", "csr": "subject_key"}[kind]
        outer_kids = S.flatten(art.outer[0]["c"])
        outer_alg = outer_kids[1][2] if len(outer_kids) > 1 else None
        m = S.Matcher(art.I, rep, "C01.algid", key)
        m.match_list(S.canon_ref([R.alg_ident(signer + ".alg", signer + ".alg")]), [outer_alg] if outer_alg else [], ("outer-AlgorithmIdentifier",))
        # the signature arms are keyed on the signer's kind
        for cnd, reps, node in outer_kids[2:]:
            pl = {a[1] for a in F.atoms(cnd) if a[0] == "variant"}
            if not pl and _sole_kind(node):
                import re as _re
                pl = {_re.sub(r"#\w+.*$", "", p_) for p_ in places(node["args"][0]) if ".kind#" in p_}
            rep.ob("C01.signer", key + "|sig-key|" + ",".join(S._variants_of(cnd) or []), pl == {signer + ".kind"}, "signature is made with the %s" % ("issuer key" if kind != "csr" else "requester's own key"), expected=signer + ".kind", found=sorted(pl), sp=node.get("sp"))
        tbs_kids = S.flatten(art.tbs[0]["c"]) if art.tbs and art.tbs[0]["t"] == "Seq" else []
        if kind in ("cert", "crl"):
            idx = 2 if kind == "cert" else 1
            # locate the inner AlgorithmIdentifier: first unconditional SEQUENCE whose first child is an OID from a key's alg
            inner_alg = None
            for cnd, reps, node in tbs_kids:
                if node["t"] == "Seq" and cnd is True and node["c"] and node["c"][0]["t"] == "Prim" and node["c"][0]["kind"] == "OID" and (any("alg_ident_oid" in c for c in calls_of(node["c"][0]["args"][0])) or any(pl_.endswith(".oid_components") for pl_ in places(node["c"][0]["args"][0]))):
                    inner_alg = node
                    break
            if inner_alg is None:
                rep.fail("C01.algid", key + "|inner", "no inner AlgorithmIdentifier found in the TBS")
                continue
            m.match_list(S.canon_ref([R.alg_ident(signer + ".alg", signer + ".alg")]), [inner_alg], ("inner-AlgorithmIdentifier",))
            same = S.render(art.I, [inner_alg]) == S.render(art.I, [outer_alg])
            a = [l.split("   --")[0] for l in S.render(art.I, [inner_alg])]
            b = [l.split("   --")[0] for l in S.render(art.I, [outer_alg])]
            rep.ob("C01.algid", key + "|inner==outer", a == b, "inner and outer AlgorithmIdentifier are the same function of the same key's algorithm (byte-identical)", expected=b[:4], found=a[:4], sp=inner_alg.get("sp"))
        else:
            # CSR: the SPKI is the requester's key and the same key signs
            spkis = [node for cnd, reps, node in tbs_kids if node["t"] == "Seq" and any(n2["t"] == "Prim" and n2["kind"] == "BIT STRING" for n2 in node["c"])]
            ok = len(spkis) == 1
            if ok:
                mm = S.Matcher(art.I, rep, "C01.signer", key)
                mm.match_list(S.canon_ref([R.spki("subject_key")]), spkis, ("subjectPKInfo",))
            else:
                rep.fail("C01.signer", key + "|spki", "CSR does not contain exactly one SubjectPublicKeyInfo")
        rep.sample({"rule": "C01.algid", "cfg": cfg, "artefact": kind, "outer_alg": [l.split('   --')[0] for l in S.render(art.I, [outer_alg])][:3] if outer_alg else None})


def check_signer_and_only(cfg, crate, rep):
    entry = ["certificate::CertificateParams::signed_by", "certificate::CertificateParams::self_signed",
             "csr::CertificateSigningRequestParams::signed_by", "crl::CertificateRevocationListParams::signed_by",
             CSR_FN]
    want_key = {"certificate::CertificateParams::signed_by": "issuer_key", "certificate::CertificateParams::self_signed": "key_pair",
                "csr::CertificateSigningRequestParams::signed_by": "issuer_key", "crl::CertificateRevocationListParams::signed_by": "issuer_key"}
    n_issuer = 0
    n_art = 0
    for fn in entry:
        rep.fn(fn)
        I = Interp(crate, no_inline={CERT_FN, CRL_FN, SIGN_DER})
        I.run_fn(fn)
        for sv, node, f, cond in I.structs:
            if f != fn:
                continue
            adt = sv.adt or ""
            if adt.endswith("Issuer"):
                n_issuer += 1
                kp = sv.fields.get("key_pair")
                rep.ob("C01.signer", "%s|%s|Issuer.key_pair" % (cfg, fn), kp is not None and core(kp).r() == want_key.get(fn), "the signing key of the issuer view is the issuer key given by the caller", expected=want_key.get(fn), found=core(kp).r() if kp else None, sp=node.get("sp"))
            if adt.endswith(("certificate::Certificate", "csr::CertificateSigningRequest", "crl::CertificateRevocationList")):
                n_art += 1
                d = sv.fields.get("der")
                cs = calls_of(d) if d is not None else set()
                through = any(c in (CERT_FN, CRL_FN, SIGN_DER) for c in cs)
                tried = _has_try(d)
                rep.ob("C01.only", "%s|%s|%s.der" % (cfg, fn, adt.split("::")[-1]), through and tried, "artefact bytes come from the sign-and-wrap routine and its Result went through `?` (no artefact on signer failure)", found=core(d).r() if d is not None else None, sp=node.get("sp"))
    rep.floor("C01.signer", "Issuer literals (%s)" % cfg, n_issuer, 4)
    rep.floor("C01.only", "artefact literals (%s)" % cfg, n_art, 5)
    # serialize fns return the sign_der result
    for fn in (CERT_FN, CRL_FN):
        I = Interp(crate, no_inline={SIGN_DER})
        v = I.run_fn(fn)["value"]
        rep.ob("C01.only", "%s|%s|returns-sign_der" % (cfg, fn), SIGN_DER in calls_of(v), "serializer returns the sign_der result", found=core(v).r()[:200])
    # who may call sign / build artefacts
    callers = set()
    lits = {}
    for name, b in common.all_bodies(crate):
        if common.is_test_fn(name) or name in crate.derived_fns:
            continue
        for callee, n, ps in common.calls_in(b):
            if callee == "key_pair::KeyPair::sign":
                callers.update(common.known_owners(crate, name))      # a helper of sign_der acts on its behalf
        for n in common.hir_walk(b["hir"]):
            if n["k"] == "Struct" and (n.get("adt") or "").endswith(("certificate::Certificate", "csr::CertificateSigningRequest", "crl::CertificateRevocationList")):
                lits.setdefault(n["adt"], set()).update(common.known_owners(crate, name))
    rep.ob("C01.only", "%s|callers-of-sign" % cfg, callers == {SIGN_DER}, "KeyPair::sign is called only by sign_der", expected=[SIGN_DER], found=sorted(callers))
    allowed = {"certificate::Certificate": {"certificate::CertificateParams::signed_by", "certificate::CertificateParams::self_signed", "csr::CertificateSigningRequestParams::signed_by"},
               "csr::CertificateSigningRequest": {CSR_FN}, "crl::CertificateRevocationList": {"crl::CertificateRevocationListParams::signed_by"}}
    for adt, fns in lits.items():
        short = "::".join(adt.split("::")[-2:])
        extra = fns - allowed.get(short, set())
        rep.ob("C01.only", "%s|constructors|%s" % (cfg, short), not extra, "artefact values are constructed only in the issuing functions", expected=sorted(allowed.get(short, [])), found=sorted(fns))


def _has_try(v):
    while v is not None:
        if isinstance(v, Via):
            if v.name == "?":
                return True
            v = v.inner
        elif isinstance(v, MutV):
            v = v.base
        else:
            return False
    return False


DISCARDERS = {"ok", "unwrap_or", "unwrap_or_default", "unwrap_or_else", "is_ok", "is_err", "map_or", "err", "unwrap", "expect", "and", "or"}


def check_err(cfg, crate, rep):
    chain = [SIGN_DER, "key_pair::KeyPair::sign", CERT_FN, CRL_FN, CSR_FN, "certificate::CertificateParams::serialize_request",
             "certificate::CertificateParams::signed_by", "certificate::CertificateParams::self_signed",
             "csr::CertificateSigningRequestParams::signed_by", "crl::CertificateRevocationListParams::signed_by"]
    n = 0
    for fn in chain:
        b = crate.body(fn)
        rep.fn(fn)
        for node, ps in common.hir_walk_p(b["hir"]):
            ty = node.get("ty", "")
            if node["k"] in ("Call", "MethodCall") and ty.startswith("std::result::Result<") and "Error>" in ty:
                callee = node.get("inst") or node.get("callee") or node.get("name")
                if callee in ("Ok", "Err"):
                    continue
                n += 1
                parent = ps[-1] if ps else None
                how = _consumed(node, ps)
                rep.ob("C01.err", "%s|%s|%s" % (cfg, fn, callee), how is not None, "fallible call on the signing chain must be propagated (`?`, tail/return value, or matched), never discarded",
                       found="discarded" if how is None else how, sp=node.get("sp"))
    rep.floor("C01.err", "fallible calls on the signing chain (%s)" % cfg, n, 8 if cfg != "K3" else 6)
    # the remote signer specifically
    b = crate.body("key_pair::KeyPair::sign")
    remote = [(node, ps) for node, ps in common.hir_walk_p(b["hir"]) if node["k"] == "MethodCall" and (node.get("callee") or "").endswith("RemoteKeyPair::sign")]
    Ir = Interp(crate)
    Ir.run_fn("key_pair::KeyPair::sign")
    okp, whyp, nodep = common.err_propagates(Ir, "key_pair::KeyPair::sign", lambda c: c.endswith("RemoteKeyPair::sign"))
    rep.ob("C01.err", "%s|remote-sign" % cfg, okp, "the remote signer's error is propagated: whenever RemoteKeyPair::sign returns Err, KeyPair::sign returns Err", found=whyp, sp=(nodep or {}).get("sp"))


def _consumed(node, ps):
    """How the value of `node` is consumed by its context: '?', 'tail', 'return', 'match', 'let', 'arg' or None (discarded)."""
    child = node
    for parent in reversed(ps):
        k = parent["k"]
        if k == "Try" and parent.get("e") is child:
            return "?"
        if k == "Ret":
            return "return"
        if k == "Match" and parent.get("scrut") is child:
            return "match"
        if k == "MethodCall" and parent.get("recv") is child:
            if parent["name"] in DISCARDERS:
                return None
            child = parent
            continue
        if k in ("Call", "MethodCall"):
            return "arg"
        if k == "Block":
            if parent.get("expr") is child:
                child = parent
                continue
            for s in parent["stmts"]:
                if s["k"] == "Let" and s.get("init") is child:
                    return "let" if s["pat"]["k"] != "Wild" else None
                if s["k"] in ("Semi", "Expr") and s.get("e") is child:
                    return None if s["k"] == "Semi" else "tail"
            return "tail"
        if k in ("If", "Closure"):
            if k == "Closure":
                return "closure-result"
            child = parent
            continue
        if k == "Struct":
            return "field"
        child = parent
    return "tail"


def run(ctx):
    rep = ctx.rep
    for cfg in (CONFIGS_QUICK if ctx.tier == "quick" else CONFIGS_THOROUGH):
        crate = ctx.crate(cfg)
        check_wrap(cfg, crate, rep)
        check_sign_arms(cfg, crate, rep)
        check_artefacts(cfg, crate, rep)
        check_signer_and_only(cfg, crate, rep)
        check_err(cfg, crate, rep)
        check_table(cfg, crate, rep)
        if cfg != "K3":
            # a loaded key signs with the back-end constant its loader chose: the (algorithm, constant) pairing of every
            # loader arm is a necessary condition of "the signature verifies under the declared algorithm"
            import c11
            common.borrow_rules(rep, lambda: c11.check_pairs(cfg, crate, rep, {}), "C11.", "C01.keys")
