"""C19 - private key material never leaks into public outputs or diagnostics."""
import re
import formula as F
import common
from interp import core, places, calls_of, roots, Interp, CallV, PhiV, StructV, Via, MutV, Const, Def

PROP = "C19"
CONFIGS_QUICK = ["K1", "K2", "K4"]
CONFIGS_THOROUGH = ["K1", "K2", "K3", "K4", "K5"]
EXPLANATION = (
    "Static who-may-read and taint rules: (read) the field holding the private key document (KeyPair.serialized_der) is read only in the "
    "two export accessors and the Zeroize impl (positive control: those reads must be found), is pub(crate) at most, and the accessors "
    "are called inside the workspace only by serialize_pem and the CLI's key-file path - hence no certificate / CSR / CRL / public-key "
    "writer, Debug impl or error constructor can contain it; (debug) Debug for KeyPair and KeyPairKind is hand-written, not derived; "
    "(taint) in every loader the input buffer (PEM text, PKCS#8 / DER bytes) flows only to back-end parse functions, pem::parse, "
    "rustls-pki-types conversions, copies, another rcgen loader, or the stored-document field - never into an Error payload, a format "
    "call or a Debug rendering; (err) every Error variant with a String payload is built from to_string() of a foreign error value or "
    "a constant. Not decided: what the back ends' own Debug / error Display implementations print (reviewed for the pinned versions: "
    "public components / framing only; trusted).")
ASSUMPTIONS = ["ring / aws-lc-rs Debug impls of key pair objects print public components only", "ring KeyRejected / Unspecified and x509-parser error Display texts do not quote input bytes; pem::PemError does (InvalidHeader, MismatchedTags) and is modelled: InvalidHeader must be masked"]

KP = "key_pair::KeyPair"
READERS = {KP + "::serialize_der", KP + "::serialized_der", "<impl zeroize::Zeroize for key_pair::KeyPair>::zeroize"}
ALLOWED_CONSUMERS = (
    "pem::parse", "pem::Pem::contents", "pem::Pem::into_contents", "rustls_pki_types::", "::to_vec", "::into", "::as_ref", "::try_from", "::try_into", "::from",
    "ring::signature::", "ring::rsa::", "aws_lc_rs::signature::", "aws_lc_rs::rsa::", "ring_like::ecdsa_from_pkcs8", "ring_like::ecdsa_from_private_key_der",
    "key_pair::KeyPair::from_", "<key_pair::KeyPair as std::convert::TryFrom", "::_err", "std::result::Result::map_err", "std::result::Result::or", "std::ops::Deref::deref",
    "<indirect:", "std::ops::FnOnce::call_once", "::clone", "::borrow", "Ok", "Err",
)


RENDERING = ("std::fmt", "core::fmt", "alloc::fmt", "ToString", "::to_string", "std::io", "std::fs", "std::process", "std::env", "std::thread", "std::net",
             "std::sync::mpsc", "panicking", "std::panic", "core::panic", "format", "print", "std::any", "std::error")
_RENDER_LAST = re.compile(r"::(unwrap|expect|unwrap_err|expect_err|unwrap_unchecked)$")


def std_non_rendering(callee, crate):
    """A foreign callee that lives entirely in std / core / alloc (every path in its resolved name, including the
    generic arguments of an impl, starts with one of them or with a module of the analysed crate) and is not a
    formatting, I/O, process, panic or unwrapping entry point.  Such combinators (Result::ok, Option::map, slice and
    iterator adaptors, ...) only move the value; whatever they return is still tracked as key material."""
    if callee in crate.bodies:
        return False
    if any(x in callee for x in RENDERING) or _RENDER_LAST.search(callee):
        return False
    local = {k.lstrip("<").split("::")[0] for k in crate.bodies}
    firsts = set(re.findall(r"(?<![\w:])([A-Za-z_]\w*)::", callee))
    return bool(firsts) and all(f in ("std", "core", "alloc") or f in local for f in firsts)


def run(ctx):
    rep = ctx.rep
    for cfg in (CONFIGS_QUICK if ctx.tier == "quick" else CONFIGS_THOROUGH):
        if cfg in ("K4", "K5"):
            cli(cfg, ctx, rep)
            continue
        crate = ctx.crate(cfg)
        read(cfg, crate, rep)
        export(cfg, crate, rep)
        debug(cfg, crate, rep)
        if cfg != "K3":
            taint(cfg, crate, rep)
            pubsrc(cfg, crate, rep)
        errs(cfg, crate, rep)


def field_reads(crate, adt, field):
    out = {}
    for name, b in common.all_bodies(crate):
        if common.is_test_fn(name):
            continue
        for n in common.hir_walk(b["hir"]):
            if n["k"] == "Field" and n.get("adt") == adt and n["name"] == field:
                out.setdefault(name, []).append(n)
            # struct patterns binding the field
            if n.get("k") == "Struct" and "fields" in n and "rest" in n and (n.get("def") == adt):
                if any(f["name"] == field for f in n["fields"]):
                    out.setdefault(name, []).append(n)
    return out


def read(cfg, crate, rep):
    rd = field_reads(crate, KP, "serialized_der")
    rd = {k: v for k, v in rd.items() if k not in crate.derived_fns}
    want = {r for r in READERS if r in crate.bodies}
    rep.ob("C19.read", "%s|readers" % cfg, set(rd) <= want and bool(rd), "the private key document is read only by the export accessors (and Zeroize)", expected=sorted(want), found=sorted(rd))
    rep.floor("C19.read", "reads of KeyPair.serialized_der (%s)" % cfg, sum(len(v) for v in rd.values()), 2)
    adt = crate.adts.get(KP)
    vis = {f["name"]: f["vis"] for f in adt["variants"][0]["fields"]} if adt else {}
    rep.ob("C19.vis", "%s|field-visibility" % cfg, vis.get("serialized_der") in ("crate",) or (vis.get("serialized_der") or "").startswith("in:"), "the field is not readable from outside the crate", found=vis)
    # who calls the accessors inside the crate
    callers = {}
    for name, b in common.all_bodies(crate):
        if common.is_test_fn(name):
            continue
        for callee, n, ps in common.calls_in(b):
            if callee in (KP + "::serialize_der", KP + "::serialized_der"):
                callers.setdefault(callee, set()).add(name)
    flat = set().union(*callers.values()) if callers else set()
    ok_callers = {KP + "::serialize_pem"} | want   # the export accessors may be written in terms of each other
    rep.ob("C19.read", "%s|accessor-callers" % cfg, flat <= ok_callers, "inside rcgen the export accessors are used only by serialize_pem (and by each other)", expected=sorted(ok_callers), found=sorted(flat))
    # the export accessors hand the document to the caller and keep no second copy: no store into shared / interior-mutable
    # state (a memo slot, a static, a thread-local) happens on their behalf -- another accessor could read it back
    import re as _re
    store = _re.compile(r"(OnceLock|OnceCell|LazyLock|LazyCell|Mutex|RwLock|RefCell|Cell|LocalKey|AtomicPtr)\b.*::(get_or_init|get_or_try_init|set|replace|insert|lock|write|borrow_mut|with|with_borrow_mut|store|swap|get_mut_or_init|force)$")
    kept = []
    for fn_ in sorted(want | {KP + "::serialize_pem"}):
        if fn_ not in crate.bodies:
            continue
        I_ = Interp(crate)
        try:
            I_.run_fn(fn_)
        except Exception as e:      # fail closed
            kept.append("%s: not analysable (%s)" % (fn_, e))
            continue
        for c_, a_, n_, cond_, f_ in I_.calls:
            if store.search(c_):
                kept.append("%s: %s" % (fn_.split("::")[-1], c_))
    rep.ob("C19.read", "%s|no-retention" % cfg, not kept, "the private-key export accessors store nothing into shared or interior-mutable state", found=kept)
    # no struct literal copies the field elsewhere: KeyPair literals are the only writers
    # derived impls on KeyPair (Clone/Debug/...) would copy or print the document
    derived = [im.get("trait") for im in crate.impls if im.get("self_adt") == KP and im.get("derived")]
    rep.ob("C19.debug", "%s|KeyPair-no-derives" % cfg, not derived, "KeyPair derives nothing (a derived Debug would print the document)", found=derived)


def debug(cfg, crate, rep):
    for adt in (KP, "key_pair::KeyPairKind"):
        ims = [im for im in crate.impls if im.get("self_adt") == adt and im.get("trait") == "std::fmt::Debug"]
        rep.ob("C19.debug", "%s|%s|hand-written" % (cfg, adt), len(ims) == 1 and not ims[0].get("derived"), "Debug is hand-written", found=[(im.get("trait"), im.get("derived")) for im in ims])
    fn = "<key_pair::KeyPair as std::fmt::Debug>::fmt"
    if fn in crate.bodies:
        b = crate.body(fn)
        lits = [n.get("v") for n in common.hir_walk(b["hir"]) if n["k"] == "Lit" and n.get("lk") == "str"]
        fields = [n["name"] for n in common.hir_walk(b["hir"]) if n["k"] == "Field" and n.get("adt") == KP]
        rep.ob("C19.debug", "%s|KeyPair-debug-elides" % cfg, "serialized_der" not in fields and any("elided" in (x or "") for x in lits), "KeyPair's Debug prints a placeholder instead of the document", found={"fields": fields, "literals": lits})
    # every type embedding a KeyPair: a derived Debug goes through KeyPair's (eliding) Debug; Display/other printers must not exist
    emb = []
    for name, a in crate.adts.items():
        for v in a["variants"]:
            for f in v["fields"]:
                if "key_pair::KeyPair" in f["ty"] and "KeyPairKind" not in f["ty"] and name != KP:
                    emb.append(name)
    for name in sorted(set(emb)):
        prs = [im.get("trait") for im in crate.impls if im.get("self_adt") == name and im.get("trait") in ("std::fmt::Display", "std::fmt::Debug") and not im.get("derived")]
        rep.ob("C19.debug", "%s|embedding|%s" % (cfg, name), not prs, "types that embed a KeyPair have no hand-written printer", found=prs)


LOADERS = [KP + "::from_pem", KP + "::from_pkcs8_pem_and_sign_algo", KP + "::from_pkcs8_der_and_sign_algo", KP + "::from_pem_and_sign_algo", KP + "::from_der_and_sign_algo"]


def _strip_foreign_errors(v):
    """`v` with every error payload of a parser / conversion call (`pem::parse(text)#Err.0`, ..) replaced by a constant: a
    foreign error value is not the loader input -- what *it* may render is the subject of C19.err (quoting variants of
    pem's error are masked there), so handing it to `to_string()` / into `Error::X(..)` is not a flow of key material."""
    from interp import Sel, Via, CallV, StructV, PhiV, TupleV, Const
    if isinstance(v, Sel):
        b0 = core(v.base)
        from interp import flatten_phi
        alts_ = [core(x) for _, x in flatten_phi(b0)] if isinstance(b0, PhiV) else [b0]
        if v.sel.startswith("#Err") and alts_ and all(isinstance(x, CallV) and any(y in x.callee for y in ALLOWED_CONSUMERS) for x in alts_):
            return Const("<foreign error>")
        return Sel(_strip_foreign_errors(v.base), v.sel)
    if isinstance(v, Via):
        return Via(v.name, _strip_foreign_errors(v.inner), v.callee)
    if isinstance(v, CallV):
        return CallV(v.callee, [_strip_foreign_errors(a) for a in v.args], v.node, getattr(v, "inst", None))
    if isinstance(v, StructV):
        return StructV(v.adt, v.variant, {k: _strip_foreign_errors(x) for k, x in v.fields.items()}, v.base, v.node)
    if isinstance(v, PhiV):
        return PhiV([(c, _strip_foreign_errors(x)) for c, x in v.alts])
    if isinstance(v, TupleV):
        return TupleV([_strip_foreign_errors(x) for x in v.items])
    return v


def taint(cfg, crate, rep):
    fns = [f for f in LOADERS if f in crate.bodies] + [k for k in crate.bodies if k.startswith("<key_pair::KeyPair as std::convert::TryFrom<") and k.endswith("::try_from") and "hir" in crate.bodies[k]]
    n_calls = 0
    for fn in fns:
        rep.fn(fn)
        body = crate.body(fn)
        tainted = {p["name"] for p in body.get("params", []) if p.get("k") == "Binding" and p["name"] in ("pem_str", "pkcs8", "key")}
        I = Interp(crate)
        I.run_fn(fn)
        for callee, args, node, cond, f in I.calls:
            if f != fn:
                continue
            hit = [a for a in args if any(p.split(".")[0].split("#")[0].split("[")[0].split("?")[0] in tainted for p in places(_strip_foreign_errors(a)))]
            if not hit:
                continue
            n_calls += 1
            ok = any(x in callee for x in ALLOWED_CONSUMERS) or callee in crate.bodies and callee.startswith(("key_pair::KeyPair::from_", "ring_like::")) or callee in I.inlined \
                or std_non_rendering(callee, crate)
            rep.ob("C19.taint", "%s|%s|%s" % (cfg, fn, callee), ok, "key material (loader input) is handed to a function that is not a parser / conversion / copy: it could end up in an error, log or rendering", found=callee, sp=node.get("sp"))
        # error values built in the loader must not carry the input
        for sv, node, f, c in I.structs:
            if f == fn and ((sv.variant or "").startswith("error::Error::") or (sv.variant or "").startswith("error::InvalidAsn1String::")):
                pl = set()
                for x in sv.fields.values():
                    pl |= places(_strip_foreign_errors(x))
                bad = [p for p in pl if p.split(".")[0].split("#")[0].split("[")[0].split("?")[0] in tainted]
                rep.ob("C19.taint", "%s|%s|error|%s" % (cfg, fn, sv.variant.split("::")[-1]), not bad, "an error value built in a key loader carries the loader input", found=bad, sp=node.get("sp"))
        # stored document: only KeyPair.serialized_der may hold a copy
        for sv, node, f, c in I.structs:
            if f == fn and sv.adt and sv.adt != KP and not (sv.variant or "").startswith(("error::", "Ok", "Err", "Some")) and not (sv.adt or "").startswith("std::"):
                pl = set()
                for x in sv.fields.values():
                    pl |= places(x)
                bad = [p for p in pl if p.split(".")[0].split("#")[0] in tainted]
                # a crate-private carrier type that nothing can render (no fmt impl of any kind, not nameable from outside the
                # crate) is as inert as a tuple
                ad_ = crate.adts.get(sv.adt) or {}
                inert = bool(ad_) and not ad_.get("reachable") and ad_.get("vis") != "pub" \
                    and not [im for im in crate.impls if im.get("self_adt") == sv.adt and (im.get("trait") or "").startswith(("std::fmt::", "core::fmt::", "std::string::ToString", "serde::"))]
                if bad and not (sv.variant or "").startswith("key_pair::KeyPairKind::") and not inert:
                    rep.fail("C19.taint", "%s|%s|copied-into|%s" % (cfg, fn, sv.adt), "loader input copied into another value", found=bad, sp=node.get("sp"))
    rep.floor("C19.taint", "calls receiving loader input (%s)" % cfg, n_calls, 12)


# pem 3.0.x (errors.rs): the variants whose Display interpolates text taken from the input.  InvalidHeader(line) quotes the
# offending line; MismatchedTags(begin, end) quotes both "tags", and a BEGIN line that lost a dash makes the "tag" run
# on over the whole base64 body.  (InvalidData / NotUtf8 format positions and byte values only.)
PEM_QUOTING_VARIANTS = ("InvalidHeader", "MismatchedTags")
FOREIGN_ERRORS = ("KeyRejected", "PemError", "X509Error", "nom::Err", "asn1_rs::", "Unspecified")


def pubsrc(cfg, crate, rep):
    """The public-key values rcgen builds from caller-supplied encodings (SubjectPublicKeyInfo::from_der/from_pem, the
    public key of an imported CSR) are printed by their derived Debug and copied into every certificate issued for them.
    The bytes they retain are the subjectPublicKey BIT STRING the X.509 parser extracted from a SubjectPublicKeyInfo --
    never the caller's input as handed in (a private-key document given by mistake would then be published)."""
    from interp import roots
    n = 0
    for fn in ("key_pair::SubjectPublicKeyInfo::from_der", "csr::CertificateSigningRequestParams::from_der"):
        if fn not in crate.bodies:
            continue
        rep.fn(fn)
        I = Interp(crate)
        I.run_fn(fn)
        for sv, node, f, c in I.structs:
            if sv.adt not in ("key_pair::SubjectPublicKeyInfo", "csr::PublicKey"):
                continue
            for k, x in sv.fields.items():
                if k == "alg":
                    continue        # an entry of the algorithm table
                rs = roots(x)
                n += 1
                ok = "sel:.subject_public_key" in rs and any(r_.startswith("call:") and "x509_parser" in r_ and r_.endswith("::from_der") for r_ in rs)
                rep.ob("C19.pubsrc", "%s|%s|%s.%s" % (cfg, fn, sv.adt.split("::")[-1], k), ok, "the bytes a public-key value retains are the subjectPublicKey the X.509 parser extracted, not the caller's input as given", found=sorted(r_ for r_ in rs if not r_.startswith("atom:"))[:8], sp=node.get("sp"))
    if "key_pair::SubjectPublicKeyInfo::from_der" in crate.bodies:
        rep.floor("C19.pubsrc", "public-key literals built from caller input (%s)" % cfg, n, 2)


def errs(cfg, crate, rep):
    """Error variants with a String payload are built from to_string() of a foreign error or a constant.
    Decided on values: every alternative of the payload (through case splits, helper functions, closures) is a constant
    text or `<foreign error>.to_string()`; for pem::PemError the alternative that stringifies the error must be
    unreachable when the error is InvalidHeader (whose Display quotes the offending input line)."""
    from interp import flatten_phi
    n = 0
    fns = set()
    for name, b in common.all_bodies(crate):
        if common.is_test_fn(name) or name in crate.derived_fns:
            continue
        for node in common.hir_walk(b["hir"]):
            if node["k"] == "Call" and "Ctor" in node.get("dk", "") and (node.get("ctor_of") or "").startswith("error::Error::") and node["args"] and node["args"][0].get("ty") == "std::string::String":
                fns.add(name.split("::{closure")[0])
    for name in sorted(fns):
        I = Interp(crate)
        try:
            I.run_fn(name)
        except Exception as e:  # fail closed below: no construction will be found
            rep.fail("C19.err", "%s|%s" % (cfg, name), "function not interpretable: %s" % e)
            continue
        seen = set()
        for sv, node, f, c in I.structs:
            var = (sv.variant or "")
            if not var.startswith("error::Error::") or "0" not in sv.fields or node.get("args", [{}])[0].get("ty") != "std::string::String":
                continue
            if id(node) in seen:
                continue
            seen.add(id(node))
            n += 1
            var = var.split("::")[-1]
            bad = []
            srcs = []
            pem_unmasked = None
            for cond, leaf in flatten_phi(sv.fields["0"]):
                x = core(leaf)
                ts = _to_string_via(leaf)
                if isinstance(x, Const) and ts is None:
                    srcs.append("constant")
                    continue
                if ts is not None:
                    x = CallV("to_string", [ts.inner], getattr(ts, "node", None))
                if isinstance(x, CallV) and x.callee.split("::")[-1] == "to_string" and x.args:
                    recv = (x.node or {}).get("recv") or ((x.node or {}).get("args") or [{}])[0]
                    r = recv
                    while r.get("k") in ("AddrOf", "Unary"):
                        r = r["e"]
                    rt = r.get("ty", "")
                    inner = core(x.args[0])
                    if isinstance(inner, Const) or r.get("k") == "Lit":
                        srcs.append("constant")
                        continue
                    if any(k in rt for k in FOREIGN_ERRORS):
                        srcs.append(rt.split("::")[-1])
                        if "PemError" in rt:
                            # this alternative must not be taken for any variant whose Display quotes input text
                            full = F.And(c, cond)
                            ats = F.atoms(full)
                            for vname in PEM_QUOTING_VARIANTS:
                                a_ = ("variant", inner.r(), vname)
                                if a_ not in ats:
                                    pem_unmasked = "e.to_string() reachable for %s" % vname
                                    break
                                # satisfiable with this variant true?
                                if any(F.evalf(full, asg) for asg in F.assignments(ats) if asg[a_]):
                                    pem_unmasked = "e.to_string() reachable for %s" % vname
                                    break
                            else:
                                if pem_unmasked is None:
                                    pem_unmasked = False
                        continue
                    bad.append("to_string of %s" % rt[:60])
                    continue
                bad.append(x.r()[:80])
            if pem_unmasked is not None:
                rep.ob("C19.err", "%s|%s|%s|pem-error-display-masked" % (cfg, _errfn(name), var), pem_unmasked is False,
                       "the Display text of pem::PemError is forwarded into Error::PemError, and this conversion is applied to private-key PEM: pem 3.0.x formats PemError::InvalidHeader with the offending input line, so loading a key PEM that contains a stray blank line (or a line with a colon) returns an error whose text contains base64 of the private key",
                       expected="PemError::InvalidHeader(_) and PemError::MismatchedTags(..) mapped to texts that do not include their payloads", found=pem_unmasked or "masked", sp=node.get("sp"))
            rep.ob("C19.err", "%s|%s|%s" % (cfg, _errfn(name), var), not bad, "String payload of an error is the Display text of a foreign error (or a constant), never caller data", found=bad or srcs, sp=node.get("sp"))
    rep.floor("C19.err", "string-carrying error constructions (%s)" % cfg, n, 3)


def _to_string_via(v):
    """the outermost `.to_string()` adaptor in a chain of transparent adaptors, if any"""
    while isinstance(v, (Via, MutV)):
        if isinstance(v, Via) and v.name == "to_string":
            return v
        v = v.inner if isinstance(v, Via) else v.base
    return None


def _errfn(name):
    return name


def _leaves(e):
    k = e.get("k")
    if k == "Match":
        out = []
        for a in e["arms"]:
            out += _leaves(a["body"])
        return out
    if k == "If":
        return _leaves(e["t"]) + (_leaves(e["e"]) if e.get("e") else [])
    if k == "Block" and e.get("expr") is not None:
        return _leaves(e["expr"])
    return [e]


_PRIV_OUT = None


def export(cfg, crate, rep):
    """Back-end calls that hand out private key material as bytes (PKCS#8 / SEC1 documents, seeds, private scalars)
    run only on behalf of the key generators, whose result is stored as the key pair's own document."""
    global _PRIV_OUT
    import re, facts
    if _PRIV_OUT is None:
        _PRIV_OUT = re.compile(r"::generate_pkcs8$|AsDer<[^>]*(Pkcs8V1Der|Pkcs8V2Der|EcPrivateKeyRfc5915Der|EcPrivateKeyBinDer)|AsBigEndian<[^>]*(PrivateKey|Seed)|::to_pkcs8(v1|v2)?$|KeyPair::private_key$|KeyPair::seed$|Curve25519SeedBin|::to_seed")
    allowed = {"key_pair::KeyPair::generate_for", "key_pair::KeyPair::generate_rsa_inner", "key_pair::KeyPair::generate_rsa", "key_pair::KeyPair::generate"}
    sites = {}
    for name, b in crate.bodies.items():
        if "mir" not in b or common.is_test_fn(name):
            continue
        for blk in b["mir"]["blocks"]:
            t = blk["term"]
            if t["k"] != "Call":
                continue
            c = facts.norm_path(t.get("inst") or t.get("callee") or "")
            if ("ring::" in c or "aws_lc_rs::" in c) and _PRIV_OUT.search(c):
                sites.setdefault(c, set()).update(common.known_owners(crate, name.split("::{closure")[0]))
    for c, owners in sorted(sites.items()):
        rep.ob("C19.export", "%s|%s" % (cfg, c), owners <= allowed, "a back-end call that serialises private key material runs only on behalf of a key generator (its output becomes the key pair's stored document)", expected=sorted(allowed), found=sorted(owners))
    if cfg in ("K1", "K2"):
        rep.floor("C19.export", "private-key exporting back-end calls (%s)" % cfg, len(sites), 2)


def cli(cfg, ctx, rep):
    for f in ("rustls_cert_gen.lib.json", "rustls_cert_gen.bin.json"):
        crate = ctx.crate(cfg, f)
        tag = "%s:%s" % (cfg, f.split(".")[1])
        # private key PEM reaches only the key file
        uses = {}
        for name, b in common.all_bodies(crate):
            if common.is_test_fn(name):
                continue
            for callee, n, ps in common.calls_in(b):
                if callee in ("rcgen::KeyPair::serialize_pem", "rcgen::KeyPair::serialize_der", "rcgen::KeyPair::serialized_der"):
                    uses.setdefault(callee, set()).update(common.known_owners(crate, name))
        allowed = {"cert::Ca::serialize_pem", "cert::EndEntity::serialize_pem"}
        flat = set().union(*uses.values()) if uses else set()
        rep.ob("C19.read", "%s|cli-private-key-export" % tag, flat <= allowed, "the CLI exports private keys only into the PemCertifiedKey it writes to the key file", expected=sorted(allowed), found=sorted(flat))
        reads = field_reads(crate, "cert::PemCertifiedKey", "private_key_pem")
        reads = {k: v for k, v in reads.items() if k not in crate.derived_fns}
        rep.ob("C19.read", "%s|cli-key-pem-readers" % tag, set(reads) <= {"cert::PemCertifiedKey::write"}, "the private key PEM is read only by the file writer", found=sorted(reads))
        adt = crate.adts.get("cert::PemCertifiedKey")
        if adt is not None:
            dbg = [im for im in crate.impls if im.get("self_adt") == "cert::PemCertifiedKey" and im.get("trait") == "std::fmt::Debug"]
            # a derived Debug on PemCertifiedKey would print the key PEM if it were ever formatted: check nobody formats it
            fmt_uses = []
            for name, b in common.all_bodies(crate):
                if common.is_test_fn(name) or name in crate.derived_fns:
                    continue
                for n in common.hir_walk(b["hir"]):
                    if n["k"] in ("Path", "Field", "MethodCall", "Call") and "PemCertifiedKey" in n.get("ty", "") and n.get("mac") and any(m in ("format_args", "println", "eprintln", "print", "format", "write", "dbg", "panic") for m in n["mac"]):
                        fmt_uses.append(name)
            rep.ob("C19.debug", "%s|cli-pem-key-not-formatted" % tag, not fmt_uses, "the struct holding the key PEM is never formatted (its derived Debug would print the key)", found=sorted(set(fmt_uses)))
