"""Abstract interpreter over the exported HIR.

Implements, in one pass, the shared analyses of DESIGN.md section 3:
  A  emitted-grammar inference (abstract TLV trees produced through yasna),
  B  branch conditions as propositional formulas (rules/formula.py),
  C  value-origin resolution (places, transparent adaptors, struct literals,
     inlining of local helpers that take a writer or a closure).

Nothing is executed: values are symbolic (`Param`, `Sel`, `CallV`, ...), every
branch of every `if`/`match` is walked with its path condition, loops are walked
once with a symbolic element.
"""
from formula import And, Not, Or, atom
import os
import re
import formula as F

# ---------------------------------------------------------------------------
# abstract values


class V:
    def r(self):
        return "<%s>" % type(self).__name__

    def __repr__(self):
        return self.r()


class Param(V):
    def __init__(self, name):
        self.name = name

    def r(self):
        return self.name


class Sel(V):
    """Selection from a value: '.field', '?', '[]', '#Variant.i'."""

    def __init__(self, base, sel):
        self.base = base
        self.sel = sel

    def r(self):
        return core(self.base).r() + self.sel


class Const(V):
    def __init__(self, v):
        self.v = v

    def r(self):
        return repr(self.v)


class Def(V):
    def __init__(self, path, dk):
        self.path = path
        self.dk = dk

    def r(self):
        return self.path


class StructV(V):
    def __init__(self, adt, variant, fields, base=None, node=None):
        self.adt = adt
        self.variant = variant
        self.fields = fields
        self.base = base
        self.node = node

    def r(self):
        return "%s{%s%s}" % (self.variant or self.adt, ", ".join("%s: %s" % (k, v.r()) for k, v in self.fields.items()), (", .." + self.base.r()) if self.base else "")


class TupleV(V):
    def __init__(self, items):
        self.items = items

    def r(self):
        return "(%s)" % ", ".join(x.r() for x in self.items)


class ArrayV(V):
    def __init__(self, items):
        self.items = items

    def r(self):
        return "[%s]" % ", ".join(x.r() for x in self.items)


class ClosureV(V):
    def __init__(self, node, frame):
        self.node = node
        self.frame = frame

    def r(self):
        return "closure@%s" % self.node.get("sp")


class CallV(V):
    def __init__(self, callee, args, node=None, inst=None):
        self.callee = callee
        self.args = args
        self.node = node
        self.inst = inst

    def r(self):
        return "%s(%s)" % (self.callee, ", ".join(a.r() for a in self.args))


class Via(V):
    """Transparent adaptor (as_ref, clone, `?`, ...) around `inner`."""

    def __init__(self, name, inner, callee=None):
        self.name = name
        self.inner = inner
        self.callee = callee

    def r(self):
        return "%s.%s" % (self.inner.r(), self.name)


class DerV(V):
    def __init__(self, items, node=None):
        self.items = items
        self.node = node

    def r(self):
        return "DER[%d items @%s]" % (len(self.items), (self.node or {}).get("sp"))


class WriterV(V):
    def __init__(self, kind, sink):
        self.kind = kind
        self.sink = sink

    def r(self):
        return "<writer %s>" % self.kind


class BoolV(V):
    def __init__(self, f):
        self.f = f

    def r(self):
        return "bool(%s)" % F.show(self.f)


class OpV(V):
    def __init__(self, op, args):
        self.op = op
        self.args = args

    def r(self):
        if len(self.args) == 2:
            return "(%s %s %s)" % (self.args[0].r(), self.op, self.args[1].r())
        return "%s(%s)" % (self.op, ", ".join(a.r() for a in self.args))


class IndexV(V):
    def __init__(self, base, idx):
        self.base = base
        self.idx = idx

    def r(self):
        return "%s[%s]" % (self.base.r(), self.idx.r())


class MutV(V):
    """A `let mut` local with the list of in-place updates applied so far."""

    def __init__(self, base):
        self.base = base
        self.ops = []

    def r(self):
        return "%s{%s}" % (self.base.r(), "; ".join("%s %s" % (o[0], o[1]) for o in self.ops)) if self.ops else self.base.r()


class SnapV(V):
    """The state of a `let mut` value at one call through `&mut` (after its first k updates): two successive
    `it.next()` calls are different values."""

    def __init__(self, mv, k):
        self.mv = mv
        self.k = k

    def r(self):
        ops = self.mv.ops[:self.k]
        return "%s{%s}" % (self.mv.base.r(), "; ".join("%s %s" % (o[0], o[1]) for o in ops)) if ops else self.mv.base.r()


class PhiV(V):
    def __init__(self, alts):
        self.alts = alts

    def r(self):
        return "phi(%s)" % " | ".join("%s -> %s" % (F.show(c), v.r()) for c, v in self.alts)


class IterMapV(V):
    """`iter.map(f)`: an iterator whose element is `result` (f applied to the symbolic element of `src`)."""

    def __init__(self, src, result):
        self.src = src
        self.result = result

    def r(self):
        return "%s.map(=> %s)" % (self.src.r(), self.result.r())


def elem_of(v):
    """Symbolic element of an iterated value."""
    v0 = core(v)
    if isinstance(v0, IterMapV):
        return v0.result
    return Sel(v, "[]")


class TagV(V):
    def __init__(self, cls, n):
        self.cls = cls
        self.n = n

    def r(self):
        return "[%s %s]" % (self.cls, self.n.r() if isinstance(self.n, V) else self.n)


class Unknown(V):
    def __init__(self, why):
        self.why = why

    def r(self):
        return "<?%s>" % self.why


UNIT = Const(())

STD_CONSTS = {}
for _t, _bits in (("u8", 8), ("u16", 16), ("u32", 32), ("u64", 64), ("u128", 128)):
    STD_CONSTS["core::num::<impl %s>::MAX" % _t] = (1 << _bits) - 1
    STD_CONSTS["core::num::<impl %s>::MIN" % _t] = 0
    STD_CONSTS["core::num::<impl %s>::BITS" % _t] = _bits
for _t, _bits in (("i8", 8), ("i16", 16), ("i32", 32), ("i64", 64)):
    STD_CONSTS["core::num::<impl %s>::MAX" % _t] = (1 << (_bits - 1)) - 1
    STD_CONSTS["core::num::<impl %s>::MIN" % _t] = -(1 << (_bits - 1))

TRANSPARENT = {
    "as_ref", "as_slice", "as_str", "as_bytes", "deref", "borrow", "clone", "to_vec", "to_owned", "into", "iter",
    "into_iter", "as_deref", "copied", "cloned", "as_mut", "to_string", "as_mut_slice", "into_contents", "contents",
    # owned-representation changes that keep the contents: String <-> Box<str>, Vec<T> <-> Box<[T]>
    "into_boxed_str", "into_boxed_slice", "into_string", "into_vec",
}
# transparent for *provenance*; to_string on a foreign error is handled by rules


def _peel_view(v):
    """the `let mut` object behind a chain of borrowing views (`as_mut_slice`, `as_mut`, ...)"""
    while isinstance(v, Via) and v.name in ("as_mut_slice", "as_mut", "deref_mut", "borrow_mut", "as_deref_mut"):
        v = v.inner
    return v


def core(v):
    """Strip transparent adaptors."""
    while True:
        if isinstance(v, Via):
            v = v.inner
        elif isinstance(v, MutV) and not v.ops:
            v = v.base
        else:
            return v


def place_of(v):
    """Rendered access path if `v` is a parameter or a selection chain over one, else None."""
    v = core(v)
    if isinstance(v, Param):
        return v.name
    if isinstance(v, Sel):
        b = place_of(v.base)
        if b is not None:
            return b + v.sel
    return None


def roots(v, acc=None):
    """What a value depends on: bare strings are places (selection chains over parameters);
    'def:<path>' items, 'call:<callee>' functions it flows through, 'der@', 'closure@', 'atom:'."""
    if acc is None:
        acc = set()
    if isinstance(v, (Param, Sel)):
        p = place_of(v)
        if p is not None:
            acc.add(p)
        else:
            acc.add("sel:" + v.sel)
            roots(v.base, acc)
    elif isinstance(v, Const):
        pass
    elif isinstance(v, Def):
        acc.add("def:" + v.path)
    elif isinstance(v, Via):
        if v.callee:
            acc.add("via:" + v.callee)
        roots(v.inner, acc)
    elif isinstance(v, CallV):
        acc.add("call:" + v.callee)
        for a in v.args:
            roots(a, acc)
    elif isinstance(v, (OpV,)):
        acc.add("op:" + v.op)
        for a in v.args:
            roots(a, acc)
    elif isinstance(v, IndexV):
        acc.add("op:index")
        roots(v.base, acc)
        roots(v.idx, acc)
    elif isinstance(v, SnapV):
        roots(v.mv, acc)
    elif isinstance(v, MutV):
        roots(v.base, acc)
        if v.ops:
            acc.add("op:mutated")
        for o in v.ops:
            if o[0] == "outarg" and isinstance(o[1], str):
                acc.add("call:" + o[1])       # filled in by that function (`f(&src, &mut out)?` for `let out = f(&src)?`)
            for x in o[2:]:
                if isinstance(x, V):
                    roots(x, acc)
    elif isinstance(v, PhiV):
        for _, x in v.alts:
            roots(x, acc)
    elif isinstance(v, (TupleV, ArrayV)):
        for x in v.items:
            roots(x, acc)
    elif isinstance(v, StructV):
        for x in v.fields.values():
            roots(x, acc)
        if v.base:
            roots(v.base, acc)
    elif isinstance(v, DerV):
        acc.add("der@%s" % (v.node or {}).get("sp"))
        _item_roots(v.items, acc)
    elif isinstance(v, ClosureV):
        acc.add(v.r())
    elif isinstance(v, TagV):
        if isinstance(v.n, V):
            roots(v.n, acc)
    elif isinstance(v, IterMapV):
        roots(v.src, acc)
        roots(v.result, acc)
    elif isinstance(v, BoolV):
        for a in F.atoms(v.f):
            acc.add("atom:" + F.show_atom(a))
    return acc


def flatten_phi(v, cond=True):
    """[(path condition, leaf)] of a (nested) case split"""
    v0 = core(v)
    if isinstance(v0, PhiV):
        out = []
        for c, x in v0.alts:
            out.extend(flatten_phi(x, And(cond, c)))
        return out
    return [(cond, v)]


def restrict(v, cond):
    """The value `v` on the paths where `cond` holds: every case split inside `v` that has an alternative guarded by
    exactly `cond` is replaced by that alternative (correlated splits created by binding a pattern against one
    case-split scrutinee share their guards)."""
    if isinstance(v, PhiV):
        for c, x in v.alts:
            if c == cond:
                return restrict(x, cond)
        return PhiV([(c, restrict(x, cond)) for c, x in v.alts])
    if isinstance(v, Via):
        return Via(v.name, restrict(v.inner, cond), v.callee)
    if isinstance(v, Sel):
        return Sel(restrict(v.base, cond), v.sel)
    if isinstance(v, TupleV):
        return TupleV([restrict(x, cond) for x in v.items])
    if isinstance(v, StructV):
        return StructV(v.adt, v.variant, {k: restrict(x, cond) for k, x in v.fields.items()}, v.base, v.node)
    if isinstance(v, CallV):
        return CallV(v.callee, [restrict(a, cond) for a in v.args], v.node, getattr(v, "inst", None))
    if isinstance(v, OpV):
        return OpV(v.op, [restrict(a, cond) for a in v.args])
    return v


def specialise(v, asg):
    """The value `v` under a (partial) truth assignment of atoms: every case split whose guards are decided by the
    assignment is replaced by the alternative that holds.  `asg` maps atom keys to booleans; atoms it does not
    mention leave a split undecided (kept)."""
    def ev(c):
        ats = F.atoms(c)
        if all(a in asg for a in ats):
            return F.evalf(c, asg)
        return None
    if isinstance(v, PhiV):
        decided = [(ev(c), x) for c, x in v.alts]
        hit = [x for r_, x in decided if r_ is True]
        if len(hit) == 1 and all(r_ is not None for r_, _ in decided):
            return specialise(hit[0], asg)
        return PhiV([(c, specialise(x, asg)) for (c, x), (r_, _) in zip(v.alts, decided) if r_ is not False])
    if isinstance(v, Via):
        return Via(v.name, specialise(v.inner, asg), v.callee)
    if isinstance(v, Sel):
        return Sel(specialise(v.base, asg), v.sel)
    if isinstance(v, TupleV):
        return TupleV([specialise(x, asg) for x in v.items])
    if isinstance(v, StructV):
        return StructV(v.adt, v.variant, {k: specialise(x, asg) for k, x in v.fields.items()}, v.base, v.node)
    if isinstance(v, CallV):
        return CallV(v.callee, [specialise(a, asg) for a in v.args], v.node, getattr(v, "inst", None))
    if isinstance(v, IndexV):
        return IndexV(specialise(v.base, asg), specialise(v.idx, asg))
    if isinstance(v, OpV):
        return OpV(v.op, [specialise(a, asg) for a in v.args])
    if isinstance(v, TagV) and isinstance(v.n, V):
        return TagV(v.cls, specialise(v.n, asg))
    return v


def variant_assignment(v, place, variant):
    """assignment making `place is variant` true and every other variant atom of that place (found in v) false"""
    asg = {}
    def walk(x):
        if isinstance(x, PhiV):
            for c, y in x.alts:
                for a in F.atoms(c):
                    if a[0] == "variant" and a[1] == place:
                        asg[a] = (a[2] == variant)
                walk(y)
        elif isinstance(x, Via):
            walk(x.inner)
        elif isinstance(x, Sel):
            walk(x.base)
        elif isinstance(x, (TupleV, ArrayV)):
            for y in x.items:
                walk(y)
        elif isinstance(x, StructV):
            for y in x.fields.values():
                walk(y)
        elif isinstance(x, (CallV, OpV)):
            for y in x.args:
                walk(y)
        elif isinstance(x, IndexV):
            walk(x.base)
            walk(x.idx)
    walk(v)
    asg[("variant", place, variant)] = True
    return asg


def split_guards(v, acc=None):
    """guards of the case splits inside v (in order of first appearance)"""
    if acc is None:
        acc = []
    if isinstance(v, PhiV):
        for c, x in v.alts:
            if c not in acc:
                acc.append(c)
            split_guards(x, acc)
    elif isinstance(v, Via):
        split_guards(v.inner, acc)
    elif isinstance(v, Sel):
        split_guards(v.base, acc)
    elif isinstance(v, (TupleV, ArrayV)):
        for x in v.items:
            split_guards(x, acc)
    elif isinstance(v, StructV):
        for x in v.fields.values():
            split_guards(x, acc)
    elif isinstance(v, CallV):
        for a in v.args:
            split_guards(a, acc)
    elif isinstance(v, TagV) and isinstance(v.n, V):
        split_guards(v.n, acc)
    return acc


def _item_roots(items, acc):
    for it in items:
        if it.get("fn"):
            acc.add("emit:" + it["fn"])
        for a in it.get("args", []):
            roots(a, acc)
        if "v" in it and isinstance(it["v"], V):
            roots(it["v"], acc)
        if "tag" in it and isinstance(it["tag"], V):
            roots(it["tag"], acc)
        if "over" in it and isinstance(it["over"], V):
            roots(it["over"], acc)
        if "c" in it:
            _item_roots(it["c"], acc)


def places(v):
    return {r for r in roots(v) if ":" not in r.split(".")[0].split("[")[0].split("#")[0].split("?")[0] and not r.startswith(("der@", "closure@"))}


def calls_of(v):
    return {r.split(":", 1)[1] for r in roots(v) if r.startswith(("call:", "via:", "emit:"))}


class Sink:
    def __init__(self, depth):
        self.items = []
        self.depth = depth
        self.nexts = []   # path conditions of `.next()` calls on this (SET / SET OF / SEQUENCE) writer


class Act:
    def __init__(self, fn):
        self.fn = fn
        self.ret = False
        self.rets = []
        self.fails = []


def _entry_of(v):
    """the `map.entry(key)` call a Vacant / Occupied slot value was bound from"""
    v0 = core(v)
    for _ in range(4):
        if isinstance(v0, Sel):
            v0 = core(v0.base)
        elif isinstance(v0, MutV):
            v0 = core(v0.base)
        else:
            break
    if isinstance(v0, CallV) and v0.callee.endswith(("HashMap::entry", "BTreeMap::entry")) and len(v0.args) == 2:
        return v0
    return None


def hir_nodes(n):
    if isinstance(n, dict):
        if "k" in n:
            yield n
        for v in n.values():
            yield from hir_nodes(v)
    elif isinstance(n, list):
        for x in n:
            yield from hir_nodes(x)


def _ret_ty(body):
    return (body.get("hir") or {}).get("ty")


def _UNIT_RESULT(body):
    t_ = _ret_ty(body) or ""
    return {t_} if re.match(r"^(std::result::|core::result::)?Result<\(\), ", t_) else set()


def _with_out(v, mv):
    """the value of a function that delivers its result through one `&mut` out-parameter: `Ok(())` / `()` stands for
    the final contents of that parameter"""
    v0 = core(v)
    if isinstance(v0, PhiV):
        return PhiV([(c, _with_out(x, mv)) for c, x in v0.alts])
    if isinstance(v0, StructV) and v0.variant == "Ok" and core(v0.fields.get("0", UNIT)) is UNIT:
        return StructV(v0.adt, "Ok", {"0": mv}, v0.base, v0.node)
    if v0 is UNIT:
        return mv
    return v


_REDUCED = {}


def _cfg_reduced_enum(name):
    """the enum has more variants in another build configuration of the reference tree (the others are cfg'd out here)"""
    if name not in _REDUCED:
        import json
        n_ = 0
        try:
            with open(os.path.join(os.path.dirname(os.path.dirname(os.path.abspath(__file__))), "refs", "known_sigs.json")) as fh:
                ks = json.load(fh)
            for k_, v_ in ks.items():
                t_ = (v_.get("types") or {}).get(name) if isinstance(v_, dict) else None
                if t_ and isinstance(t_, list) and len(t_) == 2 and isinstance(t_[1], list):
                    n_ = max(n_, len(t_[1]))
        except Exception:
            n_ = 0
        _REDUCED[name] = n_ > 1
    return _REDUCED[name]


class InterpError(Exception):
    pass


_KNOWN = None
OKNESS_PRESERVING = {"std::result::Result::map_err", "std::result::Result::or", "std::result::Result::map", "std::result::Result::inspect", "std::result::Result::inspect_err",
                     "std::result::Result::as_ref", "std::result::Result::as_mut", "std::result::Result::copied", "std::result::Result::cloned"}
_UMAX = {"u8": 0xFF, "u16": 0xFFFF, "u32": 0xFFFFFFFF, "u64": 0xFFFFFFFFFFFFFFFF, "usize": 0xFFFFFFFFFFFFFFFF}
_FROMSTR = re.compile(r"<impl std::str::FromStr for ([^>]+(?:<.*>)?)>::from_str$")
_U = "(u8|u16|u32|u64|usize)"
_INT_TRY = re.compile(r"^<%s as std::convert::TryFrom<%s>>::try_from$|^<%s as std::convert::TryInto<%s>>::try_into$|^std::convert::num::<impl std::convert::TryFrom<%s> for %s>::try_from$" % (_U, _U, _U, _U, _U, _U))


_KNOWN_TRAITS = {}


def known_fns(crate_name):
    """Functions that existed when the rules were written (refs/known_fns.json); they are the rules' vocabulary."""
    global _KNOWN
    if _KNOWN is None:
        import json
        import os
        with open(os.path.join(os.path.dirname(os.path.dirname(os.path.abspath(__file__))), "refs", "known_fns.json")) as fh:
            _KNOWN = {k: set(v) for k, v in json.load(fh).items()}
    return _KNOWN.get(crate_name, set())


# yasna primitive writers: method -> ASN.1 kind
PRIMS = {
    "write_bool": "BOOLEAN", "write_u8": "INTEGER", "write_i8": "INTEGER", "write_u16": "INTEGER", "write_i16": "INTEGER",
    "write_u32": "INTEGER", "write_i32": "INTEGER", "write_u64": "INTEGER", "write_i64": "INTEGER",
    "write_bigint_bytes": "INTEGER", "write_biguint": "INTEGER", "write_bigint": "INTEGER", "write_enum": "ENUMERATED",
    "write_null": "NULL", "write_oid": "OID", "write_bytes": "OCTET STRING", "write_utf8_string": "UTF8String",
    "write_utf8string": "UTF8String", "write_ia5_string": "IA5String", "write_printable_string": "PrintableString",
    "write_numeric_string": "NumericString", "write_visible_string": "VisibleString", "write_bmp_string": "BMPString",
    "write_bitvec_bytes": "BIT STRING", "write_bitvec": "BIT STRING", "write_utctime": "UTCTime",
    "write_generalized_time": "GeneralizedTime",
}
CONSTRUCTED = {"write_sequence": "Seq", "write_sequence_of": "Seq", "write_set": "Set", "write_set_of": "SetOf"}


class Interp:
    def __init__(self, crate, inline_always=(), no_inline=()):
        self.crate = crate
        self.ctx = []
        self.calls = []      # (callee, args, node, cond, fn)
        self.structs = []    # StructV created from literals
        self.tries = []      # (value, node, fn)
        self.muts = []       # (target value, kind, payload, node, fn)
        self.discards = []   # (value, node, fn, how)
        self.fails = []      # (cond, Err value, node, fn): explicit `return Err(..)`
        self.inline_always = set(inline_always)
        self.no_inline = set(no_inline)
        self.depth = 0
        self.fn_stack = []
        self._const_cache = {}
        self._mut_args = []
        self.atom_vals = {}  # atom key -> operand values (for cmp / eq / contains atoms)
        self.inlined = set()  # new local helpers that were looked into

    # -- context helpers ------------------------------------------------------
    def cur_cond(self, since=0):
        fs = []
        for e in self.ctx[since:]:
            if e[0] == "cond":
                fs.append(e[1])
            elif e[0] in ("act", "iter", "loopctl") and e[1].ret is not False:
                fs.append(Not(e[1].ret))
            elif e[0] == "rep":
                pass
        return And(*fs)

    def emit(self, sink, item):
        for i_ in range(len(self.ctx) - 1, -1, -1):
            if self.ctx[i_][0] == "act":
                dead_ = getattr(self.ctx[i_][1], "dead", False)
                if dead_ is not False:
                    here_ = self.cur_cond(i_ + 1)
                    if here_ is False or (len(F.atoms(And(here_, dead_))) <= 12 and not F.counterexamples(here_, dead_, "implies")):
                        return          # written only after a definite failure: not part of any artefact
                break
        wr = self.ctx[sink.depth:]
        for e in reversed(wr):
            if e[0] == "cond":
                item = {"t": "Cond", "f": e[1], "c": [item]}
            elif e[0] == "rep":
                item = {"t": "Rep", "over": e[1], "c": [item]}
            elif e[0] in ("act", "iter", "loopctl") and e[1].ret is not False:
                item = {"t": "Cond", "f": Not(e[1].ret), "c": [item]}
        sink.items.append(item)

    def cur_fn(self):
        """the function an event is attributed to: the innermost function on the stack that the rules know (a helper
        introduced by a later change is transparent: what it does is done by its known caller)"""
        if not self.fn_stack:
            return "?"
        kn = known_fns(self.crate.name)
        i = len(self.fn_stack) - 1
        while i >= 0:
            f = self.fn_stack[i]
            if f in kn or f not in self.inlined:
                return f
            # a helper introduced by a later change (possibly re-entered as the owner of a closure that some callee runs):
            # what it does is done by the function that called it -- the frame below its *first* occurrence
            i = self.fn_stack.index(f) - 1
        return self.fn_stack[0]

    # -- entry points -----------------------------------------------------------
    def run_fn(self, name, args=None):
        """Interpret function `name` with symbolic parameters (or given args)."""
        body = self.crate.body(name)
        params = body.get("params", [])
        outs_ = []
        if args is None:
            args = []
            for p in params:
                nm = p["name"] if p["k"] == "Binding" else "arg%d" % len(args)
                if "DERWriter" in p.get("ty", "") and "impl" not in p.get("ty", ""):
                    args.append(None)  # filled below
                elif p["k"] == "Binding" and (p.get("ty") or "").startswith("&mut ") and re.match(r"^&mut (std::vec::Vec|Vec|std::option::Option|Option)<", p.get("ty") or "") and _ret_ty(body) in {"()", None} | _UNIT_RESULT(body):
                    # an out-parameter (`fn f(src, out: &mut Vec<T>) -> Result<(), E>`): run it on a fresh list, and
                    # what the list holds afterwards is what the function "returns" (see below)
                    mv_ = MutV(CallV("std::vec::Vec::new", [], None) if "Vec<" in (p.get("ty") or "")[:24] else StructV("std::option::Option", "None", {}))
                    mv_.depth = 0
                    mv_.is_out = True
                    outs_.append(mv_)
                    args.append(mv_)
                else:
                    args.append(Param(nm))
        out = {}
        top = Sink(len(self.ctx))
        for i, p in enumerate(params):
            if args[i] is None:
                ty = p.get("ty", "")
                kind = "seq" if "DERWriterSeq" in ty else ("set" if "DERWriterSet" in ty else "w")
                args[i] = WriterV(kind, top)
        val = self.call_body(name, body, args)
        if len(outs_) == 1:
            val = _with_out(val, outs_[0])
        out["value"] = val
        out["items"] = top.items
        return out

    def _subst_ty(self, ty):
        """a type spelling with the generic parameters of the body being inlined (`T`, `Self`) replaced by what the call
        that inlined it passed for them"""
        if not ty or not getattr(self, "tsubst", None) or not self.tsubst[-1]:
            return ty
        m = self.tsubst[-1]
        return re.sub(r"(?<![\w:])(Self|[A-Z]\w*)(?![\w:])", lambda mo: m.get(mo.group(0), mo.group(0)), ty)

    def _resolve_trait_item(self, item, n):
        """`Trait::item` reached through a generic parameter / `Self` of the body being inlined: the local impl item
        `<Concrete as Trait>::item` selected by the current substitution (None if there is no such impl)."""
        if not item or item.startswith("<") or not getattr(self, "tsubst", None):
            return None
        tr_path, _, leaf = item.rpartition("::")
        if tr_path not in self.crate.trait_paths():
            return None
        # a trait the reference tree already has (PublicKeyData, SigningKey, ..) is part of the rules' vocabulary:
        # `Trait::item(x)` stays symbolic whether the caller reaches it through `impl Trait` or a named parameter
        kt_ = _KNOWN_TRAITS.get(self.crate.name)
        if kt_ is None:
            kt_ = _KNOWN_TRAITS[self.crate.name] = {m_.group(1) for k in known_fns(self.crate.name) for m_ in [re.search(r" as ([\w:]+)>::", k)] if m_}
        if tr_path in kt_:
            return None
        ta = n.get("targs")
        t0 = ta[0] if ta else ((n.get("recv") or {}).get("aty") or (n.get("recv") or {}).get("ty"))
        if not t0:
            return None
        c = self._subst_ty(t0).lstrip("&").replace("mut ", "").strip()
        c = re.sub(r"<.*$", "", c)
        for k in self.crate.bodies:
            if k.startswith("<" + c) and k.endswith(" as " + tr_path + ">::" + leaf):
                return k
        # an impl item that name canonicalisation presented under the reference's (inherent) name
        for knew, kold in (getattr(self.crate, "aliases", None) or {}).items():
            if knew.startswith("<" + c) and knew.endswith(" as " + tr_path + ">::" + leaf) and kold in self.crate.bodies:
                return kold
        return None

    def call_body(self, name, body, args, node=None):
        if self.depth > 40:
            raise InterpError("inlining too deep at %s" % name)
        fr = {}
        act = Act(name)
        self.ctx.append(("act", act))
        self.fn_stack.append(name)
        self.depth += 1
        gen_, ta_ = body.get("generics"), (node or {}).get("targs")
        if not hasattr(self, "tsubst"):
            self.tsubst = []
        if gen_ and ta_ and len(gen_) == len(ta_):
            self.tsubst.append({g_: self._subst_ty(t_) for g_, t_ in zip(gen_, ta_) if not g_.startswith("'")})
        else:
            self.tsubst.append({})
        try:
            for p, a in zip(body.get("params", []), args):
                self.bindpat(p, a, fr)
            v = self.ev(body["hir"], fr)
        finally:
            self.tsubst.pop()
            self.depth -= 1
            self.fn_stack.pop()
            self.ctx.pop()
        if act.rets:
            alts = list(act.rets)
            alts.append((Not(act.ret), v))
            return PhiV(alts)
        return v

    def call_closure(self, cl, args):
        act = Act(cl.r())
        self.ctx.append(("act", act))
        owner = (cl.node.get("def") or "?").split("::{closure")[0]
        self.fn_stack.append(owner)
        try:
            for p, a in zip(cl.node["params"], args):
                self.bindpat(p, a, cl.frame)
            v = self.ev(cl.node["body"], cl.frame)
        finally:
            self.fn_stack.pop()
            self.ctx.pop()
        if act.rets:
            alts = list(act.rets)
            alts.append((Not(act.ret), v))
            return PhiV(alts)
        return v

    def _table(self, v):
        """the literal array behind a value (a literal, or a const / static item initialised with one), else None"""
        v0 = core(v)
        if isinstance(v0, Def) and ("Const" in v0.dk or "Static" in v0.dk):
            cv = self.const_value(v0.path)
            if cv is not None:
                v0 = core(cv)
        return v0 if isinstance(v0, ArrayV) else None

    def const_value(self, path):
        """Evaluate a const/static item's initialiser."""
        if path in self._const_cache:
            return self._const_cache[path]
        b = self.crate.bodies.get(path)
        if b is None or "hir" not in b:
            return None
        self._const_cache[path] = None
        saved = self.ctx
        self.ctx = []
        try:
            v = self.ev(b["hir"], {})
        finally:
            self.ctx = saved
        self._const_cache[path] = v
        return v

    def concrete(self, v):
        """Try to reduce a value to a python constant (ints, lists, strs)."""
        v = core(v)
        if isinstance(v, Const):
            return v.v
        if isinstance(v, Def) and v.path in STD_CONSTS:
            return STD_CONSTS[v.path]
        if isinstance(v, Def) and ("Const" in v.dk or "Static" in v.dk):
            cv = self.const_value(v.path)
            if cv is None:
                return None
            return self.concrete(cv)
        if isinstance(v, ArrayV):
            out = [self.concrete(x) for x in v.items]
            return None if any(x is None for x in out) else out
        if isinstance(v, TupleV):
            out = [self.concrete(x) for x in v.items]
            return None if any(x is None for x in out) else tuple(out)
        if isinstance(v, OpV) and len(v.args) == 2:
            a, b = self.concrete(v.args[0]), self.concrete(v.args[1])
            if isinstance(a, int) and isinstance(b, int) and not isinstance(a, bool):
                try:
                    return {"+": a + b, "-": a - b, "*": a * b, ">>": a >> b, "<<": a << b, "|": a | b, "&": a & b,
                            "^": a ^ b, "/": a // b if b else None, "%": a % b if b else None}.get(v.op)
                except Exception:
                    return None
        if isinstance(v, CallV) and v.callee.endswith("ObjectIdentifier::from_slice") and v.args:
            return self.concrete(v.args[0])
        if isinstance(v, CallV) and v.callee.endswith(("::from_be_bytes", "::from_le_bytes")) and len(v.args) == 1:
            bs = self.concrete(v.args[0])
            if isinstance(bs, list) and all(isinstance(b, int) and 0 <= b < 256 for b in bs):
                return int.from_bytes(bytes(bs), "big" if v.callee.endswith("from_be_bytes") else "little")
        if isinstance(v, CallV) and v.callee in ("std::convert::From::from", "std::convert::Into::into") and len(v.args) == 1:
            c = self.concrete(v.args[0])
            if isinstance(c, int) and not isinstance(c, bool):
                return c
        return None

    # -- formulas -----------------------------------------------------------------
    def to_formula(self, v):
        if isinstance(v, BoolV):
            return v.f
        v0 = core(v)
        if isinstance(v0, BoolV):
            return v0.f
        if isinstance(v0, Const):
            if v0.v is True:
                return True
            if v0.v is False:
                return False
        if isinstance(v0, PhiV):
            return Or(*[And(c, self.to_formula(x)) for c, x in v0.alts])
        if isinstance(v0, (Param, Sel)):
            return atom("true", v0.r())
        if isinstance(v0, Def) and ("Const" in (v0.dk or "") or "Static" in (v0.dk or "")):
            c_ = self.concrete(v0)          # a boolean constant item (also an associated const selected by substitution)
            if c_ is True or c_ is False:
                return c_
        return atom("opaque", v0.r())

    def cond(self, node, fr):
        return self.to_formula(self.ev(node, fr))

    # -- patterns -------------------------------------------------------------------
    def bindpat(self, p, v, fr):
        k = p["k"]
        if k == "Binding":
            if p.get("mut") and not isinstance(v, (WriterV, ClosureV)):
                mv = MutV(v)
                mv.depth = len(self.ctx)      # where the variable was declared: later assignments join under their path condition
                fr[p["hid"]] = mv
            else:
                fr[p["hid"]] = v
            if p.get("sub"):
                return self.bindpat(p["sub"], v, fr)
            return True
        if k in ("Wild", "Missing"):
            return True
        if k in ("Ref", "Deref"):
            return self.bindpat(p["pat"], v, fr)
        if k == "Guard":
            f = self.bindpat(p["pat"], v, fr)
            return And(f, self.cond(p["cond"], fr))
        if k == "Or":
            fs = []
            firsts = {}
            names = {}
            for alt in p["pats"]:
                tmp = {}
                fs.append(self.bindpat(alt, v, tmp))
                for hid, val in tmp.items():
                    fr.setdefault(hid, val)
                for b in _bindings(alt):
                    names.setdefault(b["name"], []).append((b["hid"], tmp.get(b["hid"])))
            for nm, lst in names.items():
                if len(lst) > 1:
                    vals = [x for _, x in lst if x is not None]
                    fr[lst[0][0]] = PhiV([(True, x) for x in vals]) if len(set(x.r() for x in vals)) > 1 else vals[0]
            return Or(*fs)
        if k == "Tuple":
            v0 = core(v)
            if isinstance(v0, PhiV) and not p["rest"]:
                flat_ = flatten_phi(v0)
                if flat_ and all(isinstance(core(x), TupleV) and len(core(x).items) == len(p["pats"]) for _, x in flat_):
                    # destructuring a case split of tuples: each component is the (correlated) case split of that component
                    fs = []
                    for i, sp in enumerate(p["pats"]):
                        comp = PhiV([(c_, core(x).items[i]) for c_, x in flat_])
                        fs.append(self.bindpat(sp, comp, fr))
                    return And(*fs)
            fs = []
            for i, sp in enumerate(p["pats"]):
                sub = v0.items[i] if isinstance(v0, TupleV) and i < len(v0.items) and not p["rest"] else Sel(v, ".%d" % i)
                fs.append(self.bindpat(sp, sub, fr))
            return And(*fs)
        if k in ("TupleStruct", "Struct", "Expr"):
            if k == "Expr":
                e = p["e"]
                if e["k"] == "Lit":
                    if e.get("lk") == "bool":
                        f = self.to_formula(v)
                        return f if e.get("v") else Not(f)
                    return self.eq_formula(v, Const(e.get("v")))
                pathinfo = e
                subpats = []
            else:
                pathinfo = p
                subpats = p["pats"] if k == "TupleStruct" else p["fields"]
            dk = pathinfo.get("dk", "")
            res = pathinfo.get("res")
            defp = pathinfo.get("def")
            if k == "Expr" and ("Const" in dk and "Ctor" not in dk):
                return self.eq_formula(v, Def(defp, dk))
            is_variant = "Variant" in dk
            v0 = core(v)
            flat_ = flatten_phi(v0) if is_variant and isinstance(v0, PhiV) else None
            if flat_ and all(isinstance(core(x), StructV) and core(x).variant for _, x in flat_):
                # a scrutinee that is a case split over known constructors: distribute the pattern over the cases
                fs = []
                binds = {}
                for c_, x in flat_:
                    tmp = {}
                    f_ = self.bindpat(p, x, tmp)
                    fs.append(And(c_, f_))
                    if f_ is not False:
                        for hid, val in tmp.items():
                            binds.setdefault(hid, []).append((And(c_, f_), val))
                for hid, lst in binds.items():
                    fr[hid] = lst[0][1] if len(lst) == 1 else PhiV(lst)
                return Or(*fs)
            if is_variant:
                vname = pathinfo.get("ctor_of") or defp
                short = vname.split("::")[-1] if vname else "?"
                # statically known constructor?
                if isinstance(v0, StructV) and v0.variant:
                    if v0.variant.split("::")[-1] != short:
                        return False
                    fs = []
                    for i, sp in enumerate(subpats):
                        key = str(i) if k == "TupleStruct" else sp["name"]
                        sub = v0.fields.get(key, Sel(v, "#%s.%s" % (short, key)))
                        fs.append(self.bindpat(sp if k == "TupleStruct" else sp["pat"], sub, fr))
                    return And(*fs)
                if vname == "Some":
                    f = self._some(v0)
                    f = f if f is not None else atom("some", v0.r())
                    subsel = lambda key: Sel(v, "?")
                elif vname == "None":
                    f = self._some(v0)
                    f = Not(f if f is not None else atom("some", v0.r()))
                    subsel = lambda key: Sel(v, "?")
                elif short in ("Vacant", "Occupied") and _entry_of(v0) is not None and (vname or "").endswith(("map::Entry::Vacant", "map::Entry::Occupied")):
                    # the entry is vacant exactly when the map does not contain the key
                    ent_ = _entry_of(v0)
                    ck_ = atom("opaque", "%s::contains_key(%s, %s)" % (ent_.callee.rsplit("::", 1)[0], core(ent_.args[0]).r(), core(ent_.args[1]).r()))
                    f = Not(ck_) if short == "Vacant" else ck_
                    subsel = lambda key: Sel(v, "#%s.%s" % (short, key))
                else:
                    f = atom("variant", v0.r(), short)
                    # an enum that has a single variant in this configuration (KeyIdMethod without a crypto back end): the
                    # test is a tautology, and `match e { Only(x) => .. }` is `let Only(x) = e;`
                    en_ = self.crate.adts.get((vname or "").rsplit("::", 1)[0]) if vname and "::" in vname else None
                    if en_ and en_.get("kind") == "Enum" and len(en_.get("variants") or []) == 1 and _cfg_reduced_enum((vname or "").rsplit("::", 1)[0]) \
                            and not (vname or "").startswith("key_pair::KeyPairKind"):
                        f = True        # (KeyPairKind is left alone: the signature rules key each arm on this very test)
                    subsel = lambda key: Sel(v, "#%s.%s" % (short, key))
                fs = [f]
                for i, sp in enumerate(subpats):
                    key = str(i) if k == "TupleStruct" else sp["name"]
                    fs.append(self.bindpat(sp if k == "TupleStruct" else sp["pat"], subsel(key), fr))
                return And(*fs)
            # plain struct / tuple struct
            fs = []
            for i, sp in enumerate(subpats):
                key = str(i) if k == "TupleStruct" else sp["name"]
                if isinstance(v0, StructV) and key in v0.fields:
                    sub = v0.fields[key]
                else:
                    sub = Sel(v, ".%s" % key)
                fs.append(self.bindpat(sp if k == "TupleStruct" else sp["pat"], sub, fr))
            return And(*fs)
        if k == "Range":
            f = lambda e: None if e is None else (e.get("v") if e["k"] == "Lit" else e.get("def"))
            a_ = atom("inrange", core(v).r(), f(p["lo"]), f(p["hi"]), p["incl"])
            self.atom_vals[a_[1]] = (v,)
            return a_
        if k == "Slice" and not p.get("mid") and (p["before"] + p["after"]) and not all(sp["k"] in ("Wild", "Binding") and not sp.get("sub") for sp in p["before"] + p["after"]):
            # a fixed-length pattern with refutable elements, `[2, 5, 4, x]`: the length and every element are tested
            elems_ = p["before"] + p["after"]
            v0_ = core(v)
            if isinstance(v0_, ArrayV):
                if len(v0_.items) != len(elems_):
                    return False
                return And(*[self.bindpat(sp, v0_.items[i_], fr) for i_, sp in enumerate(elems_)])
            ln_ = CallV("core::slice::<impl [T]>::len", [v], None)
            fs_ = [self.eq_formula(ln_, Const(len(elems_)))]
            for i_, sp in enumerate(elems_):
                fs_.append(self.bindpat(sp, IndexV(v, Const(i_)), fr))
            return And(*fs_)
        if k == "Slice":
            for sp in p["before"] + p["after"]:
                self.bindpat(sp, Sel(v, "[]"), fr)
            if p.get("mid"):
                self.bindpat(p["mid"], Sel(v, "[..]"), fr)
            fixed = len(p["before"]) + len(p["after"])
            irrefutable_elems = all(sp["k"] in ("Wild", "Binding") and not sp.get("sub") for sp in p["before"] + p["after"])
            if irrefutable_elems and fixed == 0 and not p.get("mid"):
                return atom("empty", core(v).r())          # `[]`
            if irrefutable_elems and fixed == 1 and p.get("mid") and p["mid"]["k"] in ("Wild", "Binding"):
                return Not(atom("empty", core(v).r()))     # `[_, ..]` / `[first, rest @ ..]`
            return atom("opaque", "slicepat(%s)" % core(v).r())
        return atom("opaque", "pat:%s" % k)

    def _len_of(self, v):
        v0 = core(v)
        if isinstance(v0, CallV) and v0.callee.split("::")[-1] == "len" and len(v0.args) == 1:
            return core(v0.args[0])
        return None

    def eq_formula(self, a, b):
        ca, cb = self.concrete(a), self.concrete(b)
        if ca is not None and cb is not None:
            return ca == cb
        # x.len() == 0  <=>  x.is_empty()
        for x, c in ((a, cb), (b, ca)):
            lx = self._len_of(x)
            if lx is not None and c == 0 and isinstance(c, int) and not isinstance(c, bool):
                return atom("empty", lx.r())
        for x, y in ((a, b), (b, a)):
            y0 = core(y)
            if isinstance(y0, StructV) and y0.variant and not y0.fields and y0.adt is None:
                x0 = core(x)
                name = y0.variant
                if name in ("Some", "None"):
                    continue
                if isinstance(x0, StructV) and x0.variant:
                    return x0.variant == y0.variant
                return atom("variant", x0.r(), name.split("::")[-1])
        ra, rb = core(a).r(), core(b).r()
        if ra == rb:
            return True
        # canonical order: non-constant side first
        if ca is not None and cb is None:
            ra, rb = rb, ra
        elif ca is None and cb is None and rb < ra:
            ra, rb = rb, ra
        # an integer-valued constant expression is written by value (`2 * V4_LEN` is `8`): rules read lengths and bounds off
        # these atoms
        if isinstance(cb, int) and not isinstance(cb, bool) and ca is None and not isinstance(core(b), Const):
            rb = str(cb) if core(b).r() == rb else rb
            ra = str(cb) if core(b).r() == ra else ra
        elif isinstance(ca, int) and not isinstance(ca, bool) and cb is None and not isinstance(core(a), Const):
            ra2 = str(ca)
            if core(a).r() == ra:
                ra = ra2
            elif core(a).r() == rb:
                rb = ra2
        a_ = atom("eq", ra, rb)
        self.atom_vals[a_[1]] = (a, b)
        return a_

    # -- expressions ------------------------------------------------------------------
    def ev(self, n, fr):
        if n is None:
            return UNIT
        k = n["k"]
        m = getattr(self, "ev_" + k, None)
        if m is None:
            return Unknown(k)
        return m(n, fr)

    def ev_Lit(self, n, fr):
        return Const(n.get("v"))

    def ev_Path(self, n, fr):
        if n["res"] == "local":
            v = fr.get(n["hid"])
            if v is None:
                v = Param(n["name"])
                fr[n["hid"]] = v
            return v
        if n["res"] == "def":
            dk = n.get("dk", "")
            if "Ctor" in dk and "Const" in dk:
                return StructV(None, n.get("ctor_of") or n["def"], {}, node=n)
            if "AssocConst" in dk and n.get("targs"):
                ri_ = self._resolve_trait_item(n["def"], n)
                if ri_ is not None:
                    return Def(ri_, dk)
            d_ = Def(n["def"], dk)
            if "Ctor" in dk:
                d_.ctor_of = n.get("ctor_of") or n["def"]      # a tuple-variant / tuple-struct constructor used as a function value
            return d_
        if n["res"] == "selfctor":
            return Def(n.get("def"), "SelfCtor")
        return Unknown("path:%s" % n["res"])

    def ev_Field(self, n, fr):
        b = self.ev(n["base"], fr)
        b0 = core(b)
        name = n["name"]
        if isinstance(b0, StructV):
            if name in b0.fields:
                return b0.fields[name]
            if b0.base is not None:
                return Sel(b0.base, "." + name)
        if isinstance(b0, TupleV) and name.isdigit() and int(name) < len(b0.items):
            return b0.items[int(name)]
        if isinstance(b, MutV):
            # a field that was assigned earlier on this local
            for o in reversed(b.ops):
                if o[0] == "assign" and o[1] == "." + name:
                    return o[2]
        return Sel(b, "." + name)

    def ev_AddrOf(self, n, fr):
        v = self.ev(n["e"], fr)
        if n.get("mut") and isinstance(v, MutV):
            self._mut_args.append(v)
        return v

    def ev_Unary(self, n, fr):
        v = self.ev(n["e"], fr)
        if n["op"] == "*":
            return v
        if n["op"] == "!":
            if n.get("ty") == "bool":
                return BoolV(Not(self.to_formula(v)))
            return OpV("!", [v])
        return OpV(n["op"], [v])

    def ev_Cast(self, n, fr):
        return Via("as:" + n.get("ty", "?"), self.ev(n["e"], fr))

    def ev_Binary(self, n, fr):
        op = n["op"]
        if op in ("&&", "||"):
            lf = self.cond(n["l"], fr)
            # short circuit: the right side only runs under the left side's outcome
            self.ctx.append(("cond", lf if op == "&&" else Not(lf)))
            try:
                rf = self.cond(n["r"], fr)
            finally:
                self.ctx.pop()
            return BoolV(And(lf, rf) if op == "&&" else Or(lf, rf))
        l = self.ev(n["l"], fr)
        r = self.ev(n["r"], fr)
        if op in ("==", "!="):
            f = self.eq_formula(l, r)
            if n.get("callee"):
                self.calls.append((n.get("inst") or n["callee"], [l, r], n, self.cur_cond(), self.cur_fn()))
            return BoolV(f if op == "==" else Not(f))
        if op in ("<", "<=", ">", ">="):
            cl, cr = self.concrete(l), self.concrete(r)
            if isinstance(cl, int) and isinstance(cr, int):
                return BoolV({"<": cl < cr, "<=": cl <= cr, ">": cl > cr, ">=": cl >= cr}[op])
            return BoolV(self._cmp(op, l, r))
        return OpV(op, [l, r])

    def ev_Tup(self, n, fr):
        if not n["es"]:
            return UNIT
        return TupleV([self.ev(x, fr) for x in n["es"]])

    def ev_Array(self, n, fr):
        return ArrayV([self.ev(x, fr) for x in n["es"]])

    def ev_Repeat(self, n, fr):
        return OpV("repeat", [self.ev(n["e"], fr)])

    def ev_ConstBlock(self, n, fr):
        return self.ev(n["e"], {})

    def ev_Index(self, n, fr):
        return IndexV(self.ev(n["base"], fr), self.ev(n["idx"], fr))

    def ev_Struct(self, n, fr):
        fields = {}
        for f in n["fields"]:
            fields[f["name"]] = self.ev(f["e"], fr)
        base = self.ev(n["base"], fr) if n.get("base") else None
        variant = None
        if "Variant" in n.get("dk", ""):
            variant = n.get("def")
        sv = StructV(n.get("adt"), variant, fields, base, node=n)
        self.structs.append((sv, n, self.cur_fn(), self.cur_cond()))
        return sv

    def ev_Closure(self, n, fr):
        return ClosureV(n, fr)

    def ev_Block(self, n, fr):
        if n.get("bid") is not None and not getattr(self, "_in_labeled", None) == id(n):
            # a labeled block that is the target of `break 'label ..`: its value is the case split of the break values
            # and of the value it falls through with
            act = Act("<block>")
            act.bid = n["bid"]
            act.vals = []
            self.ctx.append(("iter", act))
            prev_ = getattr(self, "_in_labeled", None)
            self._in_labeled = id(n)
            try:
                v = self.ev_Block(n, fr)
            finally:
                self._in_labeled = prev_
                self.ctx.pop()
            rest_ = Not(act.ret) if act.ret is not False else True
            alts_ = list(act.vals)
            tail_ty = (n.get("expr") or {}).get("ty")
            if rest_ is not False and tail_ty != "!" and not (n.get("expr") is None and alts_ and all(core(x) is not UNIT for _, x in alts_)):
                alts_.append((rest_, v))
            if not alts_:
                return v
            return alts_[0][1] if len(alts_) == 1 else PhiV(alts_)
        for s in n["stmts"]:
            if s["k"] == "Let":
                v = self.ev(s["init"], fr) if s.get("init") else Unknown("uninit")
                f = self.bindpat(s["pat"], v, fr)
                if s.get("els"):
                    self.ctx.append(("cond", Not(f)))
                    try:
                        self.ev(s["els"], fr)
                    finally:
                        self.ctx.pop()
                if s["pat"]["k"] == "Wild" and s.get("init"):
                    self.discards.append((v, s["init"], self.cur_fn(), "let _"))
            else:
                v = self.ev(s["e"], fr)
                if s["k"] == "Semi":
                    self.discards.append((v, s["e"], self.cur_fn(), "semi"))
        if n.get("expr"):
            return self.ev(n["expr"], fr)
        return UNIT

    def ev_If(self, n, fr):
        c = self.cond(n["c"], fr)
        alts = []
        if c is not False:
            self.ctx.append(("cond", c))
            try:
                tv = self.ev(n["t"], fr)
            finally:
                self.ctx.pop()
            if n["t"].get("ty") != "!":
                alts.append((c, tv))
        if n.get("e") is not None and c is not True:
            self.ctx.append(("cond", Not(c)))
            try:
                evv = self.ev(n["e"], fr)
            finally:
                self.ctx.pop()
            if n["e"].get("ty") != "!":
                alts.append((Not(c), evv))
        elif n.get("e") is None and c is not True:
            alts.append((Not(c), UNIT))
        if len(alts) == 1:
            return alts[0][1]
        if not alts:
            return UNIT
        return PhiV(alts)

    def ev_LetCond(self, n, fr):
        v = self.ev(n["init"], fr)
        return BoolV(self.bindpat(n["pat"], v, fr))

    def ev_Match(self, n, fr):
        v = self.ev(n["scrut"], fr)
        alts = []
        earlier = []
        for a in n["arms"]:
            own = self.bindpat(a["pat"], v, fr)
            if a.get("guard"):
                self.ctx.append(("cond", own))
                try:
                    own = And(own, self.cond(a["guard"], fr))
                finally:
                    self.ctx.pop()
            c = own
            for e in earlier:
                if not _disjoint(e, own):
                    c = And(c, Not(e))
            earlier.append(own)
            if c is False:
                continue
            self.ctx.append(("cond", c))
            try:
                bv = self.ev(a["body"], fr)
            finally:
                self.ctx.pop()
            if a["body"].get("ty") != "!":
                alts.append((c, bv))
            if c is True:
                break
        if len(alts) == 1:
            return alts[0][1]
        if len(alts) == 1 and alts[0][0] is True:
            return alts[0][1]
        return PhiV(alts)

    def ev_For(self, n, fr):
        it = self.ev(n["iter"], fr)
        lit = core(it)
        if isinstance(lit, Def) and ("Const" in lit.dk or "Static" in lit.dk):
            cv = self.const_value(lit.path)
            if cv is not None and isinstance(core(cv), ArrayV):
                lit = core(cv)
        loop = Act("<loop>")
        self.ctx.append(("loopctl", loop))
        try:
            # `for x in [opt_a, opt_b].into_iter().flatten()`: a literal list of optional items, each visited when present
            if isinstance(lit, CallV) and lit.callee.endswith("Iterator::flatten") and lit.args:
                tab_ = self._table(lit.args[0])
                opts_ = None
                if tab_ is not None and 0 < len(tab_.items) <= 16:
                    opts_ = []
                    for x in tab_.items:
                        x0_ = core(x)
                        if isinstance(x0_, CallV) and x0_.callee == "std::option::Option::map" and len(x0_.args) == 2 and isinstance(x0_.args[1], Via) \
                                and x0_.args[1].name == "closure-result" and isinstance(core(x0_.args[0]), (Param, Sel)):
                            # `opt.map(f)` of a symbolic option: present exactly when `opt` is, with f's result as the item
                            opts_.append((atom("some", core(x0_.args[0]).r()), x0_.args[1].inner))
                            continue
                        fl_ = flatten_phi(x)
                        if not fl_ or not all(isinstance(core(y), StructV) and core(y).variant in ("Some", "None") for _, y in fl_):
                            opts_ = None
                            break
                        opts_ += [(c_, core(y).fields.get("0", UNIT)) for c_, y in fl_ if core(y).variant == "Some" and c_ is not False]
                if opts_ is not None:
                    for c_, x in opts_:
                        self.ctx.append(("cond", c_))
                        self.ctx.append(("iter", Act("<iter>")))
                        try:
                            self.bindpat(n["pat"], x, fr)
                            self.ev(n["body"], fr)
                        finally:
                            self.ctx.pop()
                            self.ctx.pop()
                    return UNIT
            if isinstance(lit, ArrayV) and 0 < len(lit.items) <= 64:
                # a loop over a literal table: unroll it; `continue` skips the rest of one iteration, `break` the rest
                # of the loop (both as conditions on what follows)
                for x in lit.items:
                    self.ctx.append(("iter", Act("<iter>")))
                    try:
                        self.bindpat(n["pat"], x, fr)
                        self.ev(n["body"], fr)
                    finally:
                        self.ctx.pop()
                return UNIT
            elem = elem_of(it)
            self.bindpat(n["pat"], elem, fr)
            src_ = it
            while isinstance(core(src_), IterMapV):
                src_ = core(src_).src
            self.ctx.append(("rep", src_, it))
            self.ctx.append(("iter", Act("<iter>")))
            try:
                self.ev(n["body"], fr)
            finally:
                self.ctx.pop()
                self.ctx.pop()
            return UNIT
        finally:
            self.ctx.pop()

    def ev_Loop(self, n, fr):
        # `while let Some(pat) = it.next() { body }` is `for pat in it { body }`
        body = n.get("body") or {}
        inner = body.get("expr")
        if inner is None and len(body.get("stmts", [])) == 1:
            inner = body["stmts"][0].get("e")
        stmts_ = body.get("stmts") or []
        if stmts_ and stmts_[0].get("k") == "Let" and stmts_[0].get("els") is not None and stmts_[0].get("init"):
            st0 = stmts_[0]
            init = st0["init"]
            pat = st0["pat"]
            somepat = (pat.get("ctor_of") or pat.get("def") or "")
            only_break = [m_["k"] for m_ in hir_nodes(st0["els"]) if m_["k"] in ("Break", "Ret", "Continue")] == ["Break"]
            if init["k"] == "MethodCall" and init["name"] == "next" and somepat.endswith("Some") and pat["k"] in ("TupleStruct", "Struct") and only_break:
                # `loop { let Some(pat) = it.next() else { break }; rest }` is `for pat in it { rest }`
                sub = pat["pats"][0] if pat["k"] == "TupleStruct" else pat["fields"][0]["pat"]
                rest = dict(body, stmts=stmts_[1:])
                return self.ev_For({"k": "For", "pat": sub, "iter": init["recv"], "body": rest, "sp": n.get("sp")}, fr)
        if inner and inner["k"] == "If" and inner["c"]["k"] == "LetCond" and inner.get("e") is not None:
            c = inner["c"]
            init = c["init"]
            pat = c["pat"]
            somepat = (pat.get("ctor_of") or pat.get("def") or "")
            if init["k"] == "MethodCall" and init["name"] == "next" and somepat.endswith("Some") and pat["k"] in ("TupleStruct", "Struct"):
                sub = pat["pats"][0] if pat["k"] == "TupleStruct" else pat["fields"][0]["pat"]
                return self.ev_For({"k": "For", "pat": sub, "iter": init["recv"], "body": inner["t"], "sp": n.get("sp")}, fr)
        self.ctx.append(("rep", Unknown("loop")))
        try:
            self.ev(n["body"], fr)
        finally:
            self.ctx.pop()
        return Unknown("loop")

    def _innermost(self, tag):
        for i in range(len(self.ctx) - 1, -1, -1):
            if self.ctx[i][0] == tag:
                return i
            if self.ctx[i][0] == "act":
                return None
        return None

    def _innermost_iter(self):
        """innermost loop iteration (labeled blocks are `iter` entries with a block id: not loop iterations)"""
        for i in range(len(self.ctx) - 1, -1, -1):
            if self.ctx[i][0] == "iter" and getattr(self.ctx[i][1], "bid", None) is None:
                return i
            if self.ctx[i][0] == "act":
                return None
        return None

    def ev_Break(self, n, fr):
        tgt = n.get("target")
        if tgt is not None:
            # `break 'label value` out of a labeled block: that block yields the value on these paths
            for i in range(len(self.ctx) - 1, -1, -1):
                e = self.ctx[i]
                if e[0] == "act":
                    break
                if e[0] == "iter" and getattr(e[1], "bid", None) == tgt:
                    val = self.ev(n["e"], fr) if n.get("e") else UNIT
                    act = e[1]
                    c = self.cur_cond(i + 1)
                    c = And(c, Not(act.ret) if act.ret is not False else True)
                    if c is not False:
                        act.vals.append((c, val))
                    act.ret = Or(act.ret, c)
                    return UNIT
        if n.get("e"):
            self.ev(n["e"], fr)
        i = self._innermost_iter()
        if i is not None:
            c = self.cur_cond(i + 1)
            it_act = self.ctx[i][1]
            c = And(c, Not(it_act.ret) if it_act.ret is not False else True)
            j = self._innermost("loopctl")
            in_sym = any(e[0] == "rep" for e in self.ctx[(j or 0):i])
            if j is not None and not in_sym:
                self.ctx[j][1].ret = Or(self.ctx[j][1].ret, c)
            it_act.ret = Or(it_act.ret, c)
        return UNIT

    def ev_Continue(self, n, fr):
        i = self._innermost_iter()
        if i is not None:
            c = self.cur_cond(i + 1)
            it_act = self.ctx[i][1]
            it_act.ret = Or(it_act.ret, And(c, Not(it_act.ret) if it_act.ret is not False else True))
        return UNIT

    def ev_Try(self, n, fr):
        v = self.ev(n["e"], fr)
        self.tries.append((v, n, self.cur_fn(), self.cur_cond()))
        v0 = core(v)
        alts = flatten_phi(v0) if isinstance(v0, PhiV) else [(True, v0)]
        errs = [(c, x) for c, x in alts if isinstance(core(x), StructV) and core(x).variant == "Err"]
        if errs and (isinstance(v0, PhiV) or len(alts) == 1):
            # `?` on a value known to be Err(..) on some paths: those paths return that error
            idx = None
            for i in range(len(self.ctx) - 1, -1, -1):
                if self.ctx[i][0] == "act":
                    idx = i
                    break
            if idx is not None:
                act = self.ctx[idx][1]
                here = self.cur_cond(idx + 1)
                reps_ = [e for e in self.ctx[idx + 1:] if e[0] == "rep"]
                if reps_:
                    o_ = atom("opaque", "in-loop@%s" % n.get("sp"))
                    it_ = reps_[-1][2] if len(reps_[-1]) > 2 else reps_[-1][1]
                    self.atom_vals[o_[1]] = ("loop", it_, elem_of(it_))
                    here = And(o_, here)
                outer = [e[1] for e in self.ctx[:idx] if e[0] == "cond"]
                for c, x in errs:
                    cc = And(here, c, Not(act.ret) if act.ret is not False else True)
                    if cc is False:
                        continue
                    act.fails.append((cc, x, n))
                    self.fails.append((And(And(*outer), cc), x, n, self.cur_fn()))
                    if not isinstance(v0, PhiV) and c is True:
                        # `Err(e)?` on a value that is an error on *every* path reaching it: nothing after it runs, and (as
                        # for `return Err(..)`) no artefact exists on these paths -- what would be written there is dropped
                        act.dead = Or(getattr(act, "dead", False), cc)
                    act.exits = Or(getattr(act, "exits", False), cc)
        return Via("?", self._unwrap_ok(v))

    def _try_success(self, v, n):
        """the condition under which `v?` continues"""
        v0 = core(v)
        if isinstance(v0, StructV) and v0.variant in ("Ok", "Some"):
            return True
        if isinstance(v0, StructV) and v0.variant in ("Err", "None"):
            return False
        if isinstance(v0, PhiV):
            return Or(*[And(c, self._try_success(x, n)) for c, x in v0.alts])
        if isinstance(v0, CallV) and v0.callee == "std::result::Result::ok" and len(v0.args) == 1:
            return atom("variant", core(v0.args[0]).r(), "Ok")
        if isinstance(v0, CallV) and v0.callee in OKNESS_PRESERVING and v0.args:
            # map_err / or(Err(..)) / map / inspect*: Ok exactly when the receiver is Ok
            if v0.callee != "std::result::Result::or" or (len(v0.args) == 2 and isinstance(core(v0.args[1]), StructV) and core(v0.args[1]).variant == "Err"):
                return self._try_success(v0.args[0], None)
        ty = ((n or {}).get("e") or {}).get("ty", "")
        if ty.startswith("std::option::Option"):
            return atom("some", v0.r())
        return atom("variant", v0.r(), "Ok")

    def _unwrap_ok(self, v):
        """`Ok(x)?` / `Some(x)?` is x; a join keeps only its success alternatives (the others leave the function)."""
        v0 = core(v)
        if isinstance(v0, StructV) and v0.variant in ("Ok", "Some") and "0" in v0.fields:
            return v0.fields["0"]
        if isinstance(v0, CallV) and v0.callee in ("std::result::Result::map", "std::option::Option::map") and len(v0.args) == 2 \
                and isinstance(v0.args[1], Via) and v0.args[1].name == "closure-result":
            # `r.map(f)?` is f(payload of r) on the paths that continue
            return v0.args[1].inner
        if isinstance(v0, PhiV):
            alts = []
            for c, x in v0.alts:
                x0 = core(x)
                if isinstance(x0, StructV) and x0.variant in ("Err", "None"):
                    continue
                alts.append((c, self._unwrap_ok(x)))
            if len(alts) == 1:
                return alts[0][1]
            if alts:
                return PhiV(alts)
        return v

    def expand(self, f):
        """Replace every `any(S, phi)` / loop-derived `contains` atom by its per-element formula phi (for rules that
        reason about what is tested of one element of an iteration)."""
        if f is True or f is False:
            return f
        if f[0] == "atom":
            v = self.atom_vals.get(f[1])
            if f[1][0] in ("any", "contains") and v and len(v) == 3 and v[0] is not True and not isinstance(v[0], V):
                return self.expand(v[0]) if v[0] != f else f
            return f
        if f[0] == "not":
            return Not(self.expand(f[1]))
        parts = [self.expand(g) for g in f[1]]
        return And(*parts) if f[0] == "and" else Or(*parts)

    def _trivial_accessor(self, name, body):
        """a function whose whole body is a field selection of a parameter, possibly borrowed / dereferenced / passed
        through as_ref()-like adaptors"""
        cache = self.__dict__.setdefault("_triv", {})
        if name in cache:
            return cache[name]
        e = body.get("hir") or {}
        ok = False
        for _ in range(8):
            k = e.get("k")
            if k == "Block" and not e.get("stmts") and e.get("expr") is not None:
                e = e["expr"]
            elif k in ("AddrOf", "Unary"):
                e = e["e"]
            elif k == "MethodCall" and e.get("name") in ("as_ref", "as_str", "as_slice", "as_deref", "as_bytes", "borrow", "deref") and not e.get("args"):
                e = e["recv"]
            elif k == "Field":
                b = e
                while b.get("k") == "Field":
                    b = b["base"]
                while b.get("k") in ("Unary", "AddrOf"):
                    b = b["e"]
                ok = b.get("k") == "Path" and b.get("res") == "local"
                break
            else:
                break
        cache[name] = ok
        return ok

    def _is_fnitem(self, x):
        """a named local function used as a value (callback)"""
        x = core(x)
        return isinstance(x, Def) and x.dk in ("Fn", "AssocFn") and x.path in self.crate.bodies and "hir" in self.crate.bodies[x.path] and x.path not in self.fn_stack

    def ev_Ret(self, n, fr):
        v = self.ev(n["e"], fr) if n.get("e") else UNIT
        # innermost activation
        idx = None
        for i in range(len(self.ctx) - 1, -1, -1):
            if self.ctx[i][0] == "act":
                idx = i
                break
        if idx is None:
            return UNIT
        act = self.ctx[idx][1]
        fs = []
        inner = None      # conditions inside the innermost symbolic iteration
        loop_src = None
        for e in self.ctx[idx + 1:]:
            tgt_ = inner if inner is not None else fs
            if e[0] == "cond":
                tgt_.append(e[1])
            elif e[0] in ("iter", "loopctl") and e[1].ret is not False:
                tgt_.append(Not(e[1].ret))
            elif e[0] == "rep":
                if inner is not None:
                    # nested symbolic loops: keep the outer part opaque
                    a_ = atom("opaque", "in-loop@%s" % n.get("sp"))
                    it_ = loop_src
                    self.atom_vals[a_[1]] = ("loop", it_, elem_of(it_))
                    fs.append(a_)
                    fs.extend(inner)
                inner = []
                loop_src = e[2] if len(e) > 2 else e[1]
        if inner is not None:
            # leaving the function from inside `for x in S`: some element of S satisfies the conditions collected inside
            # the iteration  ->  any(S, phi(elem)); a single equality / variant test of the element is `contains`
            phi = And(*inner)
            el = elem_of(loop_src)
            elr = core(el).r()
            srcr = core(loop_src).r()
            ats_ = F.atoms(phi) if phi is not True and phi is not False else []
            a_ = None
            if len(ats_) == 1 and phi == ("atom", ats_[0]):
                x_ = ats_[0]
                if x_[0] == "variant" and x_[1] == elr:
                    a_ = atom("contains", srcr, x_[2])
                elif x_[0] == "eq" and elr in (x_[1], x_[2]):
                    a_ = atom("contains", srcr, x_[2] if x_[1] == elr else x_[1])
            if a_ is None:
                a_ = atom("any", srcr, F.show(phi))
            self.atom_vals[a_[1]] = (phi, el, loop_src)
            # the crate-wide failure log keeps the per-element view (which element test fails inside the loop)
            o_ = atom("opaque", "in-loop@%s" % n.get("sp"))
            self.atom_vals[o_[1]] = ("loop", loop_src, el)
            fs_log = fs + [o_] + inner
            fs.append(a_)
        else:
            fs_log = fs
        c = And(And(*fs), Not(act.ret) if act.ret is not False else True)
        v0 = core(v)
        if isinstance(v0, StructV) and v0.variant == "Err":
            # a failure: no artefact exists on this path; emission conditions are "given success"
            act.fails.append((c, v, n))
            # the crate-wide log carries the whole path (conditions of enclosing inlined activations too)
            outer = [e[1] for e in self.ctx[:idx] if e[0] == "cond"]
            c_log = And(And(*fs_log), Not(act.ret) if act.ret is not False else True)
            self.fails.append((And(And(*outer), c_log), v, n, self.cur_fn()))
            return UNIT
        act.rets.append((c, v))
        act.ret = Or(act.ret, c)
        return UNIT

    def ev_Assign(self, n, fr):
        r = self.ev(n["r"], fr)
        self.assign(n["l"], r, fr, n, "=")
        return UNIT

    def ev_AssignOp(self, n, fr):
        r = self.ev(n["r"], fr)
        self.assign(n["l"], r, fr, n, n["op"])
        return UNIT

    def assign(self, lnode, r, fr, n, op):
        # find root local and selector path
        path = []
        x = lnode
        while True:
            if x["k"] == "Field":
                path.append("." + x["name"])
                x = x["base"]
            elif x["k"] == "Index":
                idx = self.ev(x["idx"], fr)
                path.append("[%s]" % idx.r())
                x = x["base"]
            elif x["k"] in ("Unary", "AddrOf"):
                x = x["e"]
            else:
                break
        sel = "".join(reversed(path))
        tgt = self.ev(x, fr)
        self.muts.append((tgt, "assign" if op == "=" else "assignop:" + op, (sel, r), n, self.cur_fn(), self.cur_cond()))
        if x["k"] == "Path" and x["res"] == "local":
            cur = fr.get(x["hid"])
            if sel == "" and op == "=" and getattr(cur, "is_out", False) and lnode.get("k") == "Unary":
                # `*out = value` through the out-parameter of the function being run: the referent itself changes
                depth = getattr(cur, "depth", None)
                c_ = self.cur_cond(depth) if depth is not None and depth <= len(self.ctx) else True
                if c_ is True or c_ is False:
                    cur.base, cur.ops = r, []
                else:
                    prev_ = MutV(cur.base)
                    prev_.ops = list(cur.ops)
                    cur.base, cur.ops = PhiV([(c_, r), (Not(c_), prev_ if prev_.ops else prev_.base)]), []
            elif sel == "" and op == "=":
                depth = getattr(cur, "depth", None)
                c_ = self.cur_cond(depth) if depth is not None and depth <= len(self.ctx) else True
                if c_ is True or c_ is False or not isinstance(cur, MutV):
                    new_ = MutV(r)
                else:
                    # an assignment on some paths only: the variable is a join of the new and the previous value
                    new_ = MutV(PhiV([(c_, r), (Not(c_), cur if cur.ops else cur.base)]))
                new_.depth = depth if depth is not None else len(self.ctx)
                fr[x["hid"]] = new_
            elif isinstance(cur, MutV):
                cur.ops.append(("assign" if op == "=" else op, sel, r))

    # -- calls ---------------------------------------------------------------------------
    def ev_Call(self, n, fr):
        args = [self.ev(a, fr) for a in n["args"]]
        callee = n.get("callee")
        dk = n.get("dk", "")
        if callee and "Ctor" in dk:
            name = n.get("ctor_of") or callee
            sv = StructV(None, name, {str(i): a for i, a in enumerate(args)}, node=n)
            if "Variant" not in dk:
                sv = StructV(name, None, {str(i): a for i, a in enumerate(args)}, node=n)
            self.structs.append((sv, n, self.cur_fn(), self.cur_cond()))
            return sv
        if callee and dk in ("Fn", "AssocFn"):
            return self.call_fn(callee, n.get("inst"), args, n, fr)
        f = self.ev(n["f"], fr)
        f0 = core(f)
        if isinstance(f0, ClosureV):
            return self.call_closure(f0, args)
        if isinstance(f0, Def) and f0.dk in ("Fn", "AssocFn"):
            return self.call_fn(f0.path, None, args, n, fr)
        if isinstance(f0, PhiV):
            # e.g. `let f = if c { A::x } else { A::y }; f(arg)`
            alts_ = []
            for c, x in f0.alts:
                self.ctx.append(("cond", c))        # each alternative is called exactly when it was selected
                try:
                    alts_.append((c, self.call_value(x, args, n, fr)))
                finally:
                    self.ctx.pop()
            return PhiV(alts_)
        self.calls.append(("<indirect:%s>" % f0.r(), args, n, self.cur_cond(), self.cur_fn()))
        # a closure-typed parameter called with a writer: opaque emission
        for a in args:
            if isinstance(a, WriterV):
                self.emit(a.sink, {"t": "Opaque", "what": "call of %s" % f0.r(), "sp": n.get("sp")})
        return CallV("<indirect:%s>" % f0.r(), args, n)

    def call_value(self, f, args, n, fr):
        f0 = core(f)
        if isinstance(f0, ClosureV):
            return self.call_closure(f0, args)
        if isinstance(f0, Def) and f0.dk in ("Fn", "AssocFn"):
            return self.call_fn(f0.path, None, args, n, fr)
        return CallV("<indirect:%s>" % f0.r(), args, n)

    def ev_MethodCall(self, n, fr):
        recv = self.ev(n["recv"], fr)
        args = [recv] + [self.ev(a, fr) for a in n["args"]]
        callee = n.get("callee") or ("?::" + n["name"])
        return self.call_fn(callee, n.get("inst"), args, n, fr)

    def call_fn(self, callee, inst, args, n, fr):
        # `s.parse::<T>()` and `T::from_str(s)` are the same function: one canonical callee `parse::<T>`
        full_ = inst or callee or ""
        m_ = _FROMSTR.search(full_)
        if m_ and len(args) == 1:
            callee = inst = "parse::<%s>" % m_.group(1)
        elif full_.endswith("impl str>::parse") and len(args) == 1:
            m2_ = re.match(r"^std::result::Result<(.+), [^,]+>$", n.get("ty", "") or "")
            if m2_:
                callee = inst = "parse::<%s>" % m2_.group(1)
        # `x.into()` / `x.try_into()` forwarded by core's blanket impl to a *local* `From` / `TryFrom` impl: that impl is
        # what runs
        if n.get("fwd") and len(args) == 1 and (callee or "").split("::")[-1] in ("into", "try_into"):
            import facts as _facts
            fw_ = _facts.norm_path(n["fwd"])
            if fw_ in self.crate.bodies:
                n2_ = {k_: v_ for k_, v_ in n.items() if k_ not in ("fwd", "inst")}
                n2_["callee"] = fw_
                return self.call_fn(fw_, None, args, n2_, fr)
        self.calls.append((inst or callee, args, n, self.cur_cond(), self.cur_fn()))
        # a `&mut` view handed on (`let s = buf.as_mut_slice(); f(s)`) is the same out-parameter as `f(&mut buf)`
        arg_nodes_ = ([n.get("recv")] if n.get("recv") is not None else []) + list(n.get("args") or [])
        if len(arg_nodes_) == len(args):
            for an_, av_ in zip(arg_nodes_[1:] if n.get("recv") is not None else arg_nodes_, args[1:] if n.get("recv") is not None else args):
                if an_ and an_.get("k") != "AddrOf" and (an_.get("aty") or an_.get("ty") or "").startswith("&mut ") and isinstance(_peel_view(av_), MutV) \
                        and not any(_peel_view(av_) is m_ for m_ in self._mut_args):
                    self._mut_args.append(_peel_view(av_))
        if self._mut_args:
            for mv in self._mut_args:
                if any(_peel_view(a) is mv for a in args):
                    mv.ops.append(("outarg", inst or callee, *[a for a in args if _peel_view(a) is not mv]))
            self._mut_args = []
        last = callee.split("::")[-1]
        is_bool = n.get("ty") == "bool"
        # ---- yasna model ----
        if callee.startswith("yasna::"):
            r = self.yasna(callee, last, args, n)
            if r is not None:
                return r
        a0 = args[0] if args else None
        # `it.position(pred)`: Some(index of the first element satisfying pred) exactly when some element does
        if last == "position" and len(args) == 2 and callee.endswith("Iterator::position") and (isinstance(core(args[1]), ClosureV) or self._is_fnitem(args[1])):
            c0 = core(a0)
            cl = core(args[1])
            x_ = Sel(c0, "[]")
            pv_ = self.call_closure(cl, [x_]) if isinstance(cl, ClosureV) else self.call_body(cl.path, self.crate.bodies[cl.path], [x_])
            body = self.to_formula(pv_)
            a_ = atom("any", c0.r(), F.show(body))
            self.atom_vals[a_[1]] = (body, x_, args[0])
            pos_ = CallV(inst or callee, [args[0], Via("closure-result", BoolV(body))], n, inst)
            return PhiV([(a_, StructV("std::option::Option", "Some", {"0": Sel(pos_, "?")})), (Not(a_), StructV("std::option::Option", "None", {}))])
        # ---- predicates ----
        if is_bool and args:
            c0 = core(a0)
            if last == "is_empty":
                tgt = self._local_target(inst, callee)
                if tgt is None:
                    return BoolV(atom("empty", c0.r()))
            if last == "is_some":
                return BoolV(self._some(c0))
            if last == "is_none":
                return BoolV(Not(self._some(c0)))
            if last == "is_ok":
                return BoolV(atom("variant", c0.r(), "Ok"))
            if last == "is_err":
                return BoolV(atom("variant", c0.r(), "Err"))
            if last == "contains" and len(args) == 2:
                # Range::contains(x) with constant bounds
                if isinstance(c0, StructV) and (c0.adt or "").startswith("std::ops::Range"):
                    lo, hi = self.concrete(c0.fields.get("start", Unknown("?"))), self.concrete(c0.fields.get("end", Unknown("?")))
                    incl = "Inclusive" in (c0.adt or "")
                    a_ = atom("inrange", core(args[1]).r(), lo, hi, incl)
                    self.atom_vals[a_[1]] = (args[1],)
                    return BoolV(a_)
                if isinstance(c0, CallV) and "RangeInclusive::new" in c0.callee and len(c0.args) == 2:
                    lo, hi = self.concrete(c0.args[0]), self.concrete(c0.args[1])
                    a_ = atom("inrange", core(args[1]).r(), lo, hi, True)
                    self.atom_vals[a_[1]] = (args[1],)
                    return BoolV(a_)
                needle = core(args[1])
                ntxt = needle.r()
                if isinstance(needle, StructV) and needle.variant and not needle.fields:
                    ntxt = needle.variant.split("::")[-1]
                a_ = atom("contains", c0.r(), ntxt)
                self.atom_vals[a_[1]] = (args[0], args[1])
                return BoolV(a_)
            if last in ("any", "all") and len(args) == 2 and (isinstance(core(args[1]), ClosureV) or self._is_fnitem(args[1])):
                cl = core(args[1])

                def apply_pred(x):
                    if isinstance(cl, ClosureV):
                        return self.call_closure(cl, [x])
                    return self.call_body(cl.path, self.crate.bodies[cl.path], [x])
                rnode = n.get("recv") or {}
                if "std::option::" in rnode.get("ty", ""):
                    body = self.to_formula(apply_pred(Sel(c0, "?")))
                    sm = self._some(c0)
                    return BoolV(And(sm, body) if last == "any" else Or(Not(sm), body))
                body = self.to_formula(apply_pred(Sel(c0, "[]")))
                elr_ = Sel(c0, "[]").r()
                if last == "any" and body is not True and body is not False and body[0] == "atom":
                    x_ = body[1]
                    c_ = None
                    if x_[0] == "variant" and x_[1] == elr_ and x_[2] not in ("Ok", "Err", "Some", "None"):
                        c_ = atom("contains", c0.r(), x_[2])
                    elif x_[0] == "eq" and elr_ in (x_[1], x_[2]):
                        c_ = atom("contains", c0.r(), x_[2] if x_[1] == elr_ else x_[1])
                    if c_ is not None:
                        # `iter().any(|x| x == K)` / `matches!(x, K)` is `contains(&K)`
                        self.atom_vals[c_[1]] = (body, Sel(c0, "[]"), args[0])
                        return BoolV(c_)
                a_ = atom(last, c0.r(), F.show(body))
                self.atom_vals[a_[1]] = (body, Sel(c0, "[]"), args[0])
                return BoolV(a_)
            if last == "le" and len(args) == 2:
                return BoolV(self._cmp("<=", args[0], args[1]))
            if last == "lt" and len(args) == 2:
                return BoolV(self._cmp("<", args[0], args[1]))
            if last == "ge" and len(args) == 2:
                return BoolV(self._cmp(">=", args[0], args[1]))
            if last == "gt" and len(args) == 2:
                return BoolV(self._cmp(">", args[0], args[1]))
            if last in ("eq", "ne") and len(args) == 2:
                f = self.eq_formula(args[0], args[1])
                return BoolV(f if last == "eq" else Not(f))
        # ---- std HashMap / BTreeMap Entry API: `map.entry(k)` then `Vacant(slot)` / `Occupied(slot)` ----
        if "map::VacantEntry" in callee or "map::OccupiedEntry" in callee or (inst and ("map::VacantEntry" in inst or "map::OccupiedEntry" in inst)):
            ent = _entry_of(a0)
            if ent is not None:
                m_, k_ = ent.args[0], ent.args[1]
                if last == "key":
                    return Via("key", k_, inst or callee)
                if last in ("insert", "insert_entry") and len(args) == 2:
                    ins_name = ent.callee.rsplit("::", 1)[0] + "::insert"
                    self.muts.append((m_, "method:" + ins_name, [k_, args[1]], n, self.cur_fn(), self.cur_cond()))
                    if isinstance(m_, MutV):
                        m_.ops.append(("call", "insert", k_, args[1]))
                    return CallV(inst or callee, args, n, inst)
                if last in ("get", "get_mut", "into_mut"):
                    return CallV(ent.callee.rsplit("::", 1)[0] + "::get", [m_, k_], n, inst)
        # ---- mutation through &mut receiver ----
        rn = n.get("recv")
        if rn is not None and (rn.get("aty") or rn.get("ty") or "").startswith("&mut "):
            self.muts.append((a0, "method:" + (inst or callee), args[1:], n, self.cur_fn(), self.cur_cond()))
            if isinstance(a0, MutV):
                a0.ops.append(("call", last, *args[1:]))
                if last in ("next", "next_back", "pop", "pop_front", "pop_back", "nth", "peek", "next_if", "take", "remove", "swap_remove", "split_off", "drain"):
                    # the value the call yields depends on the state it found: freeze that state in the argument
                    a0 = SnapV(a0, len(a0.ops))
                    args = [a0] + list(args[1:])
        # ---- local function: inline when it carries a writer / closure, or is a bool predicate ----
        if not (inst and inst in self.crate.bodies):
            ri_ = self._resolve_trait_item(callee, n)
            if ri_ is not None:
                inst = ri_
        tgt = self._local_target(inst, callee)
        if tgt is not None and tgt not in self.no_inline:
            body = self.crate.bodies[tgt]
            carries = any(isinstance(core(a), (WriterV, ClosureV)) for a in args)
            # a local function that did not exist when the rules were written is a helper introduced by a later
            # change: look inside it instead of treating it as an opaque primitive (recursion is not followed)
            new_helper = tgt not in known_fns(self.crate.name) and tgt not in self.fn_stack
            if carries or is_bool or tgt in self.inline_always:
                if new_helper:
                    self.inlined.add(tgt)      # (events inside are attributed to its known caller)
                return self.call_body(tgt, body, args, n)
            if self._trivial_accessor(tgt, body) and tgt not in self.fn_stack:
                # `fn params(&self) -> &P { &self.params }`: the call is the field selection (the accessor's name stays
                # visible as a transparent adaptor, so provenance rules still see it)
                via_ = Via(last, self.call_body(tgt, body, args, n), tgt)
                via_.node = n
                return via_
            if new_helper:
                self.inlined.add(tgt)
                return Via("inlined", self.call_body(tgt, body, args, n), tgt)
            return CallV(tgt, args, n, inst)
        if last == "collect" and len(args) == 1 and isinstance(a0, MutV) and getattr(a0, "unrolled", None):
            # the list is materialised: each kept element is a `push` onto the collection that is built
            for keep, payload in a0.unrolled:
                self.muts.append((a0, "method:unrolled::std::vec::Vec::push", [payload], n, self.cur_fn(), And(self.cur_cond(), keep)))
            return a0
        # ---- transparent adaptors ----
        if last == "bytes" and len(args) == 1 and "impl str>::bytes" in callee:
            return Via("bytes", a0, inst or callee)
        if last in TRANSPARENT and len(args) == 1:
            via_ = Via(last, a0, inst or callee)
            via_.node = n
            return via_
        if last in ("try_from", "try_into") and len(args) == 1:
            # std model: a checked conversion between unsigned integer types succeeds iff the value fits
            m_ = _INT_TRY.match(inst or callee)
            if m_:
                dst = m_.group(1) or m_.group(4) or m_.group(6)
                src = m_.group(2) or m_.group(3) or m_.group(5)
                if _UMAX[dst] >= _UMAX[src]:
                    return StructV("std::result::Result", "Ok", {"0": Via("as:" + dst, a0)})
                fits = self._cmp("<=", a0, Const(_UMAX[dst]))
                return PhiV([(fits, StructV("std::result::Result", "Ok", {"0": Via("as:" + dst, a0)})),
                             (Not(fits), StructV("std::result::Result", "Err", {"0": Unknown("TryFromIntError")}))])
        if last in ("from", "try_from", "try_into") and len(args) == 1:
            return Via(last, a0, inst or callee)
        if callee.endswith("Tag::context") and len(args) == 1:
            return TagV("ctx", args[0])
        # Option::filter(pred) / Option::is_some_and(pred): Some(payload) / true exactly when present and pred(payload)
        rty_ = (n.get("recv") or {}).get("ty", "") or ""
        if last in ("filter", "is_some_and", "is_none_or") and len(args) == 2 and "std::option::Option<" in rty_[:60] and (isinstance(core(args[1]), ClosureV) or self._is_fnitem(args[1])):
            cb_ = core(args[1])
            payload_ = Sel(args[0], "?")
            pv_ = self.call_closure(cb_, [payload_]) if isinstance(cb_, ClosureV) else self.call_body(cb_.path, self.crate.bodies[cb_.path], [payload_])
            sm_ = self._some(core(args[0]))
            f_ = And(sm_, self.to_formula(pv_))
            if last == "is_some_and":
                return BoolV(f_)
            if last == "is_none_or":
                return BoolV(Or(Not(sm_), self.to_formula(pv_)))
            some_ = StructV("std::option::Option", "Some", {"0": payload_})
            none_ = StructV("std::option::Option", "None", {})
            if f_ is True:
                return some_
            if f_ is False:
                return none_
            return PhiV([(f_, some_), (Not(f_), none_)])
        # `it.try_for_each(|x| f(x))`: Ok(()) exactly when f succeeds for every element (it stops at the first failure)
        if last == "try_for_each" and len(args) == 2 and (isinstance(core(args[1]), ClosureV) or self._is_fnitem(args[1])):
            cb_ = core(args[1])
            src_ = args[0]
            el_ = elem_of(src_)
            base_ = src_
            while isinstance(core(base_), IterMapV):
                base_ = core(base_).src
            self.ctx.append(("rep", base_, src_))
            try:
                r_ = self.call_closure(cb_, [el_]) if isinstance(cb_, ClosureV) else self.call_body(cb_.path, self.crate.bodies[cb_.path], [el_])
            finally:
                self.ctx.pop()
            phi_ = self._try_success(r_, None)
            a_ = atom("all", core(src_).r(), F.show(phi_))
            self.atom_vals[a_[1]] = (phi_, el_, src_)
            ok_ = StructV("std::result::Result", "Ok", {"0": UNIT})
            err_ = StructV("std::result::Result", "Err", {"0": Sel(r_, "#Err.0")})
            return PhiV([(a_, ok_), (Not(a_), err_)])
        # `o.map(f)` / `unwrap()` / `expect(..)` on a receiver whose alternatives are known constructors: f is applied to
        # each success payload; unwrap keeps the success alternatives (the others leave by panicking)
        if last in ("map", "unwrap", "expect") and args and callee in ("std::option::Option::map", "std::result::Result::map", "std::option::Option::unwrap", "std::option::Option::expect", "std::result::Result::unwrap", "std::result::Result::expect"):
            flat_ = flatten_phi(args[0])
            if flat_ and all(isinstance(core(x), StructV) and core(x).variant in ("Ok", "Err", "Some", "None") for _, x in flat_):
                if last == "map" and len(args) == 2 and isinstance(core(args[1]), Def) and "Ctor" in (core(args[1]).dk or "") and hasattr(core(args[1]), "ctor_of"):
                    # `.map(Variant)` on known alternatives: the constructor applied to each success payload
                    ct_ = core(args[1])
                    alts_ = []
                    for c_, x in flat_:
                        x0 = core(x)
                        if x0.variant in ("Ok", "Some"):
                            pay_ = x0.fields.get("0", UNIT)
                            sv_ = StructV(None, ct_.ctor_of, {"0": pay_}, node=n) if "Variant" in ct_.dk else StructV(ct_.ctor_of, None, {"0": pay_}, node=n)
                            self.structs.append((sv_, n, self.cur_fn(), And(self.cur_cond(), c_)))
                            alts_.append((c_, StructV(x0.adt, x0.variant, {"0": sv_})))
                        else:
                            alts_.append((c_, x))
                    return alts_[0][1] if len(alts_) == 1 else PhiV(alts_)
                if last == "map" and len(args) == 2 and isinstance(core(args[1]), ClosureV):
                    alts_ = []
                    for c_, x in flat_:
                        x0 = core(x)
                        if x0.variant in ("Ok", "Some"):
                            self.ctx.append(("cond", c_))
                            try:
                                y_ = self.call_closure(core(args[1]), [x0.fields.get("0", UNIT)])
                            finally:
                                self.ctx.pop()
                            alts_.append((c_, StructV(x0.adt, x0.variant, {"0": y_})))
                        else:
                            alts_.append((c_, x))
                    return alts_[0][1] if len(alts_) == 1 else PhiV(alts_)
                if last in ("unwrap", "expect"):
                    alts_ = [(c_, core(x).fields.get("0", UNIT)) for c_, x in flat_ if core(x).variant in ("Ok", "Some")]
                    if alts_:
                        return alts_[0][1] if len(alts_) == 1 else PhiV(alts_)
        # `o.map_or(d, f)` / `o.and_then(f)` / `o.unwrap_or(d)` on known alternatives
        if last in ("map_or", "and_then", "unwrap_or") and args and callee in ("std::option::Option::map_or", "std::result::Result::map_or", "std::option::Option::and_then", "std::result::Result::and_then", "std::option::Option::unwrap_or", "std::result::Result::unwrap_or"):
            flat_ = flatten_phi(args[0])
            if flat_ and all(isinstance(core(x), StructV) and core(x).variant in ("Ok", "Err", "Some", "None") for _, x in flat_) and (last == "unwrap_or" or isinstance(core(args[-1]), ClosureV)):
                alts_ = []
                for c_, x in flat_:
                    x0 = core(x)
                    if x0.variant in ("Ok", "Some"):
                        if last == "unwrap_or":
                            alts_.append((c_, x0.fields.get("0", UNIT)))
                        else:
                            self.ctx.append(("cond", c_))
                            try:
                                alts_.append((c_, self.call_closure(core(args[-1]), [x0.fields.get("0", UNIT)])))
                            finally:
                                self.ctx.pop()
                    else:
                        alts_.append((c_, args[1] if last in ("map_or", "unwrap_or") else x))
                if n.get("ty") == "bool":
                    return BoolV(Or(*[And(c_, self.to_formula(y_)) for c_, y_ in alts_]))
                return alts_[0][1] if len(alts_) == 1 else PhiV(alts_)
        # `o.ok_or(e)` on known alternatives: Some(v) -> Ok(v), None -> Err(e)
        if callee == "std::option::Option::ok_or" and len(args) == 2:
            flat_ = flatten_phi(args[0])
            if len(flat_) > 1 and all(isinstance(core(x), StructV) and core(x).variant in ("Some", "None") for _, x in flat_):
                alts_ = [(c_, StructV("std::result::Result", "Ok", {"0": core(x).fields.get("0", UNIT)}) if core(x).variant == "Some"
                          else StructV("std::result::Result", "Err", {"0": args[1]})) for c_, x in flat_]
                return PhiV(alts_)
        # `r.ok()` on a symbolic Result: Some(payload) exactly when r is Ok
        if callee == "std::result::Result::ok" and len(args) == 1 and not isinstance(core(args[0]), (StructV, PhiV)):
            okf_ = atom("variant", core(args[0]).r(), "Ok")
            return PhiV([(okf_, StructV("std::option::Option", "Some", {"0": Sel(args[0], "#Ok.0")})), (Not(okf_), StructV("std::option::Option", "None", {}))])
        # `x.transpose()` on known alternatives: Some(Ok(v)) -> Ok(Some(v)), Some(Err(e)) -> Err(e), None -> Ok(None) (and back)
        if last == "transpose" and len(args) == 1 and callee in ("std::option::Option::transpose", "std::result::Result::transpose"):
            flat_ = [(c_, y_) for c_, x_ in flatten_phi(args[0]) for y_ in [x_]]
            outs_ = []
            ok_all = bool(flat_)
            for c_, x_ in flat_:
                x0 = core(x_)
                if not (isinstance(x0, StructV) and x0.variant in ("Some", "None", "Ok", "Err")):
                    ok_all = False
                    break
                if callee.startswith("std::option"):
                    if x0.variant == "None":
                        outs_.append((c_, StructV("std::result::Result", "Ok", {"0": x0})))
                        continue
                    for c2_, in_ in flatten_phi(x0.fields.get("0")):
                        i0 = core(in_)
                        if isinstance(i0, StructV) and i0.variant == "Ok":
                            outs_.append((And(c_, c2_), StructV("std::result::Result", "Ok", {"0": StructV("std::option::Option", "Some", {"0": i0.fields.get("0")})})))
                        elif isinstance(i0, StructV) and i0.variant == "Err":
                            outs_.append((And(c_, c2_), i0))
                        else:
                            ok_all = False
                else:
                    if x0.variant == "Err":
                        outs_.append((c_, StructV("std::option::Option", "Some", {"0": x0})))
                        continue
                    for c2_, in_ in flatten_phi(x0.fields.get("0")):
                        i0 = core(in_)
                        if isinstance(i0, StructV) and i0.variant == "Some":
                            outs_.append((And(c_, c2_), StructV("std::option::Option", "Some", {"0": StructV("std::result::Result", "Ok", {"0": i0.fields.get("0")})})))
                        elif isinstance(i0, StructV) and i0.variant == "None":
                            outs_.append((And(c_, c2_), i0))
                        else:
                            ok_all = False
            if ok_all and outs_:
                outs_ = [(c_, x_) for c_, x_ in outs_ if c_ is not False]
                return outs_[0][1] if len(outs_) == 1 and outs_[0][0] is True else PhiV(outs_)
        # `r.or(other)` on a receiver whose alternatives are known constructors: the success alternatives stay, every
        # failure alternative becomes `other`
        if last == "or" and len(args) == 2 and callee in ("std::result::Result::or", "std::option::Option::or"):
            flat_ = flatten_phi(args[0])
            if flat_ and all(isinstance(core(x), StructV) and core(x).variant in ("Ok", "Err", "Some", "None") for _, x in flat_):
                alts_ = [(c_, x if core(x).variant in ("Ok", "Some") else args[1]) for c_, x in flat_]
                return alts_[0][1] if len(alts_) == 1 else PhiV(alts_)
        # bool::then_some(x) / then(f): Some(..) exactly when the receiver holds
        if last in ("then_some", "then") and len(args) == 2 and (n.get("recv") or {}).get("ty", "").lstrip("&") == "bool":
            f_ = self.to_formula(args[0])
            inner_ = args[1]
            if last == "then" and isinstance(core(inner_), ClosureV):
                inner_ = self.call_closure(core(inner_), [])
            some_ = StructV("std::option::Option", "Some", {"0": inner_})
            none_ = StructV("std::option::Option", "None", {})
            if f_ is True:
                return some_
            if f_ is False:
                return none_
            return PhiV([(f_, some_), (Not(f_), none_)])
        # `filter_map` / `map` / `filter` over a literal table: unroll it into the list it builds; each element that is
        # kept is logged exactly like a `push` onto the resulting collection (under the condition that keeps it)
        if last in ("filter_map", "map", "filter", "find_map", "find") and len(args) == 2 and isinstance(core(args[1]), ClosureV) and not isinstance(core(args[0]), ArrayV) and self._table(args[0]) is not None:
            args = [self._table(args[0])] + list(args[1:])      # a const table is the literal it is initialised with
            a0 = args[0]
        # `find` over a literal table: the first entry for which the predicate holds
        if last == "find" and len(args) == 2 and isinstance(core(args[1]), ClosureV) and isinstance(core(args[0]), ArrayV) and 0 < len(core(args[0]).items) <= 64:
            cl = core(args[1])
            alts, earlier = [], []
            for it in core(args[0]).items:
                pre = And(*[Not(e) for e in earlier])
                self.ctx.append(("cond", pre))
                try:
                    ok_i = self.to_formula(self.call_closure(cl, [it]))
                finally:
                    self.ctx.pop()
                ci = And(pre, ok_i)
                if ci is not False:
                    alts.append((ci, StructV("std::option::Option", "Some", {"0": it})))
                earlier.append(ok_i)
            rest_ = And(*[Not(e) for e in earlier])
            if rest_ is not False:
                alts.append((rest_, StructV("std::option::Option", "None", {})))
            return alts[0][1] if len(alts) == 1 and alts[0][0] is True else PhiV(alts)
        if last in ("filter_map", "map", "filter") and len(args) == 2 and isinstance(core(args[1]), ClosureV) and isinstance(core(args[0]), ArrayV) and 0 < len(core(args[0]).items) <= 64:
            cl = core(args[1])
            res = MutV(CallV("std::vec::Vec::new", [], n))
            res.depth = len(self.ctx)
            for it in core(args[0]).items:
                r = self.call_closure(cl, [it])
                if last == "map":
                    keep, payload = True, r
                elif last == "filter":
                    keep, payload = self.to_formula(r), it
                else:
                    flat_ = flatten_phi(r)
                    if not all(isinstance(core(x), StructV) and core(x).variant in ("Some", "None") for _, x in flat_):
                        keep, payload = atom("some", core(r).r()), Sel(r, "?")
                    else:
                        somes_ = [(c_, core(x).fields.get("0")) for c_, x in flat_ if core(x).variant == "Some"]
                        keep = Or(*[c_ for c_, _ in somes_])
                        payload = somes_[0][1] if len(somes_) == 1 else (PhiV(somes_) if somes_ else Unknown("none"))
                if keep is False:
                    continue
                res.ops.append(("call", "push", payload))
                res.unrolled = getattr(res, "unrolled", []) + [(keep, payload)]
            return res
        # a further adaptor on an unrolled list (`[..].into_iter().filter(p).map(f)`): element by element, under the
        # condition that keeps the element
        if last in ("map", "filter", "filter_map") and len(args) == 2 and isinstance(core(args[1]), ClosureV) and isinstance(a0, MutV) and getattr(a0, "unrolled", None):
            cl = core(args[1])
            res = MutV(CallV("std::vec::Vec::new", [], n))
            res.depth = len(self.ctx)
            res.unrolled = []
            for keep, payload in a0.unrolled:
                self.ctx.append(("cond", keep))
                try:
                    r = self.call_closure(cl, [payload])
                finally:
                    self.ctx.pop()
                if last == "map":
                    k2, p2 = keep, r
                elif last == "filter":
                    k2, p2 = And(keep, self.to_formula(r)), payload
                else:
                    flat_ = flatten_phi(r)
                    if not all(isinstance(core(x), StructV) and core(x).variant in ("Some", "None") for _, x in flat_):
                        k2, p2 = And(keep, atom("some", core(r).r())), Sel(r, "?")
                    else:
                        somes_ = [(c_, core(x).fields.get("0")) for c_, x in flat_ if core(x).variant == "Some"]
                        k2 = And(keep, Or(*[c_ for c_, _ in somes_]))
                        p2 = somes_[0][1] if len(somes_) == 1 else (PhiV(somes_) if somes_ else Unknown("none"))
                if k2 is False:
                    continue
                res.ops.append(("call", "push", p2))
                res.unrolled.append((k2, p2))
            return res
        # collecting an unrolled list: one conditional push per kept element (the same events as `if keep { v.push(x) }`)
        if last == "collect" and len(args) == 1 and isinstance(a0, MutV) and getattr(a0, "unrolled", None) is not None and callee.endswith("Iterator::collect"):
            for keep, payload in a0.unrolled:
                self.muts.append((a0, "method:std::vec::Vec::push", (payload,), n, self.cur_fn(), And(self.cur_cond(), keep)))
            return a0
        # consuming an unrolled list element by element: `for_each` runs the closure once per kept element, under the
        # condition that keeps it
        if last == "for_each" and len(args) == 2 and isinstance(core(args[1]), ClosureV) and isinstance(a0, MutV) and getattr(a0, "unrolled", None):
            cl = core(args[1])
            for keep, payload in a0.unrolled:
                self.ctx.append(("cond", keep))
                try:
                    self.call_closure(cl, [payload])
                finally:
                    self.ctx.pop()
            return UNIT
        # `find_map` over a literal table: unroll it (first element for which the closure yields Some)
        if last == "find_map" and len(args) == 2 and isinstance(core(args[1]), ClosureV) and isinstance(core(args[0]), ArrayV) and 0 < len(core(args[0]).items) <= 16:
            cl = core(args[1])
            alts = []
            earlier = []
            none = StructV("std::option::Option", "None", {})
            for it in core(args[0]).items:
                t0 = len(self.tries)
                pre = And(*[Not(e) for e in earlier])
                self.ctx.append(("cond", pre))
                try:
                    r = self.call_closure(cl, [it])
                finally:
                    self.ctx.pop()
                succ = And(*[self._try_success(tv, tn) for tv, tn, tf, tc in self.tries[t0:]])
                r0 = core(r)
                if isinstance(r0, PhiV):
                    somes = [(c, x) for c, x in r0.alts if isinstance(core(x), StructV) and core(x).variant == "Some"]
                    rest = [(c, x) for c, x in r0.alts if not (isinstance(core(x), StructV) and core(x).variant in ("Some", "None"))]
                    sc = Or(*[c for c, x in somes], *[And(c, atom("some", core(x).r())) for c, x in rest])
                    payload = somes[0][1] if len(somes) == 1 and not rest else PhiV(somes + rest)
                elif isinstance(r0, StructV) and r0.variant == "Some":
                    sc, payload = True, r0
                elif isinstance(r0, StructV) and r0.variant == "None":
                    sc, payload = False, none
                else:
                    sc, payload = atom("some", r0.r()), StructV("std::option::Option", "Some", {"0": Sel(r, "?")})
                ok_i = And(succ, sc)
                ci = And(pre, ok_i)
                if ci is not False:
                    alts.append((ci, payload))
                earlier.append(ok_i)
            alts.append((And(*[Not(e) for e in earlier]), none))
            return PhiV(alts)
        # `opt.map(|x| <case split / constructor>)`, `opt.and_then(..)`, `opt.map_or(d, f)`, `opt.map_or_else(g, f)` on a
        # symbolic Option: the result is the case split on `opt` being Some (so that a later `if let Some(t) = mapped`, or a
        # boolean use, sees the cases).  Plain projections (`.map(|e| e.value)`) keep their call form.
        if callee in ("std::option::Option::map", "std::option::Option::and_then", "std::option::Option::map_or", "std::option::Option::map_or_else") \
                and args and isinstance(core(args[-1]), ClosureV) and not isinstance(core(args[0]), (StructV, PhiV)):
            cl_ = core(args[-1])
            body_ = cl_.node.get("body") or {}
            while body_.get("k") == "Block" and body_.get("expr"):
                body_ = body_["expr"]
            builds_ = body_.get("k") in ("Match", "If", "Struct", "Tup") or (body_.get("k") == "Call" and "Ctor" in (body_.get("dk") or "")) \
                or (body_.get("k") == "Binary" and body_.get("ty") == "bool") or (body_.get("k") == "MethodCall" and body_.get("ty") == "bool")
            casts_ = body_.get("k") == "Cast"
            if last in ("map_or", "map_or_else") or builds_ or casts_:
                some_ = self._some(core(args[0]))
                if some_ is None:
                    some_ = atom("some", core(args[0]).r())
                self.ctx.append(("cond", some_))
                try:
                    y_ = self.call_closure(cl_, [Sel(args[0], "?")])
                finally:
                    self.ctx.pop()
                none_ = StructV("std::option::Option", "None", {})
                if last == "map":
                    return PhiV([(some_, StructV("std::option::Option", "Some", {"0": y_})), (Not(some_), none_)])
                if last == "and_then":
                    return PhiV([(some_, y_), (Not(some_), none_)])
                d_ = args[1]
                if last == "map_or_else" and isinstance(core(d_), ClosureV):
                    self.ctx.append(("cond", Not(some_)))
                    try:
                        d_ = self.call_closure(core(d_), [])
                    finally:
                        self.ctx.pop()
                if n.get("ty") == "bool":
                    return BoolV(Or(And(some_, self.to_formula(y_)), And(Not(some_), self.to_formula(d_))))
                return PhiV([(some_, y_), (Not(some_), d_)])
        # closures handed to foreign adaptors (map, fold, filter_map, for_each, map_err, ...):
        # apply them once to symbolic arguments so that their callees and places are visible
        _fnitem = self._is_fnitem
        def _ctoritem(x):
            x = core(x)
            return isinstance(x, Def) and "Ctor" in (x.dk or "") and hasattr(x, "ctor_of")
        def _foreignfn(x):
            x = core(x)
            return isinstance(x, Def) and x.dk in ("Fn", "AssocFn") and x.path not in self.crate.bodies and last in ("map", "and_then", "map_err", "filter_map", "flat_map", "for_each", "filter", "find", "any", "all")
        if any(isinstance(core(a), ClosureV) or _fnitem(a) or _ctoritem(a) or _foreignfn(a) for a in args):
            new_args = []
            for a in args:
                ca = core(a)
                if _foreignfn(ca) and a is not args[0]:
                    # `.map(ObjectIdentifier::from_slice)`: a foreign function applied to the symbolic element / payload
                    el = args[0] if args else Unknown("recv")
                    rn_ty = (n.get("recv") or {}).get("ty", "")
                    if last == "map_err":
                        sym0 = Sel(el, "#Err.0")
                    elif "Option<" in rn_ty[:40] or "Result<" in rn_ty[:40]:
                        sym0 = Sel(el, "?")
                    else:
                        sym0 = elem_of(el)
                    syn = {"k": "Call", "callee": ca.path, "sp": n.get("sp"), "ty": "", "args": []}
                    new_args.append(Via("closure-result", self.call_fn(ca.path, None, [sym0], syn, fr), ca.path))
                    continue
                if _ctoritem(ca):
                    # `.map(SanType::DnsName)`: the constructor applied to the symbolic element / payload
                    el = args[0] if args else Unknown("recv")
                    rn_ty = (n.get("recv") or {}).get("ty", "")
                    if last == "map_err":
                        sym0 = Sel(el, "#Err.0")
                    elif "Option<" in rn_ty[:40] or "Result<" in rn_ty[:40]:
                        sym0 = Sel(el, "?")
                    else:
                        sym0 = elem_of(el)
                    name_ = ca.ctor_of
                    sv_ = StructV(None, name_, {"0": sym0}, node=n) if "Variant" in ca.dk else StructV(name_, None, {"0": sym0}, node=n)
                    self.structs.append((sv_, n, self.cur_fn(), self.cur_cond()))
                    new_args.append(Via("closure-result", sv_))
                    continue
                if _fnitem(ca):
                    # a named local function used as the adaptor's callback: apply it to a symbolic element
                    b_ = self.crate.bodies[ca.path]
                    np_ = len(b_.get("params", []))
                    el = args[0] if args else Unknown("recv")
                    rn_ty = (n.get("recv") or {}).get("ty", "")
                    if last == "map_err":
                        sym = [Sel(el, "#Err.0")]
                    elif last in ("map", "and_then") and ("Option<" in rn_ty[:40] or "Result<" in rn_ty[:40]):
                        sym = [Sel(el, "?")]
                    else:
                        sym = [elem_of(el)]
                    sym = (sym + [Unknown("arg")] * np_)[:np_]
                    is_iter = not ("Option<" in rn_ty[:40] or "Result<" in rn_ty[:40])
                    self.ctx.append(("rep", el) if is_iter and last in ("for_each", "filter_map", "map", "find", "find_map", "filter", "flat_map") else ("cond", True))
                    try:
                        # exactly what a direct call `f(elem)` would give (known functions stay calls, helpers are inlined)
                        syn = {"k": "Call", "callee": ca.path, "sp": n.get("sp"), "ty": b_["hir"].get("ty"), "args": []}
                        new_args.append(Via("closure-result", self.call_fn(ca.path, None, sym, syn, fr), ca.path))
                    finally:
                        self.ctx.pop()
                    continue
                if isinstance(ca, ClosureV):
                    np_ = len(ca.node["params"])
                    if last in ("map_err", "or_else", "unwrap_or_else", "ok_or_else", "map", "and_then", "then", "filter_map", "find_map", "find", "filter", "for_each", "flat_map", "position", "retain", "all", "any") or np_ == 1:
                        el = args[0] if args else Unknown("recv")
                        rn_ty = (n.get("recv") or {}).get("ty", "")
                        if last in ("map_err",):
                            sym = [Sel(el, "#Err.0")]
                        elif last in ("map", "and_then") and ("Option<" in rn_ty[:40] or "Result<" in rn_ty[:40]):
                            sym = [Sel(el, "?")]
                        else:
                            sym = [elem_of(el)]
                        sym = (sym + [Unknown("arg")] * np_)[:np_]
                    elif last in ("fold", "try_fold") and np_ == 2:
                        sym = [Unknown("acc"), elem_of(args[0])]
                    else:
                        sym = [Unknown("arg%d" % i) for i in range(np_)]
                    src_it = args[0] if args else Unknown("?")
                    while isinstance(core(src_it), IterMapV):
                        src_it = core(src_it).src
                    self.ctx.append(("rep", src_it) if last in ("fold", "for_each", "filter_map", "map", "retain", "find", "find_map", "filter", "flat_map") and not ("Option<" in (n.get("recv") or {}).get("ty", "")[:40] or "Result<" in (n.get("recv") or {}).get("ty", "")[:40]) else ("cond", True))
                    try:
                        new_args.append(Via("closure-result", self.call_closure(ca, sym)))
                    finally:
                        self.ctx.pop()
                else:
                    new_args.append(a)
            rn_ty0 = (n.get("recv") or {}).get("ty", "")
            if last == "map" and len(new_args) == 2 and isinstance(new_args[1], Via) and new_args[1].name == "closure-result" and not ("Option<" in rn_ty0[:40] or "Result<" in rn_ty0[:40]):
                return IterMapV(args[0], new_args[1].inner)
            args = new_args
        # a foreign call given a writer we cannot see into
        for a in args:
            if isinstance(a, WriterV):
                self.emit(a.sink, {"t": "Opaque", "what": "call of %s" % callee, "sp": n.get("sp")})
        return CallV(inst or callee, args, n, inst)

    def _cmp(self, op, l, r):
        # x.len() > 0, x.len() >= 1, 0 < x.len(), x.len() < 1 ...  <=>  (!)x.is_empty()
        ll, lr = self._len_of(l), self._len_of(r)
        cl, cr = self.concrete(l), self.concrete(r)
        if ll is not None and isinstance(cr, int):
            if (op, cr) in ((">", 0), (">=", 1)):
                return Not(atom("empty", ll.r()))
            if (op, cr) in (("<", 1), ("<=", 0)):
                return atom("empty", ll.r())
        if lr is not None and isinstance(cl, int):
            if (op, cl) in (("<", 0), ("<=", 1)):
                return Not(atom("empty", lr.r()))
            if (op, cl) in ((">", 0), (">=", 1)) and False:
                pass
        a_ = atom("cmp", op, core(l).r(), core(r).r())
        self.atom_vals[a_[1]] = (l, r)
        return a_

    def _some(self, c0):
        if isinstance(c0, StructV) and c0.variant:
            return c0.variant == "Some"
        if isinstance(c0, CallV) and c0.callee.endswith("Iterator>::next") and c0.args and isinstance(c0.args[0], SnapV) and c0.args[0].k == 1:
            # the first `next()` of a fresh iterator over P yields Some exactly when P is not empty
            base_ = core(c0.args[0].mv.base)
            if isinstance(base_, (Param, Sel)):
                return Not(atom("empty", base_.r()))
        if isinstance(c0, PhiV):
            flat_ = flatten_phi(c0)
            if all(isinstance(core(x), StructV) and core(x).variant in ("Some", "None") for _, x in flat_):
                return Or(*[c for c, x in flat_ if core(x).variant == "Some"])
        return atom("some", c0.r())

    def _local_target(self, inst, callee):
        for t in (inst, callee):
            if t and t in self.crate.bodies and "hir" in self.crate.bodies[t]:
                return t
        return None

    # -- yasna model ------------------------------------------------------------------------
    def yasna(self, callee, last, args, n):
        sp = n.get("sp")
        if callee in ("yasna::construct_der", "yasna::try_construct_der", "yasna::construct_der_seq", "yasna::try_construct_der_seq"):
            sink = Sink(len(self.ctx))
            cl = core(args[0])
            if isinstance(cl, ClosureV):
                self.call_closure(cl, [WriterV("w", sink)])
            else:
                sink.items.append({"t": "Opaque", "what": "closure value %s" % cl.r(), "sp": sp})
            return DerV(sink.items, n)
        if callee.endswith("::next") and ("DERWriterSeq" in callee or "DERWriterSet" in callee):
            w = core(args[0])
            if isinstance(w, WriterV):
                w.sink.nexts.append((self.cur_cond(w.sink.depth), tuple(e[1] for e in self.ctx[w.sink.depth:] if e[0] == "rep"), n.get("sp")))
                return WriterV("w", w.sink)
            return Unknown("next on non-writer")
        if callee.startswith("yasna::DERWriter::") or callee.startswith("yasna::writer::DERWriter::"):
            w = core(args[0])
            if not isinstance(w, WriterV):
                return None
            if last in CONSTRUCTED:
                child = Sink(len(self.ctx))
                cl = core(args[1])
                kind = {"Seq": "seq", "Set": "set", "SetOf": "setof"}[CONSTRUCTED[last]]
                rv = UNIT
                if isinstance(cl, ClosureV):
                    rv = self.call_closure(cl, [WriterV(kind, child)])
                else:
                    child.items.append({"t": "Opaque", "what": "closure value %s" % cl.r(), "sp": sp})
                self.emit(w.sink, {"t": CONSTRUCTED[last], "c": child.items, "sp": sp, "fn": self.cur_fn(), "nexts": child.nexts})
                return rv
            if last in ("write_tagged", "write_tagged_implicit"):
                child = Sink(len(self.ctx))
                cl = core(args[2])
                rv = UNIT
                if isinstance(cl, ClosureV):
                    rv = self.call_closure(cl, [WriterV("w", child)])
                else:
                    child.items.append({"t": "Opaque", "what": "closure value %s" % cl.r(), "sp": sp})
                self.emit(w.sink, {"t": "Tagged", "mode": "explicit" if last == "write_tagged" else "implicit",
                                   "tag": args[1], "c": child.items, "sp": sp, "fn": self.cur_fn()})
                return rv
            if last == "write_der":
                self.emit(w.sink, {"t": "Raw", "v": args[1], "sp": sp, "fn": self.cur_fn()})
                return UNIT
            if last in PRIMS:
                pargs = list(args[1:])
                if last == "write_bool" and pargs and self.concrete(pargs[0]) is None:
                    # path-sensitive constant: `if flag { w.write_bool(flag) }` writes TRUE
                    f_ = self.to_formula(pargs[0])
                    pc_ = self.cur_cond()
                    if pc_ is not True and f_ is not True and f_ is not False:
                        try:
                            if not F.counterexamples(pc_, f_, "implies"):
                                pargs[0] = Const(True)
                            elif not F.counterexamples(pc_, Not(f_), "implies"):
                                pargs[0] = Const(False)
                        except ValueError:
                            pass
                self.emit(w.sink, {"t": "Prim", "kind": PRIMS[last], "m": last, "args": pargs, "sp": sp, "fn": self.cur_fn()})
                return UNIT
            self.emit(w.sink, {"t": "Opaque", "what": "unmodelled writer method %s" % last, "sp": sp})
            return UNIT
        return None


def _bindings(p, acc=None):
    if acc is None:
        acc = []
    if isinstance(p, dict):
        if p.get("k") == "Binding":
            acc.append(p)
        for k, v in p.items():
            if k in ("pat", "pats", "fields", "sub", "before", "after", "mid"):
                _bindings(v, acc)
    elif isinstance(p, list):
        for x in p:
            _bindings(x, acc)
    return acc


def _top_atoms(f):
    if f is True or f is False:
        return []
    if f[0] == "atom":
        return [(f[1], True)]
    if f[0] == "not" and f[1] is not True and f[1] is not False and f[1][0] == "atom":
        return [(f[1][1], False)]
    if f[0] == "and":
        out = []
        for g in f[1]:
            out.extend(_top_atoms(g))
        return out
    return []


def _disjoint(f, g):
    """Cheap syntactic disjointness of two arm conditions."""
    fa, ga = _top_atoms(f), _top_atoms(g)
    for a, pa in fa:
        for b, pb in ga:
            if a == b and pa != pb:
                return True
            if a[0] == "variant" and b[0] == "variant" and a[1] == b[1] and a[2] != b[2] and pa and pb:
                return True
    # or-patterns of variants on both sides
    def variants(h):
        if h is True or h is False:
            return None
        if h[0] == "atom" and h[1][0] == "variant":
            return (h[1][1], {h[1][2]})
        if h[0] == "or":
            place, vs = None, set()
            for x in h[1]:
                r = variants(x)
                if r is None or (place is not None and r[0] != place):
                    return None
                place = r[0]
                vs |= r[1]
            return (place, vs)
        if h[0] == "and":
            for x in h[1]:
                r = variants(x)
                if r is not None:
                    return r
        return None
    vf, vg = variants(f), variants(g)
    if vf and vg and vf[0] == vg[0] and not (vf[1] & vg[1]):
        return True
    return False
