"""C04 - everything emitted as DER is canonical DER (value-dependent canonicity at the call sites)."""
import formula as F
import schema as S
import refs as R
import common
from common import CERT_FN, CSR_FN, CRL_FN, SIGN_DER
from interp import core, places, calls_of, roots, Interp, DerV, Const, Def, StructV

PROP = "C04"
CONFIGS_QUICK = ["K1", "K2", "K3"]
CONFIGS_THOROUGH = ["K1", "K2", "K3", "K0"]
EXPLANATION = (
    "Static: yasna guarantees definite minimal lengths, minimal INTEGER/OID encodings, TRUE = 0xFF and SET OF sorting inside its own "
    "functions; canonicity that depends on the *values rcgen passes* is decided at the call sites, over the abstract TLV trees of all "
    "three artefact writers and the SPKI writer: every BOOLEAN ever written is the constant TRUE (all BOOLEANs in the profile are "
    "DEFAULT FALSE, so FALSE must be expressed by absence); the KeyUsage named-bit string's length is data-dependent (not a constant, "
    "which would leave trailing zero bits) while all other BIT STRINGs carry len*8 bits of the same bytes; CSR attributes go through "
    "write_set_of (sorted) and every SET has exactly one element; serial/CRL numbers go through write_bigint_bytes(_, positive = true); "
    "raw pass-through (write_der) happens at exactly the enumerated sites: the TBS built in sign_der and the three caller-supplied "
    "blobs, whose argument is the caller's field unmodified. Time forms are decided by C09, string alphabets by C13/C10.")
ASSUMPTIONS = ["yasna 0.5.2 encoders are canonical for the arguments they accept", "caller-supplied pre-encoded DER is the caller's responsibility (embedded byte-for-byte)"]


def where(art, path):
    """Stable, line-free descriptor of a node's position: labels of its ancestors (extension OIDs where available)."""
    out = []
    for lab, n in path:
        if lab == "Seq":
            k = S.oid_key(art.I, n)
            out.append(k if k.startswith("oid:") else ("ext(dynamic)" if k == "dynamic" else "Seq"))
        elif lab == "Tagged":
            out.append(S.tag_str(art.I, n["tag"]))
        elif lab == "inner":
            out.append("der")
        else:
            out.append(lab)
    return "/".join(out)


def prims(art):
    return [(n, c, r, where(art, p)) for n, p, c, r in S.walk(art.outer) if n["t"] == "Prim"]


def offered_params(cfg, crate, rep):
    """DEFAULT values must be omitted: the only parameterised AlgorithmIdentifier rcgen can write is RSASSA-PSS, whose
    writer spells out saltLength.  An algorithm whose saltLength is the DEFAULT (20) must therefore not be obtainable
    (SignatureAlgorithm::iter / from_oid), or its identifier would carry an encoded DEFAULT."""
    from interp import Interp as _I, ArrayV, Def as _Def
    I = _I(crate)
    # the table behind SignatureAlgorithm::iter(): whichever constant array of algorithm statics its result ranges over
    t0 = None
    outv = I.run_fn("sign_algo::SignatureAlgorithm::iter")["value"]
    for r_ in sorted(roots(outv)):
        if r_.startswith("def:"):
            cv = I.const_value(r_[4:])
            if cv is not None and isinstance(core(cv), ArrayV):
                t0 = core(cv)
    if not isinstance(t0, ArrayV):
        rep.fail("C04.params", "%s|offered-table" % cfg, "the table of offered algorithms (SignatureAlgorithm::iter::ALGORITHMS) is not a literal array", found=t0.r()[:80] if t0 is not None else None)
        return
    bad = []
    n = 0
    for it in t0.items:
        d = core(it)
        if not isinstance(d, _Def):
            bad.append(d.r()[:60])
            continue
        n += 1
        sv = core(I.const_value(d.path))
        pv = core(sv.fields.get("params")) if isinstance(sv, StructV) else None
        var = (pv.variant or "").split("::")[-1] if isinstance(pv, StructV) else None
        if var in ("None", "Null"):
            continue
        if var == "RsaPss":
            salt = I.concrete(pv.fields.get("salt_length"))
            if isinstance(salt, int) and salt != 20:
                continue
            bad.append("%s: RSASSA-PSS with saltLength %s (the DEFAULT) would be written explicitly" % (d.path.split("::")[-1], salt))
        else:
            bad.append("%s: parameters %s" % (d.path.split("::")[-1], var))
    rep.ob("C04.params", "%s|offered-algorithms-encode-canonically" % cfg, not bad and n >= 6, "every obtainable signature algorithm has absent or NULL parameters (or non-default PSS parameters): no AlgorithmIdentifier spells out a DEFAULT", found=bad or "%d algorithms" % n)


def run(ctx):
    rep = ctx.rep
    for cfg in (CONFIGS_QUICK if ctx.tier == "quick" else CONFIGS_THOROUGH):
        crate = ctx.crate(cfg)
        if cfg in ("K1", "K3"):
            # DER times carry no fractional seconds and use the prescribed form: the shared time helpers' rules
            import c09
            common.borrow_rules(rep, lambda: (c09.single(cfg, crate, rep), c09.helper(cfg, crate, rep)), "C09.", "C04.time")
        if cfg == "K1":
            # "restricted strings within their alphabets": the admission predicates of the string wrappers and the
            # wrapper -> writer pairing
            import c13
            common.borrow_rules(rep, lambda: (c13.alpha(cfg, crate, rep), c13.sink(cfg, crate, rep)), "C13.", "C04.strings")
        offered_params(cfg, crate, rep)
        # "DEFAULT values omitted": the only DEFAULT-valued field rcgen could ever encode is the certificate version (v1);
        # it is written as the constant v3 on every path (a v1 certificate would have to omit the field altogether)
        import c05
        arts5 = [common.artefact(crate, f) for f in (CERT_FN, CSR_FN, CRL_FN)]
        if all(a.tbs is not None for a in arts5):
            common.borrow_rules(rep, lambda: c05.check_versions(cfg, arts5, rep), "C05.", "C04.default")
        arts = [common.artefact(crate, f) for f in (CERT_FN, CSR_FN, CRL_FN)]
        rep.fn(CERT_FN, CSR_FN, CRL_FN, SIGN_DER, "key_pair::serialize_public_key_der")
        nb = nbits = nset = nint = nraw = 0
        for art in arts:
            key = "%s|%s" % (cfg, art.fn)
            for n, c, r, w in prims(art):
                if n["kind"] == "BOOLEAN":
                    nb += 1
                    v = art.I.concrete(n["args"][0])
                    rep.ob("C04.bool", key + "|" + w + "|" + (core(n["args"][0]).r() if v is None else str(v)), v is True,
                           "a BOOLEAN with DEFAULT FALSE must be omitted, never written as FALSE (found in %s)" % n["fn"], expected=True, found=v if v is not None else core(n["args"][0]).r(), sp=n.get("sp"))
                if n["kind"] == "BIT STRING":
                    nbits += 1
                    ln = n["args"][1] if len(n["args"]) > 1 else None
                    is_ku = any(k.endswith("KeyUsagePurpose::to_u16") for k in calls_of(n["args"][0]))
                    if is_ku:
                        const = art.I.concrete(ln) if ln is not None else None
                        dep = places(ln) if ln is not None else set()
                        idiom = any(k.endswith(("trailing_zeros", "leading_zeros")) for k in calls_of(ln)) if ln is not None else False
                        ok = const is None and any(p.startswith("self.key_usages") for p in dep) and idiom
                        rep.ob("C04.namedbits", key + "|keyUsage", ok,
                               "KeyUsage is a named-bit list: DER requires trailing zero bits to be removed, so the bit length must depend on the value; a constant length leaves trailing zero bits (e.g. 03 03 07 80 00 for digitalSignature)",
                               expected="length derived from the bit string (e.g. 16 - trailing_zeros)", found=("constant %s" % const) if const is not None else core(ln).r(), sp=n.get("sp"))
                    else:
                        e = R._whole_bits(ln, art.I) if ln is not None else "no length argument"
                        same = False
                        if e is None:
                            from interp import OpV, CallV
                            l0 = core(ln)
                            inner = [a for a in l0.args if isinstance(core(a), CallV)]
                            same = bool(inner) and places(core(inner[0])) == places(n["args"][0]) and (roots(core(inner[0]).args[0]) - {x for x in roots(core(inner[0]).args[0]) if x.startswith("via:")}) <= roots(n["args"][0]) | {"via:x"}
                        rep.ob("C04.bits", key + "|" + w + "|" + "+".join(sorted(places(n["args"][0]))), e is None and same, "BIT STRING carries exactly len*8 bits of the bytes written (padding bits zero)", found=core(ln).r()[:160] if ln is not None else None, sp=n.get("sp"))
                if n["kind"] == "INTEGER" and n["m"] == "write_bigint_bytes":
                    nint += 1
                    rep.ob("C04.int", key + "|" + w + "|" + "+".join(sorted(places(n["args"][0]))), art.I.concrete(n["args"][1]) is True, "byte-string integers are written as positive minimal INTEGERs (write_bigint_bytes(_, true))", sp=n.get("sp"))
            for n, p, c, r in S.walk(art.outer):
                if n["t"] == "Set":
                    nset += 1
                    kids = S.flatten(n["c"])
                    rep.ob("C04.setof", key + "|set|" + n["fn"], len(kids) == 1 and kids[0][0] is True and not kids[0][1], "a plain SET written by rcgen has exactly one element (no ordering obligation)", found=len(kids), sp=n.get("sp"))
                if n["t"] == "Raw":
                    nraw += 1
                    v = core(n["v"])
                    if isinstance(v, DerV):
                        rep.ob("C04.writer", key + "|raw|tbs", n["fn"] == SIGN_DER or common.known_owners(crate, n["fn"]) == {SIGN_DER}, "the TBS is embedded raw only by sign_der", found=n["fn"], sp=n.get("sp"))
                    else:
                        pl = places(n["v"])
                        allowed = [{"self.custom_extensions[]"}, {"self.custom_extensions[].content"}, {"attrs[].values"}]
                        ok = pl in allowed and not _edited(n["v"])
                        rep.ob("C04.writer", key + "|raw|" + "+".join(sorted(x.replace("[].content", "[]") for x in pl)), ok, "caller-supplied DER is embedded byte-for-byte (argument is the caller's field, unmodified)", expected=[sorted(a) for a in allowed], found=core(n["v"]).r(), sp=n.get("sp"))
            if art.fn == CSR_FN:
                kids = S.flatten(art.tbs[0]["c"])
                attrs = [k for k in kids if k[2]["t"] == "Tagged"]
                ok = len(attrs) == 1 and attrs[0][2].get("was_implicit_over") == "SetOf"
                rep.ob("C04.setof", key + "|attributes", ok, "CSR attributes are written with write_set_of (yasna sorts the elements)", found=[a[2].get("was_implicit_over") for a in attrs])
            # no opaque emission anywhere
            op = [n for n, p, c, r in S.walk(art.outer) if n["t"] == "Opaque"]
            rep.ob("C04.writer", key + "|no-opaque", not op, "every byte is written through a modelled yasna call", found=[o.get("what") for o in op])
        rep.floor("C04.bool", "BOOLEAN sites (%s)" % cfg, nb, 8)
        rep.floor("C04.bits", "BIT STRING sites (%s)" % cfg, nbits, 6 if cfg == "K3" else 15)
        rep.floor("C04.int", "big INTEGER sites (%s)" % cfg, nint, 3)
        rep.floor("C04.writer", "raw pass-through sites (%s)" % cfg, nraw, 6)
        # who calls write_der at all
        sites = []
        for name, b in common.all_bodies(crate):
            if common.is_test_fn(name):
                continue
            for callee, n, ps in common.calls_in(b):
                if callee.endswith("DERWriter::write_der"):
                    sites.append(name)
        want = sorted([SIGN_DER, CSR_FN, "certificate::CertificateParams::write_extension_request_attribute", CERT_FN])
        # a helper introduced by a later change belongs to the audited function(s) it is reached from
        import c10
        from interp import known_fns
        G, _ = c10.call_graph(crate)
        owners = set()
        for s_ in sites:
            todo, seen_ = [s_.split("::{closure")[0]], set()
            while todo:
                f_ = todo.pop()
                if f_ in seen_:
                    continue
                seen_.add(f_)
                if f_ in known_fns(crate.name):
                    owners.add(f_)
                    continue
                callers = {c.split("::{closure")[0] for c, es in G.items() if f_ in es and c.split("::{closure")[0] != f_}
                if not callers:
                    owners.add(f_)
                todo.extend(callers)
        rep.ob("C04.writer", "%s|write_der-callers" % cfg, owners <= set(want) and SIGN_DER in owners and len(sites) >= 3, "write_der (raw pass-through) is used only by the four audited writers (directly or through helpers introduced for them)", expected=want, found=sorted(owners))


def _edited(v):
    from interp import MutV, OpV, IndexV, Via
    while v is not None:
        if isinstance(v, MutV) and v.ops:
            return True
        if isinstance(v, (OpV, IndexV)):
            return True
        if isinstance(v, Via):
            v = v.inner
        elif isinstance(v, MutV):
            v = v.base
        else:
            return False
    return False
