"""C06 - CSR acceptance is sound and issuance binds the requester's key."""
import formula as F
import schema as S
import common
from common import CERT_FN
from interp import core, places, calls_of, roots, Interp, CallV, PhiV, StructV, Via, MutV
import c01

PROP = "C06"
CONFIGS_QUICK = ["K1", "K2"]
CONFIGS_THOROUGH = ["K1", "K2"]
EXPLANATION = (
    "Static, on the request parser (present only with x509-parser; analysed under ring and aws-lc-rs): (verify) the call of x509-parser's "
    "verify_signature dominates (MIR dominator tree, unwind edges removed) the construction of the accepted result, its Result is "
    "propagated with `?`, and it is the first use of the parsed request; (bind) the algorithm stored with the extracted public key must "
    "depend on the SubjectPublicKeyInfo's own AlgorithmIdentifier - a read of subject_pki.algorithm must flow into the chosen algorithm or "
    "into a branch that returns Err (non-interference: if that field is never read, some accepted request is mislabelled, e.g. a P-384 "
    "key signing with ecdsa-with-SHA256); (key) PublicKey.raw is the request's subjectPublicKey bits and issuance hands the same "
    "PublicKey both to the TBS writer and to the reported SPKI; (whitelist) the match over requested extensions has an erroring default "
    "arm, each accepted arm stores into the like-named parameter, and unknown extended key usages are refused. "
    "Not decided: soundness of x509-parser's verify_signature (cryptography), i.e. the 'every mutation is rejected' clause.")
ASSUMPTIONS = ["x509-parser::verify_signature verifies the signature over certificationRequestInfo under the embedded key", "x509-parser's DER decoding"]

FN = "csr::CertificateSigningRequestParams::from_der"


def run(ctx):
    rep = ctx.rep
    for cfg in CONFIGS_QUICK:
        crate = ctx.crate(cfg)
        if FN not in crate.bodies:
            rep.fail("C06.verify", "%s|%s" % (cfg, FN), "request parser not found")
            continue
        rep.fn(FN, "csr::CertificateSigningRequestParams::from_pem", "csr::CertificateSigningRequestParams::signed_by")
        body = crate.body(FN)
        key = "%s|%s" % (cfg, FN)
        I = Interp(crate)
        out = I.run_fn(FN)
        verify(cfg, crate, body, I, rep, key)
        bind(cfg, crate, I, rep, key)
        whitelist(cfg, crate, body, I, rep, key)
        constructors(cfg, crate, rep)
        # "carries the requested subject name ... rejected rather than partially honoured": the request's Name goes
        # through the shared Name importer, which must refuse what a DistinguishedName cannot represent (multi-valued
        # RDNs, repeated attribute types, unknown string kinds)
        import c03
        common.borrow_rules(rep, lambda: c03.check_import(cfg, crate, rep), "C03.", "C06.name")
        # "carries the requested subject alternative names, key usages and extended key usages": issuance goes through the
        # shared certificate writer; its extension block must be written exactly when something was requested and the
        # three extensions must be written from the subject's own parameters
        import c02

        class _Ctx:
            pass
        n0, f0 = len(rep.obligations), len(rep.floors)
        art = c02.check_schema(None, cfg, crate, rep)
        if art.tbs is not None:
            c02.check_guard(cfg, art, rep)
        keep = [o for o in rep.obligations[n0:] if o["rule"] == "C02.guard" or any(k in o["key"] for k in ("oid:2.5.29.17", "oid:2.5.29.15", "oid:2.5.29.37", "/[3]/when")) or (not o["ok"] and "|tbs" in o["key"])]
        del rep.obligations[n0:]
        del rep.floors[f0:]
        for o in keep:
            o["key"] = o["key"].replace(o["rule"], "C06.cert", 1)
            o["rule"] = "C06.cert"
        rep.obligations.extend(keep)
        rep.floor("C06.cert", "certificate writer nodes (%s)" % cfg, len(keep), 30)


def verify(cfg, crate, body, I, rep, key):
    isv = lambda c: c.endswith("X509CertificationRequest::verify_signature")
    # the parser may hand the whole job to a helper introduced later (`import::parse(..)`): the dominance argument is then
    # made in the function that actually verifies and constructs
    from interp import known_fns
    for _ in range(3):
        if common.mir_calls(body, isv):
            break
        nxt = None
        for i_, b_ in common.mir_blocks(body).items():
            t_ = b_["term"]
            if t_["k"] == "Call":
                c_ = common.facts_norm(t_.get("inst") or t_.get("callee") or "")
                if c_ in crate.bodies and c_ not in known_fns(crate.name) and "mir" in crate.bodies[c_] and common.mir_calls_deep(crate, crate.bodies[c_], isv):
                    nxt = crate.bodies[c_]
        if nxt is None:
            break
        body = nxt
    vs = common.mir_calls(body, isv)
    rep.ob("C06.verify", key + "|call", len(vs) == 1, "verify_signature is called exactly once", found=len(vs))
    if len(vs) != 1:
        return
    vb = vs[0][0]
    dom = common.mir_dominators(body)
    blocks = common.mir_blocks(body)
    # success construction: the aggregate of the accepted result
    succ = [i for i, b in blocks.items() if any("CertificateSigningRequestParams {" in s["s"] or "csr::CertificateSigningRequestParams {" in s["s"] for s in b["stmts"])]
    def _builds(bd, depth=0):
        for i2, b2 in common.mir_blocks(bd).items():
            if any("CertificateSigningRequestParams {" in s2["s"] for s2 in b2["stmts"]):
                return True
            t2 = b2["term"]
            if t2["k"] == "Call" and depth < 2:
                c2 = common.facts_norm(t2.get("inst") or t2.get("callee") or "")
                if c2 in crate.bodies and c2 not in known_fns(crate.name) and "mir" in crate.bodies[c2] and _builds(crate.bodies[c2], depth + 1):
                    return True
        return False
    for i_, b_ in blocks.items():
        t_ = b_["term"]
        if t_["k"] == "Call" and i_ not in succ:
            c_ = common.facts_norm(t_.get("inst") or t_.get("callee") or "")
            if c_ in crate.bodies and c_ not in known_fns(crate.name) and "mir" in crate.bodies[c_] and _builds(crate.bodies[c_]):
                succ.append(i_)        # the accepted result is assembled by a helper called here
    rep.ob("C06.verify", key + "|success-site", len(succ) >= 1, "the accepted result is constructed in this function", found=len(succ))
    for sb in succ:
        rep.ob("C06.verify", key + "|dominates-success", vb in dom[sb], "signature verification dominates the construction of the accepted result (no path accepts without verifying)", found="bb%d !dom bb%d" % (vb, sb), sp=vs[0][1].get("sp"))
    # every use of the *parsed request* happens after verification.  The raw parse Result (before `?`), however it is
    # massaged by Result adaptors, is not the parsed request.
    order = [(c, a, n) for c, a, n, cond, f in I.calls if f == FN]
    idx_v = next((i for i, (c, a, n) in enumerate(order) if isv(c)), None)

    def raw_result(x):
        x0 = core(x)
        if isinstance(x0, CallV) and "X509CertificationRequest" in x0.callee and x0.callee.endswith("from_der"):
            return True
        return isinstance(x0, CallV) and x0.callee.startswith("std::result::Result::") and bool(x0.args) and raw_result(x0.args[0]) and isinstance(x, (CallV, Via)) and not _has_sel(x)

    def parsed(a):
        return any((not raw_result(x)) and any("X509CertificationRequest" in r and "from_der" in r for r in roots(x)) for x in a)
    early = [c for i, (c, a, n) in enumerate(order) if idx_v is not None and i < idx_v and parsed(a) and not isv(c)]
    rep.ob("C06.verify", key + "|first-use", idx_v is not None and not early, "nothing of the parsed request is used before its signature is verified", found=early)
    # a failed verification leaves the function with an error: on every path on which verify_signature(..) is Err the
    # function returns Err - whether that is written `?`, `map_err(..)?`, `if v.is_err() { return Err }` or a match
    vcalls = [(c, a, n, cond) for c, a, n, cond, f in I.calls if f == FN and isv(c)]
    ok_prop = False
    found = None
    if len(vcalls) == 1:
        c_, a_, n_, cond_v = vcalls[0]
        vp = CallV(c_, a_).r()
        err_case = ("atom", ("variant", vp, "Err"))
        exits = [cnd for cnd, v, nn, f in I.fails if f == FN]
        for tv, tn, tf, tc in I.tries:
            if tf == FN:
                exits.append(F.And(tc, F.Not(I._try_success(tv, tn))))
        goal = F.Or(*exits) if exits else False
        ces = F.counterexamples(F.And(cond_v, err_case), goal, "implies") if goal is not False else [{}]
        # the one-hot group makes `vp is Ok` false whenever `vp is Err` holds
        ok_prop = not ces
        found = "verify Err => exit" if ok_prop else "a path continues although verify_signature(..) is Err: %s" % (F.show_asg(ces[0])[:200] if ces and ces[0] else "no error exit at all")
    rep.ob("C06.verify", key + "|propagated", ok_prop, "a failed verification is propagated (the request is rejected): whenever verify_signature returns Err the function returns Err", found=found, sp=vcalls[0][2].get("sp") if vcalls else None)


def _has_sel(x):
    from interp import Sel
    while isinstance(x, Via):
        x = x.inner
    return isinstance(x, Sel)


def bind(cfg, crate, I, rep, key):
    lits = [(sv, node) for sv, node, f, c in I.structs if (sv.adt or "").endswith("csr::PublicKey") and f == FN]
    rep.ob("C06.key", key + "|literal", len(lits) == 1, "one PublicKey literal", found=len(lits))
    if not lits:
        return
    sv, node = lits[0]
    raw = sv.fields.get("raw")
    rts = roots(raw) if raw is not None else set()
    ok = {"sel:.subject_pki", "sel:.subject_public_key", "sel:.data"} <= rts and places(raw) == {"csr"}
    rep.ob("C06.key", key + "|raw", ok, "PublicKey.raw is the request's subjectPublicKey bit string", found=core(raw).r()[-160:] if raw is not None else None, sp=node.get("sp"))
    alg = sv.fields.get("alg")
    arts = roots(alg) if alg is not None else set()
    # does the SPKI algorithm identifier influence the stored algorithm, or a rejection?
    reads_spki_alg = lambda rs: "sel:.subject_pki" in rs and "sel:.algorithm" in rs
    in_alg = reads_spki_alg(arts)
    in_fail = False
    for c, v, n, f in I.fails:
        if f != FN:
            continue
        for a in F.atoms(c):
            vals = I.atom_vals.get(a, ())
            for x in vals:
                if reads_spki_alg(roots(x)):
                    in_fail = True
            if "subject_pki.algorithm" in F.show_atom(a):
                in_fail = True
    # the binding must be to the COMPLETE AlgorithmIdentifier of the key (OID *and* parameters: the named curve
    # lives in the parameters), compared against the identifier the chosen algorithm itself writes
    complete = False
    partial = []
    for c, v, n, f in I.fails:
        if f != FN:
            continue
        for a in F.atoms(c):
            for x in I.atom_vals.get(a, ()):
                pass
        for a in F.atoms(c):
            if a[0] == "eq":
                sides = [s for s in a[1:] if isinstance(s, str)]
                for s_ in sides:
                    if "subject_pki.algorithm" in s_:
                        if s_.endswith("subject_pki.algorithm"):
                            other = [o for o in sides if o is not s_]
                            if other and "write_oids_sign_alg" in _producers(I, a) :
                                complete = True
                        else:
                            partial.append(s_[-80:])
    rep.ob("C06.bind", key + "|complete-identifier", complete or in_alg,
           "the key's algorithm must be bound to the request's complete SubjectPublicKeyInfo AlgorithmIdentifier (OID and parameters - the named curve is a parameter) as written by the chosen algorithm; comparing only a part (e.g. the OID) accepts a P-384 key under a P-256 label",
           expected="info.subject_pki.algorithm == AlgorithmIdentifier written by alg.write_oids_sign_alg", found="partial comparison of %s" % partial if partial else "no comparison", sp=node.get("sp"))
    rep.ob("C06.bind", key + "|algorithm-bound-to-spki", in_alg or in_fail,
           "the algorithm recorded for the extracted key is taken from the *signature* algorithm OID and the SubjectPublicKeyInfo's own AlgorithmIdentifier is never read, so the key type is not bound to the key: a request with a P-384 key signed with ecdsa-with-SHA256 (as OpenSSL produces) verifies and is then labelled P-256, and the issued certificate's SPKI is not the request's",
           expected="subject_pki.algorithm flows into the chosen algorithm or into a rejection", found="alg = %s" % (core(alg).r()[-200:] if alg is not None else None), sp=node.get("sp"))
    # issuance uses the same PublicKey for the TBS and the reported SPKI (C02.report instance)
    fn = "csr::CertificateSigningRequestParams::signed_by"
    I2 = Interp(crate, no_inline={CERT_FN})
    I2.run_fn(fn)
    sers = [(c, a) for c, a, nn, cc, f in I2.calls if c == CERT_FN and f == fn]
    ok = len(sers) == 1 and core(sers[0][1][1]).r() == "self.public_key" and core(sers[0][1][0]).r() == "self.params"
    rep.ob("C06.key", "%s|%s|serializer-args" % (cfg, fn), ok, "the certificate is serialised from the request's params and the request's public key", found=[core(x).r() for x in sers[0][1][:2]] if sers else None)
    # SPKI writer emits alg.write_oids_sign_alg + raw bits: covered by the reference spki(pub_key) in C02.schema
    rep.sample({"rule": "C06.bind", "cfg": cfg, "alg": core(alg).r()[-240:] if alg is not None else None})


def _producers(I, atom_key):
    """Callees through which the operands of an eq atom were produced (operands are recorded for == / != on non-constants)."""
    out = set()
    for c, a, n, cnd, f in I.calls:
        if f == FN and c.endswith(("write_oids_sign_alg", "AlgorithmIdentifier as x509_parser::prelude::FromDer<'a, x509_parser::error::X509Error>>::from_der", "FromDer::from_der")):
            out.add(c.split("::")[-1])
    return out


def whitelist(cfg, crate, body, I, rep, key):
    """Semantic form (from the interpreter's logs): which requested-extension variants lead to which parameter updates,
    and which lead to a refusal."""
    def ext_variants(cond, positive=True):
        out = set()
        for a in F.atoms(cond):
            if a[0] == "variant" and "requested_extensions" in a[1]:
                asg = {b: (b == a) for b in F.atoms(cond)}
                if F.evalf(cond, asg) or True:
                    out.add(a[2])
        return out

    def pos_variant(cond):
        """the ParsedExtension variant(s) this path is specific to: atoms implied by the path condition"""
        vs = []
        for a in F.atoms(cond):
            if a[0] == "variant" and "requested_extensions" in a[1] and not F.counterexamples(cond, ("atom", a), "implies"):
                vs.append(a[2])
        return vs
    stores = {}
    for tgt, kind, payload, n, f, cond in I.muts:
        vs = pos_variant(cond)
        if len(vs) != 1:
            continue
        fld = None
        if kind == "assign" and payload and isinstance(payload[0], str) and payload[0].startswith("."):
            fld = payload[0][1:]
        elif kind.endswith("insert_extended_key_usage"):
            fld = "extended_key_usages"
        elif kind.endswith("Vec::push"):
            fld = core(tgt).r().rsplit(".", 1)[-1]
        if fld:
            stores.setdefault(vs[0], set()).add(fld)
    want = {"KeyUsage": {"key_usages"}, "SubjectAlternativeName": {"subject_alt_names"}, "ExtendedKeyUsage": {"extended_key_usages"}}
    rep.ob("C06.whitelist", key + "|accepted-set", set(stores) == set(want), "exactly key usage, subject alternative name and extended key usage are accepted", expected=sorted(want), found=sorted(stores))
    for k, w in want.items():
        rep.ob("C06.whitelist", key + "|arm|" + k, stores.get(k) == w, "a requested %s is stored into the like-named parameter and nothing else" % k, expected=sorted(w), found=sorted(stores.get(k, [])))
    # refusals: any other variant, and unknown extended key usages
    unsupported = [(c, v) for c, v, n, f in I.fails if (f == FN or f in I.inlined) and "UnsupportedExtension" in core(v).r()]
    default = [c for c, v in unsupported if not pos_variant(c)]
    ok_default = False
    for c in default:
        neg = {a[2] for a in F.atoms(c) if a[0] == "variant" and "requested_extensions" in a[1]}
        if neg >= set(want):
            ok_default = True
    rep.ob("C06.whitelist", key + "|default-errors", ok_default, "any other requested extension is refused with Err(UnsupportedExtension)", found=[F.show(c)[-160:] for c in default])
    other = [c for c, v in unsupported if pos_variant(c) == ["ExtendedKeyUsage"] and any(a[0] == "empty" and a[1].endswith(".other") for a in F.atoms(c))]
    rep.ob("C06.whitelist", key + "|eku-other-refused", len(other) == 1, "extended key usages rcgen cannot carry over (eku.other) are refused", found=[F.show(c)[-120:] + " || pv=%s f=%s" % (pos_variant(c), ff) for c, v, ff in [(c, v, f) for c, v, n, f in I.fails if "UnsupportedExtension" in core(v).r()]])
    pairs = common.eku_pairs_interp(I)
    rep.ob("C06.whitelist", key + "|eku-flags", pairs == common.EKU_FLAGS, "all seven standard purposes are carried over to the like-named variant", expected=common.EKU_FLAGS, found=pairs)
    kus = [p for t_, k_, p, n, f, c in I.muts if k_ == "assign" and p and p[0] == ".key_usages"]
    rev = len(kus) == 1 and any(x.endswith("::reverse_bits") for x in calls_of(kus[0][1])) and any(x.endswith("KeyUsagePurpose::from_u16") for x in calls_of(kus[0][1]))
    rep.ob("C06.whitelist", key + "|ku-bit-order", rev, "key usage flags are bit-reversed and decoded by from_u16", found=[core(p[1]).r()[:120] for p in kus])


def constructors(cfg, crate, rep):
    """Only the verifying parser constructs CertificateSigningRequestParams / PublicKey inside the crate."""
    for adt, allowed in (("csr::CertificateSigningRequestParams", {FN}), ("csr::PublicKey", {FN})):
        sites = set()
        for name, b in common.all_bodies(crate):
            if common.is_test_fn(name) or name in crate.derived_fns:
                continue
            for n in common.hir_walk(b["hir"]):
                if n["k"] == "Struct" and (n.get("adt") or "") == adt:
                    sites.update(common.known_owners(crate, name.split("::{closure")[0]))     # a helper of the parser acts on its behalf
        rep.ob("C06.verify", "%s|constructors|%s" % (cfg, adt), sites == allowed, "the type is constructed only by the verifying parser", expected=sorted(allowed), found=sorted(sites))
    a = crate.adts.get("csr::PublicKey")
    if a:
        vis = {f["name"]: f["vis"] for f in a["variants"][0]["fields"]}
        rep.ob("C06.verify", "%s|PublicKey-fields-private" % cfg, all(v != "pub" for v in vis.values()), "PublicKey's fields are private (cannot be forged by a caller)", found=vis)
