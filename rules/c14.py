"""C14 - PEM output is a faithful RFC 7468 envelope of the DER."""
import formula as F
import common
from interp import core, places, calls_of, roots, Interp, CallV, PhiV, StructV, Via, MutV, Const, Def

PROP = "C14"
CONFIGS_QUICK = ["K1", "K2"]
CONFIGS_THOROUGH = ["K1", "K2", "K3", "K0"]
EXPLANATION = (
    "Static: (label) the five Pem::new(label, contents) sites pair the RFC 7468 label with the matching DER accessor of the same "
    "object; (config) PEM text is produced only by pem::encode_config(_, ENCODE_CONFIG) - never pem::encode / encode_many, whose "
    "default line ending is CRLF - and the ENCODE_CONFIG initialiser selects LF in the non-windows arm and never changes the line "
    "wrap (pem's default 64); who-may-call rules have a positive control (the five sites must match); (load) every pem::parse site "
    "hands the parsed *contents* to the corresponding DER entry point. The pem crate version is pinned through Cargo.lock and a change "
    "fails closed. Not decided: base64 alphabet, padding and wrapping inside the pem crate.")
ASSUMPTIONS = ["pem 3.0.x: EncodeConfig::new() wraps at 64 columns, encode_config emits BEGIN/END lines for the given tag and canonical base64", "target family of the analysed build is unix (cfg!(target_family = \"windows\") evaluates to false)"]

SITES = {
    "certificate::Certificate::pem": ("CERTIFICATE", "self", ["certificate::Certificate::der"]),
    "csr::CertificateSigningRequest::pem": ("CERTIFICATE REQUEST", "self.der", []),
    "crl::CertificateRevocationList::pem": ("X509 CRL", "self.der", []),
    "key_pair::KeyPair::serialize_pem": ("PRIVATE KEY", "self", ["key_pair::KeyPair::serialize_der"]),
    "key_pair::KeyPair::public_key_pem": ("PUBLIC KEY", "self", ["key_pair::KeyPair::public_key_der"]),
}
LOADS = {
    "certificate::CertificateParams::from_ca_cert_pem": "certificate::CertificateParams::from_ca_cert_der",
    "csr::CertificateSigningRequestParams::from_pem": "csr::CertificateSigningRequestParams::from_der",
    "key_pair::KeyPair::from_pem": "try_from",
    "key_pair::KeyPair::from_pkcs8_pem_and_sign_algo": "key_pair::KeyPair::from_pkcs8_der_and_sign_algo",
    "key_pair::KeyPair::from_pem_and_sign_algo": "key_pair::KeyPair::from_der_and_sign_algo",
    "key_pair::SubjectPublicKeyInfo::from_pem": "key_pair::SubjectPublicKeyInfo::from_der",
}


def find_call(v, suffix):
    """First CallV (depth first, through selections / adaptors / case splits) whose callee ends with suffix."""
    import c11
    for cv in c11.callvs(v):
        if cv.callee.endswith(suffix):
            return cv
    return None


def loaders(cfg, crate, rep):
    # loaders
    nl = 0
    for fn, target in LOADS.items():
        if fn not in crate.bodies:
            if fn in ("certificate::CertificateParams::from_ca_cert_pem", "csr::CertificateSigningRequestParams::from_pem", "key_pair::SubjectPublicKeyInfo::from_pem") and cfg in ("K0",):
                continue
            if cfg == "K3" and fn.startswith("key_pair::KeyPair"):
                continue
            rep.fail("C14.load", "%s|%s" % (cfg, fn), "PEM loader missing")
            continue
        rep.fn(fn)
        I = Interp(crate)
        v = I.run_fn(fn)["value"]
        cs = calls_of(v)
        tgt = find_call(v, target) if target != "try_from" else find_call(v, "::try_from")
        ok_t = (tgt is not None) or (target == "try_from" and ".try_from" in v.r())
        parse = find_call(v, "pem::parse")
        ok_p = parse is not None and places(parse) == {"pem_str"}
        # contents (not the tag, not the whole text) flow into the DER entry point
        cont = any(c.endswith(("Pem::contents", "Pem::into_contents")) for c in cs)
        nl += 1
        # the loader must not dispatch on the label: rcgen writes every private key under "PRIVATE KEY" whatever encoding
        # the stored document has (aws-lc-rs keeps SEC1 / PKCS#1 input as is), so only sniffing the DER round-trips
        tagged = sorted({c for c, a_, n_, cd_, f_ in I.calls if c.endswith(("Pem::tag", "Pem::headers"))})
        rep.ob("C14.load", "%s|%s|label-independent" % (cfg, fn), not tagged, "the loader does not let the PEM label decide how the contents are parsed", found=tagged)
        # the loader itself never judges the decoded bytes: whether they are acceptable is the DER entry point's decision
        # alone (a second, hand-written opinion on lengths / framing can only reject what rcgen itself wrote)
        own = []
        for c_, v_, n_, f_ in I.fails:
            if f_ != fn:
                continue
            own += [F.show_atom(a)[:160] for a in F.atoms(c_) if any(t_ in F.show_atom(a) for t_ in ("contents", "Pem::tag", "Pem::headers"))]
        rep.ob("C14.load", "%s|%s|no-own-judgement" % (cfg, fn), not own, "no rejection in the PEM loader depends on the decoded contents (only pem::parse and the DER entry point reject)", found=sorted(set(own))[:3])
        rep.ob("C14.load", "%s|%s" % (cfg, fn), ok_t and ok_p and cont, "the loader parses the envelope and hands its *contents* to the DER entry point", expected="pem::parse(pem_str) -> contents -> %s" % target, found=core(v).r()[:200])
    rep.floor("C14.load", "PEM loaders (%s)" % cfg, nl, 6 if cfg in ("K1", "K2") else 0)


def run(ctx):
    rep = ctx.rep
    for cfg in (CONFIGS_QUICK if ctx.tier == "quick" else CONFIGS_THOROUGH):
        crate = ctx.crate(cfg)
        if cfg in ("K1", "K2", "K0"):
            # the PRIVATE KEY label promises PKCS#8: the document stored for a generated key must be PKCS#8 by type
            import c11
            common.borrow_rules(rep, lambda: c11.check_generate(cfg, crate, rep), "C11.", "C14.doc")
            # "rcgen's own PEM loaders accept that text": the loaders behind the PEM entry points try / accept every key type
            # of the back end (explicit tables and the auto-detecting cascade)
            if cfg in ("K1", "K2"):
                common.borrow_rules(rep, lambda: c11.check_pairs(cfg, crate, rep, {}), "C11.", "C14.keys")
                # .. and the public-key loader recovers "the same bytes" (re-serialised from the algorithm it recognised)
                # only if it recognises the complete AlgorithmIdentifier, curve included
                if "key_pair::SubjectPublicKeyInfo::from_der" in crate.bodies:
                    common.borrow_rules(rep, lambda: c11.check_spki(cfg, crate, rep), "C11.", "C14.spki")
        n = 0
        for fn, (label, src, via) in SITES.items():
            if fn not in crate.bodies:
                rep.fail("C14.label", "%s|%s" % (cfg, fn), "PEM accessor missing")
                continue
            rep.fn(fn)
            I = Interp(crate)
            v = I.run_fn(fn)["value"]
            enc = find_call(v, "pem::encode_config")
            key = "%s|%s" % (cfg, fn)
            if enc is None:
                rep.fail("C14.config", key + "|encoder", "PEM text is not produced by pem::encode_config", found=core(v).r()[:160])
                continue
            n += 1
            cfgarg = core(enc.args[1])
            rep.ob("C14.config", key + "|config", isinstance(cfgarg, Def) and cfgarg.path == "ENCODE_CONFIG", "encoded with the crate's ENCODE_CONFIG (platform line ending)", found=cfgarg.r())
            pem = find_call(enc.args[0], "Pem::new")
            if pem is None:
                rep.fail("C14.label", key + "|pem-new", "no Pem::new(label, contents)")
                continue
            lab = I.concrete(pem.args[0])
            rep.ob("C14.label", key + "|label", lab == label, "RFC 7468 label of this artefact kind", expected=label, found=lab)
            cont = pem.args[1]
            pl = places(cont)
            cs = calls_of(cont)
            # the DER accessor of the same object, called or (for a plain field accessor) read directly
            src_ok = pl == {src} or (src == "self" and via == ["certificate::Certificate::der"] and pl == {"self.der"})
            via_ok = all(any(c == w for c in cs) for w in via) or (pl == {"self.der"} and via == ["certificate::Certificate::der"])
            ok = src_ok and via_ok and not [r for r in roots(cont) if r.startswith("op:")]
            rep.ob("C14.label", key + "|contents", ok, "the envelope contains exactly the bytes of the corresponding DER accessor of the same object", expected="%s via %s" % (src, via), found="%s via %s" % (sorted(pl), sorted(cs)))
            rep.sample({"rule": "C14.label", "cfg": cfg, "fn": fn, "label": lab, "contents": core(cont).r()[:120]})
        rep.floor("C14.label", "PEM producing sites (%s)" % cfg, n, 5)
        acc = core(Interp(crate).run_fn("certificate::Certificate::der")["value"])
        rep.ob("C14.label", "%s|certificate::Certificate::der" % cfg, acc.r() == "self.der", "Certificate::der returns the stored DER", found=acc.r())
        # who may encode PEM
        enc_sites = {}
        for name, b in common.all_bodies(crate):
            if common.is_test_fn(name):
                continue
            for callee, node, ps in common.calls_in(b):
                if callee.startswith("pem::") and ("encode" in callee.split("::")[-1]):
                    enc_sites.setdefault(callee, set()).update(common.known_owners(crate, name))
        rep.ob("C14.config", "%s|only-encode_config" % cfg, set(enc_sites) == {"pem::encode_config"}, "only pem::encode_config is used to produce PEM (pem::encode defaults to CRLF)", found=sorted(enc_sites))
        rep.ob("C14.config", "%s|encode_config-callers" % cfg, enc_sites.get("pem::encode_config", set()) == set(SITES), "PEM is produced by exactly the five audited accessors (positive control)", expected=sorted(SITES), found=sorted(enc_sites.get("pem::encode_config", [])))
        # ENCODE_CONFIG initialiser
        I = Interp(crate)
        v = core(I.const_value("ENCODE_CONFIG"))
        rep.fn("ENCODE_CONFIG")
        ok = isinstance(v, CallV) and v.callee == "pem::EncodeConfig::set_line_ending" and isinstance(core(v.args[0]), CallV) and core(v.args[0]).callee == "pem::EncodeConfig::new"
        le = core(v.args[1]) if ok else None
        le_name = (le.variant or le.r()) if isinstance(le, StructV) else (le.r() if le is not None else None)
        rep.ob("C14.config", "%s|ENCODE_CONFIG" % cfg, ok and le_name == "pem::LineEnding::LF", "ENCODE_CONFIG = EncodeConfig::new().set_line_ending(LF) outside Windows; line wrap left at pem's default (64)", found=v.r()[:200])
        b = crate.body("ENCODE_CONFIG")
        calls = [c for c, n_, ps in common.calls_in(b)]
        rep.ob("C14.config", "%s|ENCODE_CONFIG|no-line-wrap-change" % cfg, not any("line_wrap" in c for c in calls), "the 64-column wrap is not altered", found=calls)
        # the arms: true => CRLF, false => LF
        arms = {}
        for node in common.hir_walk(b["hir"]):
            if node["k"] == "Match":
                for a in node["arms"]:
                    p = a["pat"]
                    if p["k"] == "Expr" and p["e"]["k"] == "Lit":
                        arms[p["e"]["v"]] = (a["body"].get("def") or a["body"].get("ctor_of") or "").split("::")[-1]
        rep.ob("C14.config", "%s|ENCODE_CONFIG|arms" % cfg, arms == {True: "CRLF", False: "LF"}, "windows -> CRLF, otherwise -> LF", found=arms)
        loaders(cfg, crate, rep)
    import os, facts
    lock = open(os.path.join(facts.REPO, "Cargo.lock")).read()
    i = lock.find('name = "pem"')
    ver = lock[i:i + 60].split('version = "')[1].split('"')[0] if i >= 0 else None
    rep.ob("C14.config", "pem-version", ver is not None and ver.startswith("3.0."), "the pem crate is the reviewed 3.0.x line (Cargo.lock)", expected="3.0.x", found=ver)
