"""C20 - a distinguished name is an insertion-ordered map under any edit history."""
import formula as F
from formula import Not, atom
import common
from interp import core, places, calls_of, roots, Interp, CallV, PhiV, StructV, Via, MutV, Const, ClosureV, Param, BoolV

PROP = "C20"
CONFIGS_QUICK = ["K1"]
CONFIGS_THOROUGH = ["K1", "K2", "K3"]
EXPLANATION = (
    "Histories cannot be enumerated statically. Instead the representation invariant `order is duplicate-free and set(order) = "
    "keys(entries)` is shown to be established by the only constructor (Default: both empty) and preserved by the only two mutators, "
    "through shape rules that are each a necessary condition: (writers) `entries` and `order` are private and mutated only inside "
    "push and remove; (push) the append to `order` is control-dependent exactly on the key being absent from `entries`, with a clone "
    "of the same key, and the map insert is unconditional with the same key and the new value; (remove) `order` loses exactly the "
    "elements equal to the removed key on exactly the paths where `entries.remove(key)` returned Some, and that presence flag is "
    "returned; (iter) iteration walks `order` and looks each key up in `entries`, get() reads `entries`, the Name writer consumes "
    "iter(), derived PartialEq compares both fields and the key type derives Hash and Eq. The inductive step over histories is argued "
    "from these rules, not mechanically proved (that would be deductive verification, a different technique family).")
ASSUMPTIONS = ["std HashMap / Vec semantics (contains_key, insert, remove, push, retain, slice::Iter)"]

DN = "DistinguishedName"


def run(ctx):
    rep = ctx.rep
    for cfg in (CONFIGS_QUICK if ctx.tier == "quick" else CONFIGS_THOROUGH):
        crate = ctx.crate(cfg)
        writers(cfg, crate, rep)
        push(cfg, crate, rep)
        remove(cfg, crate, rep)
        iteration(cfg, crate, rep)


def writers(cfg, crate, rep):
    adt = crate.adts.get(DN)
    vis = {f["name"]: f["vis"] for f in adt["variants"][0]["fields"]} if adt else {}
    rep.ob("C20.writers", "%s|fields" % cfg, set(vis) == {"entries", "order"} and all(v != "pub" for v in vis.values()), "DistinguishedName = { entries, order }, both private", found=vis)
    mutators = {}
    readers_mut = set()
    for name, b in common.all_bodies(crate):
        if common.is_test_fn(name) or name in crate.derived_fns:
            continue
        for n, ps in common.hir_walk_p(b["hir"]):
            # &mut access to a field of DistinguishedName
            if n["k"] == "Field" and n.get("adt") == DN and n["name"] in ("entries", "order"):
                parent = ps[-1] if ps else None
                mut = False
                if parent is not None:
                    if parent["k"] == "MethodCall" and parent.get("recv") is n and parent["recv"].get("aty", "").startswith("&mut"):
                        mut = True
                    if parent["k"] == "AddrOf" and parent.get("mut"):
                        mut = True
                    if parent["k"] in ("Assign", "AssignOp") and parent.get("l") is n:
                        mut = True
                if mut:
                    mutators.setdefault(name, set()).add(n["name"])
            if n["k"] == "Struct" and n.get("adt") == DN:
                mutators.setdefault(name, set()).add("<literal>")
    rep.ob("C20.writers", "%s|mutators" % cfg, set(mutators) == {"DistinguishedName::push", "DistinguishedName::remove"}, "the two fields are written only by push and remove (construction only through the derived Default)", expected=["DistinguishedName::push", "DistinguishedName::remove"], found={k: sorted(v) for k, v in mutators.items()})
    derived = {im.get("trait") for im in crate.impls if im.get("self_adt") == DN and im.get("derived")}
    rep.ob("C20.writers", "%s|derives" % cfg, {"std::default::Default", "std::cmp::PartialEq", "std::clone::Clone"} <= derived, "Default (empty/empty), PartialEq (both fields) and Clone are derived", found=sorted(x for x in derived if x))
    new = core(Interp(crate).run_fn("DistinguishedName::new")["value"])
    rep.ob("C20.writers", "%s|new" % cfg, isinstance(new, CallV) and new.callee.endswith("Default>::default"), "new() is Default::default()", found=new.r())
    # from_name builds through push only (no direct field access): covered by `mutators`


def map_type(crate):
    """the keyed map behind `entries`: std HashMap or BTreeMap (same by-key semantics: contains_key / get / insert /
    remove / entry; the key's Hash+Eq resp. Ord+Eq must be the derived, mutually consistent ones)"""
    a = crate.adts.get(DN) or {}
    for v in a.get("variants") or []:
        for f in v.get("fields") or []:
            if f.get("name") == "entries":
                return "std::collections::BTreeMap" if "BTreeMap<" in (f.get("ty") or "") else "std::collections::HashMap"
    return "std::collections::HashMap"


def push(cfg, crate, rep):
    fn = "DistinguishedName::push"
    rep.fn(fn)
    I = Interp(crate)
    I.run_fn(fn)
    # `entries.entry(k)` is a lookup (the updates it leads to are logged as inserts of the slot's map and key)
    m = [(t, k, p, n, c) for t, k, p, n, f, c in I.muts if f == fn and not k.endswith(("HashMap::entry", "BTreeMap::entry"))]
    key = "%s|%s" % (cfg, fn)
    app = [x for x in m if core(x[0]).r() == "self.order"]
    ins = [x for x in m if core(x[0]).r() == "self.entries"]
    # one list update; the map update may be written once or once per (exclusive) case
    ins_cover = F.Or(*[x[4] for x in ins]) if ins else False
    excl = all(F.And(a[4], b[4]) is False or not F.counterexamples(F.And(a[4], b[4]), False, "implies") for i, a in enumerate(ins) for b in ins[i + 1:])
    same = len({(x[1], core(x[2][0]).r(), core(x[2][1]).r() if len(x[2]) > 1 else "") for x in ins}) == 1
    rep.ob("C20.push", key + "|two-updates", len(app) == 1 and len(ins) >= 1 and len(m) == len(app) + len(ins) and excl and same, "push performs exactly one list update and one map update (the latter possibly spelt once per exclusive case)", found=[(core(x[0]).r(), x[1], F.show(x[4])[:60]) for x in m])
    if ins and same and excl:
        ins = [(ins[0][0], ins[0][1], ins[0][2], ins[0][3], True if (ins_cover is True or not F.counterexamples(True, ins_cover, "implies")) else ins_cover)]
    if len(app) == 1:
        t, k, p, n, c = app[0]
        ok_m = k.endswith("Vec::push") and places(p[0]) == {"ty"} and not [r for r in roots(p[0]) if r.startswith("op:")]
        want = Not(atom("opaque", map_type(crate) + "::contains_key(self.entries, ty)"))
        alt = [Not(atom("some", map_type(crate) + "::get(self.entries, ty)"))]
        ok_c = any(not F.counterexamples(c, w, "equiv") for w in [want] + alt)
        rep.ob("C20.push", key + "|append-iff-absent", ok_m and ok_c, "the key is appended to `order` exactly when it is absent from `entries` (otherwise duplicates appear / re-insertion moves nothing)", expected=F.show(want), found="%s(%s) when %s" % (k, core(p[0]).r(), F.show(c)), sp=n.get("sp"))
    else:
        rep.fail("C20.push", key + "|append-iff-absent", "no single append to `order`", found=len(app))
    if len(ins) == 1:
        t, k, p, n, c = ins[0]
        ok = k.endswith(("HashMap::insert", "BTreeMap::insert")) and c is True and core(p[0]).r() == "ty" and places(p[1]) == {"s"}
        rep.ob("C20.push", key + "|insert-unconditional", ok, "the value is stored under the same key unconditionally (most recent value wins)", found="%s(%s, %s) when %s" % (k, core(p[0]).r(), core(p[1]).r(), F.show(c)), sp=n.get("sp"))
    else:
        rep.fail("C20.push", key + "|insert-unconditional", "no single insert into `entries`", found=len(ins))
    # order of the two updates: the presence test must precede the insert
    if len(app) == 1 and len(ins) == 1:
        idx = [i for i, x in enumerate(m)]
        # (only inserts that can happen on the appending path count: an insert in the exclusive "already present" case of
        # a `match entries.entry(k)` is written first but never runs together with the append)
        def _compat(x):
            g = F.And(x[4], app[0][4])
            return g is not False and bool(F.counterexamples(g, False, "implies"))
        cands_ = [i for i, x in enumerate(m) if core(x[0]).r() == "self.entries" and _compat(x)]
        first_ins = min(cands_) if cands_ else len(m)
        rep.ob("C20.push", key + "|test-before-insert", m.index(app[0]) < first_ins, "the absence test/append happens before the insert (afterwards the key is always present)")


def remove(cfg, crate, rep):
    fn = "DistinguishedName::remove"
    rep.fn(fn)
    I = Interp(crate)
    out = I.run_fn(fn)
    key = "%s|%s" % (cfg, fn)
    m = [(t, k, p, n, c) for t, k, p, n, f, c in I.muts if f == fn]
    rm = [x for x in m if core(x[0]).r() == "self.entries"]
    rt = [x for x in m if core(x[0]).r() == "self.order"]
    present = atom("some", map_type(crate) + "::remove(self.entries, ty)")
    ok = len(rm) == 1 and rm[0][1].endswith(("HashMap::remove", "BTreeMap::remove")) and rm[0][4] is True and core(rm[0][2][0]).r() == "ty"
    rep.ob("C20.remove", key + "|map-remove", ok, "the key is removed from `entries` unconditionally", found=[(x[1], F.show(x[4])) for x in rm])
    if len(rt) == 1:
        t, k, p, n, c = rt[0]
        ok_c = not F.counterexamples(c, present, "equiv")
        if not ok_c:
            # early-return style: `if entries.remove(k).is_none() { return false }` then an unconditional retain
            act_ret = [cnd for cnd, val in []]
            rets = [(cnd, val) for cnd, val in (core(out["value"]).alts if hasattr(core(out["value"]), "alts") else [])]
            absent_returns = [cnd for cnd, val in rets if I.concrete(val) is False]
            ok_c = c is True and len(absent_returns) == 1 and not F.counterexamples(absent_returns[0], F.Not(present), "equiv")
        cl = core(p[0])
        keep = None
        if isinstance(cl, ClosureV) and k.endswith("Vec::retain"):
            I2 = Interp(crate)
            fr = dict(cl.frame)
            keep = I2.to_formula(I2.call_closure(ClosureV(cl.node, fr), [Param("elem")]))
        want_keep = [Not(atom("eq", "elem", "ty")), Not(atom("eq", "ty", "elem"))]
        ok_k = keep is not None and any(not F.counterexamples(keep, w, "equiv") for w in want_keep)
        if k.endswith("Vec::remove") and not ok_k:
            # `if let Some(i) = self.order.iter().position(|x| x == &ty) { self.order.remove(i) }`: the first element equal to
            # the key is dropped -- the only one, as push appends a key only while it is absent (C20.push).  The index
            # must come from a *forward* search of `order` itself for the key, and the update happens exactly when the
            # search succeeds.
            from interp import Sel as _Sel, CallV as _CallV, Via as _Via, BoolV as _BoolV
            ix = p[0]
            while isinstance(ix, _Via):
                ix = ix.inner
            cv = core(ix.base) if isinstance(ix, _Sel) and ix.sel == "?" else None
            if isinstance(cv, _CallV) and cv.callee.endswith(("Iterator::position", "Iterator>::position")) and len(cv.args) == 2 and core(cv.args[0]).r() in ("self.order.iter", "self.order"):
                inner = cv.args[1].inner if isinstance(cv.args[1], _Via) else cv.args[1]
                body = inner.f if isinstance(inner, _BoolV) else None
                eqs = [atom("eq", el, "ty") for el in ("self.order.iter[]", "self.order[]")] + [atom("eq", "ty", el) for el in ("self.order.iter[]", "self.order[]")]
                found_any = [a for a in F.atoms(c) if a[0] in ("any", "contains") and str(a[1]).startswith("self.order")]
                if body is not None and any(not F.counterexamples(body, w, "equiv") for w in eqs) and len(found_any) == 1:
                    keep = Not(atom("eq", "elem", "ty"))
                    ok_k = True
                    # the search's success is implied by presence (push invariant): read the condition without it
                    import schema as _S
                    c = _S.pe_formula(c, {found_any[0]: True})
                    ok_c = not F.counterexamples(c, present, "equiv")
                    if not ok_c:
                        rets = [(cnd, val) for cnd, val in (core(out["value"]).alts if hasattr(core(out["value"]), "alts") else [])]
                        absent_returns = [cnd for cnd, val in rets if I.concrete(val) is False]
                        ok_c = c is True and len(absent_returns) == 1 and not F.counterexamples(absent_returns[0], F.Not(present), "equiv")
        rep.ob("C20.remove", key + "|order-loses-exactly-the-key", ok_c and ok_k, "`order` keeps exactly the elements different from the removed key, on exactly the paths where the key was present", expected="retain(|x| x != ty) when removed", found="%s keep(%s) when %s" % (k, F.show(keep) if keep is not None else "?", F.show(c)), sp=n.get("sp"))
    else:
        rep.fail("C20.remove", key + "|order-loses-exactly-the-key", "no single update of `order`", found=len(rt))
    v = out["value"]
    f = I.to_formula(v)
    rep.ob("C20.remove", key + "|returns-presence", f is not None and not F.counterexamples(f, present, "equiv"), "remove() reports whether something was removed", found=core(v).r())


def iteration(cfg, crate, rep):
    I = Interp(crate)
    v = core(I.run_fn("DistinguishedName::iter")["value"])
    ok = isinstance(v, StructV) and core(v.fields.get("distinguished_name")).r() == "self" and places(v.fields.get("iter")) == {"self.order"}
    rep.ob("C20.iter", "%s|iter" % cfg, ok, "iter() walks `order` of the same name", found=v.r())
    nxt = [k for k in crate.bodies if k.startswith("<DistinguishedNameIterator") and k.endswith("::next")]
    if nxt:
        I2 = Interp(crate)
        vv = I2.run_fn(nxt[0])["value"]
        v = core(vv)
        txt = v.r()
        # the lookup by key: HashMap::get on the same name's `entries`, directly or through DistinguishedName::get
        gets = [(c, a) for c, a, n_, cnd, f in I2.calls if (c.endswith(("HashMap::get", "BTreeMap::get")) and core(a[0]).r() == "self.distinguished_name.entries")
                or (c == "DistinguishedName::get" and core(a[0]).r() == "self.distinguished_name")]
        nexts = [(c, a) for c, a, n_, cnd, f in I2.calls if c.endswith("::next") and places(a[0]) == {"self.iter"}]
        ok = len(gets) == 1 and places(gets[0][1][1]) == {"self.iter"} \
            and any(x.endswith("::next") for x in calls_of(gets[0][1][1])) and len(nexts) == 1 \
            and places(vv) in ({"self.iter", "self.distinguished_name.entries"}, {"self.iter", "self.distinguished_name"})
        rep.ob("C20.iter", "%s|next" % cfg, ok, "next() takes the next key of `order` and looks its value up in `entries` of the same name", found=txt[:200])
    else:
        rep.fail("C20.iter", "%s|next" % cfg, "iterator impl not found")
    v = core(Interp(crate).run_fn("DistinguishedName::get")["value"])
    rep.ob("C20.iter", "%s|get" % cfg, isinstance(v, CallV) and v.callee.endswith(("HashMap::get", "BTreeMap::get")) and core(v.args[0]).r() == "self.entries" and core(v.args[1]).r() == "ty", "get() reads `entries`", found=v.r())
    # the Name writer consumes iter()
    import schema as S_
    Iw = Interp(crate)
    outw = Iw.run_fn("write_distinguished_name")
    overs = sorted({r_ for n, p_, c_, r_ in S_.walk(S_.norm(outw["items"])) if r_})
    ok = overs == [("DistinguishedName::iter(dn)",)]
    rep.ob("C20.iter", "%s|name-writer" % cfg, ok, "the encoded Name lists the attributes in iter() order (the one repetition of the Name writer ranges over dn.iter())", found=overs)
    # the unordered map may be probed / updated by key and tested for emptiness, never enumerated or handed out
    PROBES = {"get", "get_mut", "contains_key", "insert", "remove", "is_empty", "len", "entry", "remove_entry", "get_key_value"}
    bad_uses = []
    n_uses = 0
    for name, bb in common.all_bodies(crate):
        if common.is_test_fn(name) or name in crate.derived_fns:
            continue
        for n, ps in common.hir_walk_p(bb["hir"]):
            if n["k"] == "Field" and n.get("adt") == DN and n["name"] == "entries":
                n_uses += 1
                # climb through & / &mut / deref to the consuming expression
                i_ = len(ps) - 1
                child = n
                while i_ >= 0 and ps[i_]["k"] in ("AddrOf", "Unary"):
                    child = ps[i_]
                    i_ -= 1
                par = ps[i_] if i_ >= 0 else None
                ok_use = par is not None and par["k"] == "MethodCall" and par.get("recv") is child and par["name"] in PROBES and ("HashMap" in (par.get("callee") or "") or "BTreeMap" in (par.get("callee") or ""))
                if not ok_use:
                    bad_uses.append("%s: %s" % (name, (par or {}).get("name") or (par or {}).get("k")))
    rep.ob("C20.iter", "%s|entries-readers" % cfg, not bad_uses and n_uses >= 4, "the unordered map is never enumerated: every use of `entries` is the receiver of a by-key probe / update or an emptiness test", expected=sorted(PROBES), found=bad_uses or "%d uses, all by-key" % n_uses)
    # no hash-map iteration anywhere on DistinguishedName.entries
    bad = []
    for name, bb in common.all_bodies(crate):
        if common.is_test_fn(name) or name in crate.derived_fns:
            continue
        for n in common.hir_walk(bb["hir"]):
            if n["k"] == "MethodCall" and n["recv"].get("k") == "Field" and n["recv"].get("adt") == DN and n["recv"]["name"] == "entries" and n["name"] in ("iter", "keys", "values", "into_iter", "drain", "iter_mut", "values_mut", "retain", "into_keys", "into_values"):
                bad.append((name, n["name"]))
    rep.ob("C20.iter", "%s|no-map-enumeration" % cfg, not bad, "`entries` is never iterated", found=bad)
    # key type derives Hash + Eq
    derived = {im.get("trait") for im in crate.impls if im.get("self_adt") == "certificate::DnType" and im.get("derived")}
    rep.ob("C20.iter", "%s|key-traits" % cfg, ({"std::cmp::Ord", "std::cmp::PartialOrd", "std::cmp::Eq", "std::cmp::PartialEq"} if "BTreeMap" in map_type(crate) else {"std::hash::Hash", "std::cmp::Eq", "std::cmp::PartialEq"}) <= derived, "the key type derives the traits its map looks keys up with (Hash + Eq, or Ord + Eq for a BTreeMap): consistent by construction", found=sorted(x for x in derived if x))
