"""C18 - the CLI writes a usable CA and end-entity pair for any valid options."""
import formula as F
import common
from interp import core, places, calls_of, roots, Interp, CallV, PhiV, StructV, Via, MutV, Const, Def, ArrayV, IterMapV
import c10

PROP = "C18"
CONFIGS_QUICK = ["K4", "K5"]
CONFIGS_THOROUGH = ["K4", "K5"]
EXPLANATION = (
    "Static, on the CLI binary and library under both back ends: (order) in main's MIR every fallible, option-dependent step (both "
    "signature_algorithm calls, country_name, both build calls) dominates the first PemCertifiedKey::write, every `?` is propagated, and "
    "after the first write only serialisation and writes follow - so invalid options exit non-zero before any output file exists; argument "
    "parsing (which runs parse_sans) precedes everything; (names) parse_sans classifies IP literals as IpAddress and everything else as "
    "DnsName(validated), identically to CertificateParams::new; write() sends private_key_pem to `{name}.key.pem` and cert_pem to "
    "`{name}.pem` (format templates decoded); serialize_pem pairs cert_pem <- cert.pem(), private_key_pem <- key_pair.serialize_pem() for Ca "
    "and EndEntity; main pairs cert_file_name with the entity and ca_file_name with the CA and the client/server flags with the like-named "
    "builder methods and those with ClientAuth / ServerAuth; (builders) CaBuilder sets Ca(Unconstrained) with DigitalSignature, KeyCertSign, "
    "CrlSign; EndEntityBuilder sets NoCa with AKI on; build() signs the entity with the CA's certificate and key and each certificate with a "
    "freshly generated key; to_key_pair pairs each variant with the rcgen algorithm and back-end constant of the same curve; (panic) the "
    "CLI's own MIR contains no unaudited panic site (C10.audit). Not decided: file-system behaviour, validators' verdict on the written pair.")
ASSUMPTIONS = ["bpaf's derive-generated parser exits non-zero on a failing `parse(..)` function", "std::fs / std::io semantics"]

BIN = "rustls_cert_gen.bin.json"
LIB = "rustls_cert_gen.lib.json"


def template_text(v, I):
    """ASCII literal pieces of a compact format template (byte array literal)."""
    out = []
    def walk(x):
        x0 = core(x)
        if isinstance(x0, Const) and isinstance(x0.v, list) and all(isinstance(b, int) for b in x0.v):
            out.append("".join(chr(b) for b in x0.v if 32 <= b < 127))
        elif isinstance(x0, ArrayV):
            c = I.concrete(x0)
            if isinstance(c, list) and all(isinstance(b, int) for b in c):
                out.append("".join(chr(b) for b in c if 32 <= b < 127))
        elif isinstance(x0, CallV):
            for a in x0.args:
                walk(a)
        elif isinstance(x0, MutV):
            walk(x0.base)
    walk(v)
    return out


def run(ctx):
    rep = ctx.rep
    tables = {}
    for cfg in CONFIGS_QUICK:
        crate = ctx.crate(cfg, BIN)
        lib = ctx.crate(cfg, LIB)
        order(cfg, crate, rep)
        names(cfg, crate, ctx, rep)
        builders(cfg, crate, rep, tables)
        # "the end-entity certificate carries exactly the given names ... purposes; the CA is a CA with certificate-signing
        # and CRL-signing usage": what the builders put into the parameters reaches the certificate only through rcgen's
        # SAN / KeyUsage / ExtendedKeyUsage / BasicConstraints writers, as compiled for the tool
        import c02
        n0, f0 = len(rep.obligations), len(rep.floors)
        c02.check_schema(ctx, cfg, ctx.crate(cfg), rep)
        keep = [o for o in rep.obligations[n0:] if any(k in o["key"] for k in ("oid:2.5.29.17", "oid:2.5.29.15", "oid:2.5.29.37", "oid:2.5.29.19")) or not o["ok"] and "|tbs" in o["key"]]
        del rep.obligations[n0:]
        del rep.floors[f0:]
        for o in keep:
            o["key"] = o["key"].replace("C02.schema", "C18.cert", 1)
            o["rule"] = "C18.cert"
        rep.obligations.extend(keep)
        rep.floor("C18.cert", "extension writer nodes (%s)" % cfg, len(keep), 40)
        # the library target exposes the same cert module: bodies must be identical to the binary's copy
        import c16, json
        n = 0
        for k, b in lib.bodies.items():
            if k.startswith("cert::") and "hir" in b and k in crate.bodies and "hir" in crate.bodies[k]:
                n += 1
                same = json.dumps(c16.canon(b["hir"]), sort_keys=True) == json.dumps(c16.canon(crate.bodies[k]["hir"]), sort_keys=True)
                if not same:
                    rep.fail("C18.builders", "%s|lib-vs-bin|%s" % (cfg, k), "the library and binary copies of the cert module differ")
        rep.ob("C18.builders", "%s|lib-vs-bin" % cfg, n >= 20, "library and binary compile the same cert module (%d functions compared)" % n)
        # "without panicking": the tool renders rcgen's errors and calls rcgen's constructors, so the library's own panic
        # audit (as compiled for the tool) is part of the claim
        n_lib = [0]
        def _lib():
            n_lib[0] = c10.audit(cfg, ctx.crate(cfg), "rcgen", rep)
        common.borrow_rules(rep, _lib, "C10.", "C18.lib")
        rep.floor("C18.lib", "library panic sites enumerated (%s)" % cfg, n_lib[0], 20)
        # the tool builds its keys through rcgen's explicit-algorithm loader: its per-algorithm table (as compiled for the
        # tool) pairs every algorithm with the back-end constant of the same curve and hash
        import c11
        common.borrow_rules(rep, lambda: c11.check_pairs("K1" if cfg == "K4" else "K2", ctx.crate(cfg), rep, {}), "C11.", "C18.keys")
        # "a value rcgen cannot encode (e.g. a non-PrintableString country) makes the tool fail": the tool's only check on
        # --country-name / names is rcgen's string constructor, so the admission predicates as compiled for the tool count
        import c13
        common.borrow_rules(rep, lambda: (c13.alpha(cfg, ctx.crate(cfg), rep), c13.sink(cfg, ctx.crate(cfg), rep)), "C13.", "C18.strings")
        # panic audit of the CLI
        for cname, cr in (("rustls_cert_gen", crate), ("rustls_cert_gen", lib)):
            sites = c10.sites(cr)
            rep.ob("C18.panic", "%s|%s|no-panic-sites" % (cfg, "bin" if cr is crate else "lib"), not sites, "the CLI's own code contains no explicit panic construct", found=[(o, c) for o, c, t, b in sites])
    a, b = tables.get("K4"), tables.get("K5")
    if a and b:
        for k in sorted(set(a) & set(b)):
            rep.ob("C18.builders", "K4=K5|to_key_pair|%s" % k, a[k] == b[k], "both back ends generate this key type the same way", expected=a[k], found=b[k])
        rep.ob("C18.builders", "K4=K5|only-P521-extra", set(b) - set(a) == {"EcdsaP521"}, "aws-lc-rs adds exactly EcdsaP521", found=sorted(set(b) - set(a)))


def order(cfg, crate, rep):
    body = crate.body("main")
    rep.fn("main")
    key = "%s|main" % cfg
    # `main` may hand everything to a helper introduced later (`fn run(opts) -> Result<..>`): the ordering is then a
    # property of that helper's flow graph; what stays in `main` (option parsing) must dominate the delegating call
    from interp import known_fns
    outer = []
    for _ in range(3):
        ws_ = common.mir_calls_deep(crate, body, lambda c: c == "cert::PemCertifiedKey::write")
        blks_ = common.mir_blocks(body)
        if len(ws_) >= 2 and len({w[0] for w in ws_}) == 1:
            t_ = ws_[0][1]
            tgt_ = common.facts_norm(t_.get("inst") or t_.get("callee") or "")
            tgt_ = tgt_ if tgt_ in crate.bodies else common.facts_norm(t_.get("callee") or "")
            if tgt_ in crate.bodies and tgt_ not in known_fns(crate.name) and "mir" in crate.bodies[tgt_]:
                outer.append((body, ws_[0][0]))
                body = crate.bodies[tgt_]
                continue
        break
    dom = common.mir_dominators(body)
    blocks = common.mir_blocks(body)
    writes = common.mir_calls_deep(crate, body, lambda c: c == "cert::PemCertifiedKey::write")
    rep.ob("C18.order", key + "|two-writes", len(writes) == 2, "main writes exactly two key/certificate pairs", found=len(writes))
    if not writes:
        return
    first = [w for w in writes if not any(o[0] in dom[w[0]] and o[0] != w[0] for o in writes)]
    w1 = first[0][0]
    fallible = ["cert::CertificateBuilder::signature_algorithm", "cert::CaBuilder::country_name", "cert::CaBuilder::build", "cert::EndEntityBuilder::build"]
    n = 0
    for f in fallible:
        cs = common.mir_calls_deep(crate, body, lambda c, f=f: c == f)
        want = 2 if f.endswith("signature_algorithm") else 1
        rep.ob("C18.order", key + "|" + f + "|count", len(cs) == want, "expected call count", expected=want, found=len(cs))
        for bid, t in cs:
            n += 1
            rep.ob("C18.order", key + "|" + f + "|before-first-write", bid in dom[w1] and bid != w1, "every fallible, option-dependent step dominates the first file write (nothing is written when it fails)", found="bb%d vs first write bb%d" % (bid, w1), sp=t.get("sp"))
    opt = common.mir_calls_deep(crate, body, lambda c: c.endswith("OptionParser::run"))
    if not opt and outer:
        # options are parsed in `main` before it delegates: that call dominates the delegating call
        ob_, call_bid = outer[0]
        odom = common.mir_dominators(ob_)
        oopt = common.mir_calls_deep(crate, ob_, lambda c: c.endswith("OptionParser::run"))
        rep.ob("C18.order", key + "|options-first", len(oopt) == 1 and oopt[0][0] in odom[call_bid] and oopt[0][0] != call_bid, "option parsing precedes everything (in main, before it delegates)", found=len(oopt))
    else:
      rep.ob("C18.order", key + "|options-first", len(opt) == 1 and opt[0][0] in dom[w1] and all(opt[0][0] in dom[bid] for f in fallible for bid, t in common.mir_calls_deep(crate, body, lambda c, f=f: c == f)), "option parsing (incl. parse_sans) precedes everything", found=len(opt))
    # after the first write: only serialisation / writes / error plumbing
    after = common.mir_reachable(body, w1)
    allowed = ("cert::PemCertifiedKey::write", "cert::Ca::serialize_pem", "cert::EndEntity::serialize_pem", "Try>::branch", "FromResidual", "std::ops::Try::branch", "from_residual", "std::convert::From::from", "drop_in_place", "Deref", "as_ref", "::deref", "into")
    bad = []

    def _helper_ok(fn_, depth=0):
        """a helper added by a later change that itself only serialises / writes / plumbs errors"""
        b_ = crate.bodies.get(fn_)
        if depth > 4 or not b_ or "mir" not in b_ or fn_ in known_fns(crate.name):
            return False
        for blk_ in common.mir_blocks(b_).values() if isinstance(common.mir_blocks(b_), dict) else common.mir_blocks(b_):
            t_ = blk_["term"]
            if t_["k"] == "Call" and not blk_.get("cleanup"):
                c_ = common.facts_norm(t_.get("inst") or t_.get("callee") or "")
                c0_ = common.facts_norm(t_.get("callee") or "")
                if any(a in c_ or a in c0_ for a in allowed):
                    continue
                if not _helper_ok(c0_ if c0_ in crate.bodies else c_, depth + 1):
                    return False
        return True
    for bid in after:
        t = blocks[bid]["term"]
        if t["k"] == "Call":
            c = common.facts_norm(t.get("inst") or t.get("callee") or "")
            c0 = common.facts_norm(t.get("callee") or "")
            if bid != w1 and not any(a in c or a in c0 for a in allowed) and not _helper_ok(c0 if c0 in crate.bodies else c):
                bad.append(c0)
    rep.ob("C18.order", key + "|after-first-write", not bad, "after the first write only serialisation and writes follow", found=bad)
    # every fallible call in main is propagated with `?`
    import c01
    for node, ps in common.hir_walk_p(body["hir"]):
        ty = node.get("ty", "")
        if node["k"] in ("Call", "MethodCall") and ty.startswith("std::result::Result<") and (node.get("callee") or "") not in ("Ok", "Err"):
            how = c01._consumed(node, ps)
            if how == "closure-result":
                # `let step = || fallible(..);` ... `step()?`: the result is propagated where the closure is called
                clo = [p_ for p_ in ps if p_.get("k") == "Closure"][-1]
                hid_ = None
                for n2, ps2 in common.hir_walk_p(body["hir"]):
                    if n2.get("k") == "Let" and n2.get("init") is clo and (n2.get("pat") or {}).get("k") == "Binding":
                        hid_ = n2["pat"].get("hid")
                uses = [(n2, ps2) for n2, ps2 in common.hir_walk_p(body["hir"]) if n2.get("k") == "Call" and (n2.get("f") or {}).get("k") == "Path" and (n2.get("f") or {}).get("hid") == hid_] if hid_ is not None else []
                if uses and all(c01._consumed(n2, ps2) in ("?", "tail", "return") for n2, ps2 in uses):
                    how = "?"
            rep.ob("C18.order", key + "|propagated|" + (node.get("callee") or node.get("name") or "<closure call>"), how in ("?", "tail", "return"), "fallible step is propagated (exit non-zero)", found=how, sp=node.get("sp"))
    for ob_, call_bid in outer:
        # the delegating call's result must itself be propagated by the outer function
        for node, ps in common.hir_walk_p(ob_["hir"]):
            ty = node.get("ty", "")
            if node["k"] in ("Call", "MethodCall") and ty.startswith("std::result::Result<") and (node.get("callee") or "") not in ("Ok", "Err"):
                how = c01._consumed(node, ps)
                rep.ob("C18.order", key + "|propagated|outer|" + (node.get("callee") or node.get("name")), how in ("?", "tail", "return"), "fallible step is propagated (exit non-zero)", found=how, sp=node.get("sp"))
    rep.floor("C18.order", "fallible steps before the first write (%s)" % cfg, n, 5)


def names(cfg, crate, ctx, rep):
    # parse_sans vs CertificateParams::new
    rep.fn("parse_sans", "cert::PemCertifiedKey::write")
    def classify(cr, fn, coll):
        """Semantic classification of each input name: the returned collection's element as a case split on the result
        of parsing that name as an IP address.  Returns a normal form (dict) or {"error": ..}."""
        I = Interp(cr)
        out = I.run_fn(fn)
        v = coll(core(out["value"]))
        if v is None:
            return {"error": "result collection not found"}
        elems = []
        v0 = core(v)
        if isinstance(v0, CallV) and v0.callee.endswith("Iterator::collect") and isinstance(core(v0.args[0]), IterMapV):
            elems = [core(v0.args[0]).result]
            src = core(core(v0.args[0]).src).r()
        elif isinstance(v0, MutV):
            elems = [op[2] for op in v0.ops if op[0] == "call" and op[1] == "push" and len(op) > 2]
            src = None
        if len(elems) != 1:
            return {"error": "expected one element expression, found %d (%s)" % (len(elems), v0.r()[:80])}
        e = core(elems[0])
        if isinstance(e, StructV) and e.variant == "Ok":
            e = core(e.fields["0"])
        alts = e.alts if isinstance(e, PhiV) else [(True, e)]
        flat = []
        via_map = set()
        for c, x in alts:
            x0 = core(x)
            if isinstance(x0, StructV) and x0.variant == "Ok":
                x0 = core(x0.fields["0"])
            elif isinstance(x0, CallV) and x0.callee == "std::result::Result::map" and len(x0.args) == 2 and isinstance(core(x0.args[1]), StructV):
                # `fallible.map(Variant)`: Ok(Variant(payload)) when the conversion succeeds, its error otherwise
                recv_ = x0.args[0]
                x0 = core(x0.args[1])
                if any(r.startswith("via:") and ("try_into" in r or "try_from" in r) for r in roots(recv_)):
                    via_map.add(id(x0))
            flat.append((c, x0))
        parse = [(cal, args, n) for cal, args, n, cond, f in I.calls
                 if cal == "parse::<std::net::IpAddr>"]
        if len(parse) != 1:
            return {"error": "expected exactly one IP-address parse, found %d" % len(parse)}
        cal, args, n = parse[0]
        elem = core(args[0]).r()
        pl = "%s(%s)" % (cal, elem)
        ats = []
        for c, x in flat:
            for a in F.atoms(c):
                if a not in ats:
                    ats.append(a)
        # "the name passed validation" (a match on the result of the checked conversion of this element) is not a
        # classification criterion: the table is read on the paths where it succeeded, its failure must be propagated
        val_atoms = [a for a in ats if a[0] == "variant" and a[1] != pl and a[2] == "Ok" and ("try_from" in a[1] or "try_into" in a[1]) and a[1].endswith("(%s)" % elem)]
        if any((a[0] != "variant" or a[1] != pl) and a not in val_atoms for a in ats):
            return {"error": "classification depends on something other than the IP parse: %s" % [F.show_atom(a)[-80:] for a in ats if a[0] != "variant" or a[1] != pl]}
        res = {"element": elem.split(".")[-1] if "." in elem else elem, "parsed_as": "IpAddr"}
        for asg in F.assignments(ats + [x for x in [("variant", pl, "Ok"), ("variant", pl, "Err")] if x not in ats]):
            if any(not asg.get(a) for a in val_atoms):
                continue
            hit = [x for c, x in flat if F.evalf(c, asg)]
            which = "Ok" if asg[("variant", pl, "Ok")] else "Err"
            if len(hit) != 1 or not isinstance(hit[0], StructV):
                return {"error": "no unique outcome when the parse is %s" % which}
            h = hit[0]
            payload = h.fields.get("0")
            ptxt = core(payload).r() if payload is not None else ""
            if ptxt == pl + "#Ok.0":
                src_txt = "parsed address"
            elif ptxt in (elem, elem + "?") and (id(h) in via_map or any(r.startswith("via:") and ("try_into" in r or "try_from" in r) for r in roots(payload))):
                propagated = any(core(tv).r() == elem and "try_" in tv.r() for tv, tn, tf, tc in I.tries) or id(h) in via_map
                src_txt = "validated name" + (" (error propagated)" if propagated else " (error NOT propagated)")
            elif (ptxt.endswith("(%s)" % elem) or ptxt.endswith("(%s)?" % elem)) and ("try_from" in ptxt or "try_into" in ptxt) and ptxt.count("(") == 1 + elem.count("("):
                # the checked conversion written as a call of the (local) TryFrom impl, `?`-propagated
                call_txt = ptxt.rstrip("?")
                propagated = ptxt.endswith("?") or any(core(tv).r() == call_txt for tv, tn, tf, tc in I.tries)
                src_txt = "validated name" + (" (error propagated)" if propagated else " (error NOT propagated)")
            elif (ptxt.endswith("(%s)#Ok.0" % elem) and ("try_from" in ptxt or "try_into" in ptxt)) \
                    or (ptxt == elem + "#Ok.0" and (any(r.startswith("via:") and ("try_into" in r or "try_from" in r) for r in roots(payload))
                                                    or any(("try_into" in cal_ or "try_from" in cal_) and args_ and core(args_[0]).r() == elem for cal_, args_, n_, cond_, f_ in I.calls))):
                # (the element itself is a string: an Ok/Err test "of the element" is the test of its checked conversion,
                # which the value model sees through)
                # the success payload of a checked conversion of this element, taken apart by a `match`: its failure must
                # leave the function with an error on these paths
                place_ = ptxt[:-len("#Ok.0")]
                def _asg(c):
                    out_ = {}
                    for b in F.atoms(c):
                        if b[0] == "variant" and b[1] == pl:
                            out_[b] = (b[2] == which)
                        elif b[0] == "variant" and b[1] == place_:
                            out_[b] = (b[2] == "Err")
                        else:
                            out_[b] = b[0] == "opaque" and str(b[1]).startswith("in-loop@")
                    return out_
                propagated = any(any(b[0] == "variant" and b[1] == place_ for b in F.atoms(c)) and isinstance(core(x), StructV) and core(x).variant == "Err" and F.evalf(c, _asg(c))
                                 for c, x, nn, ff in I.fails)
                src_txt = "validated name" + (" (error propagated)" if propagated else " (error NOT propagated)")
            else:
                src_txt = ptxt[-60:]
            res[which] = "%s(%s)" % ((h.variant or "?").split("::")[-1], src_txt)
        return res

    def ret_coll(v):
        return core(v.fields["0"]) if isinstance(v, StructV) and v.variant == "Ok" else v

    def new_coll(v):
        v = ret_coll(v)
        from interp import MutV as _MutV, SnapV as _SnapV
        if isinstance(v, _SnapV):
            v = v.mv
        if isinstance(v, _MutV):
            # `let mut p = Self::default(); p.subject_alt_names = names; Ok(p)`: the last assignment to the field
            for o in reversed(v.ops):
                if o[0] == "assign" and o[1] == ".subject_alt_names":
                    return o[2]
            v = core(v.base)
        return v.fields.get("subject_alt_names") if isinstance(v, StructV) else None
    got = classify(crate, "parse_sans", ret_coll)
    want = {"element": "hosts[]", "parsed_as": "IpAddr", "Ok": "IpAddress(parsed address)", "Err": "DnsName(validated name (error propagated))"}
    rep.ob("C18.names", "%s|parse_sans" % cfg, got == want, "IP literals become IpAddress, everything else a validated DnsName (error propagated)", expected=want, found=got)
    rc = ctx.crate(cfg, "rcgen.lib.json")
    sib = classify(rc, "certificate::CertificateParams::new", new_coll)
    sib_n = dict(sib, element="*")
    rep.ob("C18.names", "%s|parse_sans=CertificateParams::new" % cfg, "error" not in sib and sib_n == dict(got, element="*"), "the CLI classifies names exactly like the library constructor (sibling agreement)", expected=sib, found=got)
    # write(): file name template <-> field
    I = Interp(crate)
    I.run_fn("cert::PemCertifiedKey::write")
    pairs = []
    for cal, args, n, cond, f in I.calls:
        if cal.endswith("Write::write_fmt") and f == "cert::PemCertifiedKey::write":
            tmpl = template_text(args[0], I)
            fld = sorted(places(args[1]))
            pairs.append((tmpl[0] if tmpl else None, fld, cond is True))
    want = [("\x08.key.pem".strip("\x08"), ["self.private_key_pem"], True), (".pem", ["self.cert_pem"], True)]
    norm = [((t or "").lstrip("\x00\x04\x08"), fld, c) for t, fld, c in pairs]
    rep.ob("C18.names", "%s|write|file-field-pairing" % cfg, norm == want, "`{name}.key.pem` receives the private key PEM and `{name}.pem` the certificate PEM", expected=want, found=norm)
    creates = [(args, n) for cal, args, n, cond, f in I.calls if cal.endswith("File::create") and f == "cert::PemCertifiedKey::write"]
    ok = len(creates) == 2 and all(places(a[0]) == {"dir", "name"} for a, n in creates)
    rep.ob("C18.names", "%s|write|paths" % cfg, ok, "both files are created under the given directory with the given base name", found=[sorted(places(a[0])) for a, n in creates])
    # serialize_pem pairings
    for ty in ("Ca", "EndEntity"):
        fn = "cert::%s::serialize_pem" % ty
        rep.fn(fn)
        v = core(Interp(crate).run_fn(fn)["value"])
        ok = isinstance(v, StructV) and isinstance(core(v.fields.get("cert_pem")), CallV) and core(v.fields["cert_pem"]).callee == "rcgen::Certificate::pem" and places(v.fields["cert_pem"]) == {"self.cert"} \
            and isinstance(core(v.fields.get("private_key_pem")), CallV) and core(v.fields["private_key_pem"]).callee == "rcgen::KeyPair::serialize_pem" and places(v.fields["private_key_pem"]) == {"self.key_pair"}
        rep.ob("C18.names", "%s|%s" % (cfg, fn), ok, "cert_pem <- cert.pem(), private_key_pem <- key_pair.serialize_pem()", found=v.r()[:200])
    # main pairings
    I = Interp(crate)
    I.run_fn("main")
    ws = [(args, n) for cal, args, n, cond, f in I.calls if cal == "cert::PemCertifiedKey::write" and f == "main"]
    got = []
    for args, n in ws:
        src = "entity" if any(c.endswith("EndEntity::serialize_pem") for c in calls_of(args[0])) else ("ca" if any(c.endswith("Ca::serialize_pem") for c in calls_of(args[0])) else "?")
        got.append((src, opt_fields(args[1]), opt_fields(args[2])))
    want = [("entity", ["opts.output"], ["opts.cert_file_name"]), ("ca", ["opts.output"], ["opts.ca_file_name"])]
    norm = [(s, [p.replace("options().run.", "opts.").replace("bpaf::OptionParser::run(options()).", "opts.") for p in a], [p.replace("bpaf::OptionParser::run(options()).", "opts.") for p in b]) for s, a, b in got]
    rep.ob("C18.names", "%s|main|file-names" % cfg, sorted(got) == sorted([("entity", ["output"], ["cert_file_name"]), ("ca", ["output"], ["ca_file_name"])]), "the end-entity pair goes to cert_file_name and the CA pair to ca_file_name, both under the output directory", found=got)
    flags = {}
    fconds = {}
    for t, k, p, n, f, cond in I.muts:
        if f == "main" and k.startswith("method:cert::EndEntityBuilder::"):
            fconds.setdefault(k.split("::")[-1], []).append(cond)
    # each builder method runs exactly when the like-named flag is set, whatever the other flag is (truth table over the two
    # flags: a pair of `if`s, one `match` on the tuple, nested ifs .. are the same table)
    ok = set(fconds) == {"client_auth", "server_auth"}
    for m_, cs_ in fconds.items():
        d_ = F.Or(*cs_)
        flags[m_] = F.show(d_)
        ats_ = F.atoms(d_)
        fl_ = {a: [x for x in ("client_auth", "server_auth") if str(a[1]).endswith("." + x)] for a in ats_}
        if any(a[0] != "true" or len(fl_[a]) != 1 for a in ats_):
            ok = False
            continue
        for asg in F.assignments(list(ats_)):
            want_ = [v_ for a, v_ in asg.items() if fl_[a] == [m_]]
            if not want_ or len(set(want_)) != 1 or bool(F.evalf(d_, asg)) != want_[0]:
                ok = False
    rep.ob("C18.names", "%s|main|purpose-flags" % cfg, ok, "--client-auth / --server-auth call the like-named builder methods", found=flags)
    for m, want_v in (("client_auth", "ClientAuth"), ("server_auth", "ServerAuth")):
        fn = "cert::EndEntityBuilder::" + m
        b = crate.body(fn)
        vs = {x.get("def", "").split("::")[-1] for x in common.hir_walk(b["hir"]) if x["k"] == "Path" and "ExtendedKeyUsagePurpose::" in (x.get("def") or "")}
        rep.ob("C18.names", "%s|%s" % (cfg, fn), vs == {want_v}, "the builder method adds the like-named purpose", expected=[want_v], found=sorted(vs))
    # common name / country / organisation / sans flow
    calls = {cal: args for cal, args, n, cond, f in I.calls if f == "main"}
    def arg_field(cal, idx=1):
        a = calls.get(cal)
        return opt_fields(a[idx]) if a else None
    rep.ob("C18.names", "%s|main|subject-options" % cfg, arg_field("cert::EndEntityBuilder::common_name") == ["common_name"] and arg_field("cert::CaBuilder::country_name") == ["country_name"] and arg_field("cert::CaBuilder::organization_name") == ["organization_name"] and arg_field("cert::EndEntityBuilder::subject_alternative_names") == ["san"],
           "common name / SANs go to the end entity, country / organisation to the CA", found={k: arg_field(k) for k in calls if "Builder::" in k and k.split("::")[-1] in ("common_name", "country_name", "organization_name", "subject_alternative_names")})
    algs = [opt_fields(args[1]) for cal, args, n, cond, f in I.calls if f == "main" and cal == "cert::CertificateBuilder::signature_algorithm"]
    rep.ob("C18.names", "%s|main|algorithm" % cfg, algs == [["keypair_algorithm"], ["keypair_algorithm"]], "both certificates use the selected key algorithm", found=algs)


def _tail(ps):
    return [p.split(".")[-1] for p in ps]


def opt_fields(v):
    """Option fields a value is read from (`opts` is the result of options().run(), not a parameter)."""
    return sorted(r[5:] for r in roots(v) if r.startswith("sel:.") and r[5:] not in ("0", "1"))


def builders(cfg, crate, rep, tables):
    def muts_of(fn):
        I = Interp(crate)
        out = I.run_fn(fn)
        return I, out
    # CaBuilder::new
    fn = "cert::CaBuilder::new"
    rep.fn(fn, "cert::EndEntityBuilder::new", "cert::CaBuilder::build", "cert::EndEntityBuilder::build", "cert::KeyPairAlgorithm::to_key_pair")
    I, out = muts_of(fn)
    assigns = {p[0]: core(p[1]).r() for t, k, p, n, f, c in I.muts if f == fn and k == "assign"}
    pushes = [core(p[0]).r().split("::")[-1].replace("{}", "") for t, k, p, n, f, c in I.muts if f == fn and k.endswith("Vec::push")]
    # `v.extend([a, b, c])` / `extend_from_slice(&[..])` with a literal list is the same three pushes
    from interp import ArrayV
    for t, k, p, n, f, c in I.muts:
        if f == fn and k.endswith(("::extend", "::extend_from_slice")) and p and isinstance(core(p[0]), ArrayV):
            pushes += [core(x).r().split("::")[-1].replace("{}", "") for x in core(p[0]).items]
    rep.ob("C18.builders", "%s|%s" % (cfg, fn), "Ca" in assigns.get(".is_ca", "") and "Unconstrained" in assigns.get(".is_ca", "") and {"KeyCertSign", "CrlSign"} <= set(pushes), "the CA is a CA (unconstrained) with certificate-signing and CRL-signing usage", found={"assign": assigns, "key_usages": pushes})
    fn = "cert::EndEntityBuilder::new"
    I, out = muts_of(fn)
    assigns = {p[0]: core(p[1]).r() for t, k, p, n, f, c in I.muts if f == fn and k == "assign"}
    ok = "NoCa" in assigns.get(".is_ca", "") and assigns.get(".use_authority_key_identifier_extension") == "True"
    rep.ob("C18.builders", "%s|%s" % (cfg, fn), ok, "the end entity is not a CA and requests an authority key identifier", found=assigns)
    # build(): fresh key of the selected algorithm; entity signed by the CA's cert and key
    fn = "cert::CaBuilder::build"
    I, out = muts_of(fn)
    ss = [(args) for cal, args, n, cond, f in I.calls if cal == "rcgen::CertificateParams::self_signed"]
    ok = len(ss) == 1 and core(ss[0][0]).r() == "self.params" and "to_key_pair" in core(ss[0][1]).r() and places(ss[0][1]) == {"self.alg"}
    lits = [sv for sv, node, f, c in I.structs if (sv.adt or "").endswith("cert::Ca")]
    okl = len(lits) == 1 and core(lits[0].fields["key_pair"]).r() == core(ss[0][1]).r() if ss else False
    rep.ob("C18.builders", "%s|%s" % (cfg, fn), ok and okl, "the CA certificate is self-signed with a freshly generated key of the selected algorithm, and that key is the one kept with it", found=[a.r()[:80] for a in ss[0]] if ss else None)
    fn = "cert::EndEntityBuilder::build"
    I, out = muts_of(fn)
    ss = [(args) for cal, args, n, cond, f in I.calls if cal == "rcgen::CertificateParams::signed_by"]
    ok = len(ss) == 1 and core(ss[0][0]).r() == "self.params" and places(ss[0][1]) == {"self.alg"} and core(ss[0][2]).r() == "issuer.cert" and core(ss[0][3]).r() == "issuer.key_pair"
    lits = [sv for sv, node, f, c in I.structs if (sv.adt or "").endswith("cert::EndEntity")]
    okl = len(lits) == 1 and ss and core(lits[0].fields["key_pair"]).r() == core(ss[0][1]).r()
    rep.ob("C18.builders", "%s|%s" % (cfg, fn), ok and okl, "the end-entity certificate is issued for a fresh key of the selected algorithm by the CA's certificate and the CA's key; the fresh key is kept with it", found=[a.r()[:80] for a in ss[0]] if ss else None)
    # to_key_pair table: the returned key, specialised for every variant of the option enum (whatever the shape of the
    # dispatch: one arm each, or a (document, algorithm) pair selected first and loaded once)
    from interp import specialise, variant_assignment
    fn = "cert::KeyPairAlgorithm::to_key_pair"
    I, out = muts_of(fn)
    v = out["value"]
    tab = {}
    adt = crate.adts.get("cert::KeyPairAlgorithm") or {}
    for var in [x["name"] for x in adt.get("variants", [])]:
        x = specialise(v, variant_assignment(v, "self", var))
        algs = sorted({r.split("::")[-1] for r in roots(x) if r.startswith("def:rcgen::PKCS_")})
        be = sorted({r.split("::")[-1] for r in roots(x) if r.startswith("def:") and "::signature::" in r})
        gens = sorted({c_.split("::")[-2] + "::" + c_.split("::")[-1] for c_ in calls_of(x) if "generate" in c_ and c_ not in I.inlined})
        tab[var] = (algs, be, gens)
    want = {
        "Rsa": (["PKCS_RSA_SHA256"], [], ["KeyPair::generate_for"]),
        "Ed25519": (["PKCS_ED25519"], [], ["Ed25519KeyPair::generate_pkcs8"]),
        "EcdsaP256": (["PKCS_ECDSA_P256_SHA256"], ["ECDSA_P256_SHA256_ASN1_SIGNING"], ["EcdsaKeyPair::generate_pkcs8"]),
        "EcdsaP384": (["PKCS_ECDSA_P384_SHA384"], ["ECDSA_P384_SHA384_ASN1_SIGNING"], ["EcdsaKeyPair::generate_pkcs8"]),
    }
    if cfg == "K5":
        want["EcdsaP521"] = (["PKCS_ECDSA_P521_SHA512"], ["ECDSA_P521_SHA512_ASN1_SIGNING"], ["EcdsaKeyPair::generate_pkcs8"])
    for k, w in want.items():
        g = tab.get(k)
        rep.ob("C18.builders", "%s|%s|%s" % (cfg, fn, k), g is not None and g[0] == w[0] and g[1] == w[1] and [x.split("::")[-1] for x in g[2]] == [x.split("::")[-1] for x in w[2]], "the option selects the rcgen algorithm and back-end constant of the same curve / scheme", expected=w, found=g)
    rep.ob("C18.builders", "%s|%s|variants" % (cfg, fn), set(tab) == set(want), "every offered key algorithm has an arm", expected=sorted(want), found=sorted(tab))
    tables[cfg] = {k: (v[0], v[1]) for k, v in tab.items()}
