"""Reference schemas transcribed from RFC 5280 / RFC 2986 / RFC 4055 (the oracles for the
schema rules).  Leaves bind schema positions to parameter places."""

OID_AKI = [2, 5, 29, 35]
OID_SKI = [2, 5, 29, 14]
OID_KU = [2, 5, 29, 15]
OID_SAN = [2, 5, 29, 17]
OID_BC = [2, 5, 29, 19]
OID_NC = [2, 5, 29, 30]
OID_CRLDP = [2, 5, 29, 31]
OID_EKU = [2, 5, 29, 37]
OID_CRL_NUMBER = [2, 5, 29, 20]
OID_CRL_REASON = [2, 5, 29, 21]
OID_INVALIDITY = [2, 5, 29, 24]
OID_IDP = [2, 5, 29, 28]
OID_EXT_REQ = [1, 2, 840, 113549, 1, 9, 14]
OID_MGF1 = [1, 2, 840, 113549, 1, 1, 8]


def Seq(c, **kw):
    return dict({"t": "Seq", "c": c}, **kw)


def Set(c):
    return {"t": "Set", "c": c}


def SetOf(c):
    return {"t": "SetOf", "c": c}


def Tagged(n, mode, c):
    return {"t": "Tagged", "n": n, "mode": mode, "c": c}


def Prim(kind, v=None, args=None, inner=None, **kw):
    d = {"t": "Prim", "kind": kind}
    if v is not None:
        d["v"] = v
    if args:
        d["args"] = args
    if inner is not None:
        d["inner"] = inner
    d.update(kw)
    return d


def Cond(f, c):
    return {"t": "Cond", "f": f, "c": c}


def Rep(over, c):
    return {"t": "Rep", "over": over, "c": c}


def Choice(on, alts, **kw):
    return dict({"t": "Choice", "on": on, "alts": alts}, **kw)


def Time(src):
    return {"t": "Time", "src": src}


def P(*places, **kw):
    return dict({"places": list(places)}, **kw)


def C(v):
    return {"const": v}


def name(dn):
    """Name ::= RDNSequence; one single-valued RDN per attribute, in iteration order."""
    it = "DistinguishedName::iter(%s)[]" % dn
    val = it + ".1"
    return Seq([Rep(dn, [Set([Seq([
        Prim("OID", P(dn, via=["DnType::to_oid"])),
        Choice(val, {
            "BmpString": [Tagged("TAG_BMPSTRING", "implicit", [Prim("OCTET STRING", P(dn, via=["BmpString::as_bytes"]))])],
            "Ia5String": [Prim("IA5String", P(dn))],
            # same bytes either way: the PrintableString writer, or the validated bytes under the PrintableString tag
            "PrintableString": [{"t": "OneOf", "alts": [
                [Tagged("TAG_PRINTABLESTRING", "implicit", [Prim("OCTET STRING", P(dn))])],
                [Prim("PrintableString", P(dn))]]}],
            "TeletexString": [Tagged("TAG_TELETEXSTRING", "implicit", [Prim("OCTET STRING", P(dn, via=["TeletexString::as_bytes"]))])],
            "UniversalString": [Tagged("TAG_UNIVERSALSTRING", "implicit", [Prim("OCTET STRING", P(dn, via=["UniversalString::as_bytes"]))])],
            "Utf8String": [Prim("UTF8String", P(dn))],
        }),
    ])])])])


def alg_params(alg, owner):
    p = alg + ".params"
    return Choice(p, {
        "None": [],
        "Null": [Prim("NULL")],
        "RsaPss": [Seq([
            Tagged(0, "explicit", [Seq([Prim("OID", P(owner))])]),
            Tagged(1, "explicit", [Seq([Prim("OID", C(OID_MGF1)), Seq([Prim("OID", P(owner)), Prim("NULL")])])]),
            Tagged(2, "explicit", [Prim("INTEGER", P(owner))]),
        ])],
    })


def alg_ident(alg, owner):
    """AlgorithmIdentifier of the *signature* algorithm (RFC 4055 / 5758 / 8410)."""
    # the signature OID: `alg.alg_ident_oid()`, or its body `ObjectIdentifier::from_slice(alg.oid_components)` written out
    return Seq([Prim("OID", P(owner, via_any=[["alg_ident_oid"], ["ObjectIdentifier::from_slice", ".oid_components"]])), alg_params(alg, owner)])


def spki(key):
    alg = "key_pair::PublicKeyData::algorithm(%s)" % key
    return Seq([
        Seq([Rep(key, [Prim("OID", P(key))]), alg_params(alg, key)]),
        Prim("BIT STRING", P(key, via=["der_bytes"]), args=[{"pred": _whole_bits}]),
    ])


def _whole_bits(v, I):
    """BIT STRING length argument must be len(bytes) * 8 of the same bytes."""
    from interp import core, OpV, Const, CallV
    v0 = core(v)
    if isinstance(v0, OpV) and v0.op == "*" and len(v0.args) == 2:
        a, b = core(v0.args[0]), core(v0.args[1])
        if isinstance(b, Const) and b.v == 8 and isinstance(a, CallV) and a.callee.endswith("len"):
            return None
        if isinstance(a, Const) and a.v == 8 and isinstance(b, CallV) and b.callee.endswith("len"):
            return None
    return "bit length is not `len * 8` of the written bytes"


def ext(oid, critical, inner):
    """Extension ::= SEQUENCE { extnID, critical BOOLEAN DEFAULT FALSE, extnValue OCTET STRING }"""
    c = [Prim("OID", C(oid))]
    if critical is True:
        c.append(Prim("BOOLEAN", C(True)))
    elif critical is not False:
        c.append(Cond(critical, [Prim("BOOLEAN", C(True))]))
    c.append(Prim("OCTET STRING", inner=inner))
    return Seq(c)


def general_names_uri(src_list):
    return Rep(src_list, [Tagged(6, "implicit", [Prim("IA5String", P(src_list))])])


def distribution_point_name(src_list):
    # distributionPoint [0] EXPLICIT (CHOICE) { fullName [0] IMPLICIT GeneralNames }
    return Tagged(0, "explicit", [Tagged(0, "implicit", [Seq([general_names_uri(src_list)])])])
