"""C15 - generation is a pure function of its inputs: deterministic and thread-safe."""
import re
import common
from common import CERT_FN, CSR_FN, CRL_FN, SIGN_DER
import c02
from interp import Interp

PROP = "C15"
CONFIGS_QUICK = ["K1", "K2", "K3"]
CONFIGS_THOROUGH = ["K1", "K2", "K3", "K0"]
EXPLANATION = (
    "Here the type system does most of the work and the rules establish its premises: (borrow) every generation entry point takes keys and "
    "issuer by shared reference and the parameters by `&self` or by value through a non-`mut` binding, and the crate forbids unsafe code - "
    "so, absent interior mutability, no input can be altered; (freeze) the parameter / artefact / name types are `Freeze` (no interior "
    "mutability, computed by rustc's own query), there is no `static mut` and every static is `Freeze`; (sync) KeyPair, Certificate, the "
    "parameter and artefact types are `Send + Sync` (rustc's trait solver, per cfg configuration); (nondet) the transitive call graph of "
    "the three to-be-signed writers - with the edge into KeyPair::sign removed - contains no hash-map iteration, clock, randomness, "
    "environment or thread-identity call (positive control: KeyPair::sign's graph does contain SystemRandom::new under a crypto back end); "
    "names are enumerated only through the insertion-order list (C20.iter); (report) the returned Certificate carries the unmodified input "
    "parameters (C02.report). Not decided: determinism of ECDSA signatures (not claimed by the property); interior mutability inside "
    "back-end key objects or a user's RemoteKeyPair implementation.")
ASSUMPTIONS = ["rustc's auto-trait and Freeze computation", "yasna/time/back-end digest functions are deterministic functions of their arguments"]

ENTRY = {
    "certificate::CertificateParams::signed_by": {"self": "val", "issuer": "&", "issuer_key": "&", "public_key": "&"},
    "certificate::CertificateParams::self_signed": {"self": "val", "key_pair": "&"},
    "certificate::CertificateParams::serialize_request": {"self": "&", "subject_key": "&"},
    CSR_FN: {"self": "&", "subject_key": "&"},
    "csr::CertificateSigningRequestParams::signed_by": {"self": "val", "issuer": "&", "issuer_key": "&"},
    "crl::CertificateRevocationListParams::signed_by": {"self": "val", "issuer": "&", "issuer_key": "&"},
    CERT_FN: {"self": "&", "pub_key": "&"},
    CRL_FN: {"self": "&"},
    SIGN_DER: {"self": "&"},
    "key_pair::KeyPair::sign": {"self": "&", "msg": "&"},
}
TYPES = ["certificate::CertificateParams", "certificate::Certificate", "crl::CertificateRevocationListParams", "crl::CertificateRevocationList",
         "csr::CertificateSigningRequestParams", "csr::CertificateSigningRequest", "DistinguishedName", "key_pair::KeyPair", "key_pair::SubjectPublicKeyInfo", "csr::PublicKey"]
NONDET = ("HashMap::iter", "HashMap::keys", "HashMap::values", "HashMap::into_iter", "HashMap::drain", "HashMap::iter_mut", "HashMap::values_mut", "hash_map::", "HashSet::iter", "HashSet::into_iter",
          "SystemTime::now", "Instant::now", "OffsetDateTime::now_utc", "OffsetDateTime::now_local", "SystemRandom", "rand::", "getrandom", "std::env::", "thread::current", "ThreadId", "RandomState::new", "std::process::id",
          "LocalKey", "thread_local", "OnceLock", "OnceCell", "LazyLock", "Mutex", "RwLock", "atomic::", "Cell::", "RefCell", "std::fs::", "std::net::Tcp", "std::net::Udp", "ToSocketAddrs", "hostname")


# any way of enumerating a hash container (method or trait form, by value / reference / draining)
HASH_ENUM = re.compile(r"Hash(Map|Set)\b.*\b(iter|iter_mut|keys|values|values_mut|into_iter|into_keys|into_values|drain|extract_if|retain|union|intersection|difference|symmetric_difference)\b")


def callgraph(crate, roots_, cut):
    """All callees (local bodies followed transitively through HIR call sites, closures included) reachable from roots_, not entering `cut`."""
    seen = set()
    callees = {}
    stack = list(roots_)
    while stack:
        fn = stack.pop()
        if fn in seen or fn in cut:
            continue
        seen.add(fn)
        b = crate.bodies.get(fn)
        if not b or "hir" not in b:
            continue
        for callee, n, ps in common.calls_in(b):
            for c in {callee, n.get("callee")}:
                if not c:
                    continue
                callees.setdefault(c, set()).add(fn)
                if c in crate.bodies and c not in seen:
                    stack.append(c)
        # a `for` loop (and the iterator adaptors) drive the local `Iterator::next` of the iterated type although no
        # call of it is written: enter the `next` of every local iterator type that this body names
        import re as _re
        for n in common.hir_walk(b["hir"]):
            tys = []
            if n.get("k") == "For":
                tys.append((n.get("iter") or {}).get("ty") or "")
            elif n.get("k") == "MethodCall":
                tys.append((n.get("recv") or {}).get("ty") or "")
                tys.append(n.get("ty") or "")
            for ty in tys:
                base = _re.sub(r"<.*$", "", ty.lstrip("&").replace("mut ", "").strip())
                if not base or "::" in base and base.split("::")[0] in ("std", "core", "alloc"):
                    continue
                for k in crate.bodies:
                    if k.endswith(" as std::iter::Iterator>::next") and k.startswith("<" + base) and k not in seen:
                        callees.setdefault(k, set()).add(fn)
                        stack.append(k)
        # generic trait calls on local impls (e.g. PublicKeyData::der_bytes): follow every local impl of the method
        for callee, n, ps in common.calls_in(b):
            base = (n.get("callee") or "")
            if base.startswith("key_pair::PublicKeyData::") or base.startswith("key_pair::RemoteKeyPair::"):
                m = base.split("::")[-1]
                for k in crate.bodies:
                    if k.endswith("::" + m) and ("PublicKeyData>" in k or "RemoteKeyPair>" in k):
                        stack.append(k)
    return seen, callees


def run(ctx):
    rep = ctx.rep
    for cfg in (CONFIGS_QUICK if ctx.tier == "quick" else CONFIGS_THOROUGH):
        crate = ctx.crate(cfg)
        rep.ob("C15.borrow", "%s|forbid-unsafe" % cfg, crate.raw.get("unsafe_code_level") == "Forbid", "#![forbid(unsafe_code)] is in force for the crate", found=crate.raw.get("unsafe_code_level"))
        # "identical complete output for deterministic signature schemes (Ed25519, RSA PKCS#1 v1.5)": the RSA rows of the
        # algorithm table carry the PKCS#1 v1.5 encodings (a PSS constant would randomise the signature)
        import c01
        common.borrow_rules(rep, lambda: c01.check_table(cfg, crate, rep), "C01.", "C15.table")
        n = 0
        for fn, want in ENTRY.items():
            b = crate.bodies.get(fn)
            if b is None:
                rep.fail("C15.borrow", "%s|%s" % (cfg, fn), "generation entry point not found")
                continue
            rep.fn(fn)
            for p in b.get("params", []):
                if p.get("k") != "Binding":
                    continue
                nm = p["name"]
                ty = p.get("ty", "")
                if nm in want:
                    n += 1
                    if want[nm] == "&":
                        # a shared reference, or a value the function owns and has no mutable binding for (`impl AsRef<[u8]>`)
                        ok = not ty.startswith("&mut") and (ty.startswith("&") or not p.get("mut"))
                    else:
                        ok = not ty.startswith("&mut") and not p.get("mut")
                    rep.ob("C15.borrow", "%s|%s|%s" % (cfg, fn, nm), ok, "input `%s` is taken by shared reference / by value without a mutable binding" % nm, found="%s%s" % ("mut " if p.get("mut") else "", ty))
                elif ty.startswith("&mut") and "DERWriter" not in ty:
                    rep.fail("C15.borrow", "%s|%s|%s" % (cfg, fn, nm), "a generation function takes a mutable reference", found=ty)
        rep.floor("C15.borrow", "entry point parameters (%s)" % cfg, n, 20)
        for t in TYPES:
            a = crate.adts.get(t)
            if a is None:
                rep.fail("C15.freeze", "%s|%s" % (cfg, t), "type not found")
                continue
            rep.ob("C15.freeze", "%s|%s" % (cfg, t), a.get("freeze") is True, "no interior mutability (Freeze)", found=a.get("freeze"))
            rep.ob("C15.sync", "%s|%s" % (cfg, t), a.get("send") is True and a.get("sync") is True, "Send + Sync", found=(a.get("send"), a.get("sync")))
        ns = 0
        for name, s in crate.statics.items():
            if common.is_test_fn(name):
                continue
            ns += 1
            rep.ob("C15.freeze", "%s|static|%s" % (cfg, name), not s.get("mutable") and s.get("freeze") is True, "static is immutable and Freeze", found=(s.get("mutable"), s.get("freeze")))
        rep.floor("C15.freeze", "statics (%s)" % cfg, ns, 8)
        # nondeterminism in the TBS call graph
        seen, callees = callgraph(crate, [CERT_FN, CSR_FN, CRL_FN, "certificate::CertificateParams::signed_by", "certificate::CertificateParams::self_signed", "csr::CertificateSigningRequestParams::signed_by", "crl::CertificateRevocationListParams::signed_by"], {"key_pair::KeyPair::sign"})
        bad = {c: sorted(v) for c, v in callees.items() if any(x in c for x in NONDET) or HASH_ENUM.search(c)}
        # a value whose type (transitively, through local types) holds a std hash map / set is never *formatted* on the
        # TBS call graph: its Debug / Display output enumerates the map in hash order
        import re as _re
        def _holds_hash(ty, depth=0, seen_=None):
            seen_ = seen_ if seen_ is not None else set()
            if _re.search(r"\bHash(Map|Set)<", ty or ""):
                return True
            if depth > 6:
                return False
            for nm in set(_re.findall(r"[A-Za-z_][\w:]*", ty or "")):
                a_ = crate.adts.get(nm)
                if a_ is None or nm in seen_:
                    continue
                seen_.add(nm)
                for v_ in a_.get("variants") or []:
                    for f_ in v_.get("fields") or []:
                        if _holds_hash(f_.get("ty") or "", depth + 1, seen_):
                            return True
            return False
        fmt_bad = []
        n_fmt = 0
        for fn_ in sorted(seen):
            b_ = crate.bodies.get(fn_)
            if not b_ or "hir" not in b_ or fn_ in crate.derived_fns:
                continue
            for nd in common.hir_walk(b_["hir"]):
                if nd.get("k") in ("Call", "MethodCall") and (str(nd.get("callee") or "").startswith(("core::fmt::rt::Argument::new_", "std::fmt::rt::Argument::new_")) or str(nd.get("callee") or "").endswith(("ToString::to_string", "fmt::Debug::fmt", "fmt::Display::fmt"))):
                    n_fmt += 1
                    tys = [t_ for t_ in (nd.get("targs") or []) if not t_.startswith("'")] or [((nd.get("recv") or (nd.get("args") or [{}])[0]) or {}).get("ty") or ""]
                    if any(_holds_hash(t_) for t_ in tys):
                        fmt_bad.append("%s formats %s" % (fn_, tys))
        rep.ob("C15.nondet", "%s|no-hash-ordered-rendering" % cfg, not fmt_bad, "nothing that holds a std HashMap / HashSet is formatted (Debug / Display / to_string) on the to-be-signed call graph", found=fmt_bad or "%d formatting calls examined" % n_fmt)
        rep.ob("C15.nondet", "%s|tbs-call-graph" % cfg, not bad, "no nondeterministic source (hash-order iteration, clock, randomness, environment, thread identity) is reachable from the to-be-signed writers", found=bad)
        rep.floor("C15.nondet", "functions in the TBS call graph (%s)" % cfg, len(seen), 25)
        if cfg != "K3":
            s2, c2 = callgraph(crate, ["key_pair::KeyPair::sign"], set())
            ctrl = [c for c in c2 if "SystemRandom" in c]
            rep.ob("C15.nondet", "%s|positive-control" % cfg, bool(ctrl), "the matcher recognises randomness where it exists (KeyPair::sign uses SystemRandom)", found=ctrl)
        rep.sample({"rule": "C15.nondet", "cfg": cfg, "functions": len(seen), "distinct_callees": len(callees)})
        # report
        if cfg in ("K1", "K2"):
            before = len(rep.obligations)
            c02.check_report(cfg, crate, rep)
            for o in rep.obligations[before:]:
                o["rule"] = "C15.report"
                o["key"] = o["key"].replace("C02.report", "C15.report")
