//! rcgen-facts: a rustc_private driver that exports the type-checked program
//! (typed HIR with resolved callees, reduced MIR CFGs, item tables) as JSON.
//!
//! Injected through RUSTC_WORKSPACE_WRAPPER under `cargo +nightly check`, so it
//! sees exactly the crate graph, features and cfgs cargo uses.  One JSON file
//! per workspace crate target is written into $RCGEN_FACTS_DIR (one write per
//! process).  Nothing in here is specific to a property: the rules live in
//! /verif/rules (Python) and read these facts.
#![feature(rustc_private)]
#![allow(unused)]

extern crate rustc_abi;
extern crate rustc_ast;
extern crate rustc_data_structures;
extern crate rustc_driver;
extern crate rustc_hir;
extern crate rustc_infer;
extern crate rustc_interface;
extern crate rustc_lint;
extern crate rustc_trait_selection;
extern crate rustc_middle;
extern crate rustc_session;
extern crate rustc_span;

mod json;
use json::J;

use rustc_driver::{Callbacks, Compilation};
use rustc_hir as hir;
use rustc_hir::def::{CtorOf, DefKind, Res};
use rustc_hir::def_id::{DefId, LocalDefId, LOCAL_CRATE};
use rustc_interface::interface::Compiler;
use rustc_middle::mir;
use rustc_middle::ty::print::with_no_trimmed_paths;
use rustc_middle::ty::{self, Ty, TyCtxt, TypeckResults};
use rustc_span::hygiene::ExpnKind;
use rustc_span::Span;

struct Cb;

impl Callbacks for Cb {
	fn after_analysis<'tcx>(&mut self, _c: &Compiler, tcx: TyCtxt<'tcx>) -> Compilation {
		if let Ok(dir) = std::env::var("RCGEN_FACTS_DIR") {
			let name = tcx.crate_name(LOCAL_CRATE).to_string();
			if name != "build_script_build" {
				emit(tcx, &dir, &name);
			}
		}
		Compilation::Continue
	}
}

fn main() {
	let mut args: Vec<String> = std::env::args().collect();
	// RUSTC_WORKSPACE_WRAPPER passes the real rustc as argv[1]
	if args.len() > 1 && !args[1].starts_with('-') && args[1].contains("rustc") {
		args.remove(1);
	}
	let mut cb = Cb;
	rustc_driver::run_compiler(&args, &mut cb);
}

// ---------------------------------------------------------------------------

fn dps(tcx: TyCtxt<'_>, did: DefId) -> String {
	with_no_trimmed_paths!(tcx.def_path_str(did))
}

fn tys(ty: Ty<'_>) -> String {
	with_no_trimmed_paths!(ty.to_string())
}

fn obj(v: Vec<(&str, J)>) -> J {
	J::Obj(v.into_iter().map(|(k, v)| (k.to_string(), v)).collect())
}
fn s(x: impl Into<String>) -> J {
	J::Str(x.into())
}

fn span_info(tcx: TyCtxt<'_>, sp: Span, out: &mut Vec<(&'static str, J)>) {
	let cs = sp.source_callsite();
	let sm = tcx.sess.source_map();
	let loc = sm.lookup_char_pos(cs.lo());
	let hi = sm.lookup_char_pos(cs.hi());
	out.push((
		"sp",
		s(format!(
			"{}:{}",
			loc.file.name.prefer_local_unconditionally(),
			loc.line
		)),
	));
	out.push(("col", J::Num(loc.col.0 as i128)));
	out.push(("eline", J::Num(hi.line as i128)));
	if sp.from_expansion() {
		let macs: Vec<J> = sp
			.macro_backtrace()
			.map(|d| match d.kind {
				ExpnKind::Macro(_, name) => s(name.to_string()),
				ExpnKind::Desugaring(k) => s(format!("desugar:{:?}", k)),
				ExpnKind::AstPass(p) => s(format!("astpass:{:?}", p)),
				ExpnKind::Root => s("root"),
			})
			.collect();
		out.push(("mac", J::Arr(macs)));
	}
}

// ---------------------------------------------------------------------------
// HIR serialisation

struct Cx<'a, 'tcx> {
	tcx: TyCtxt<'tcx>,
	tr: &'tcx TypeckResults<'tcx>,
	owner: LocalDefId,
	_p: std::marker::PhantomData<&'a ()>,
}

impl<'a, 'tcx> Cx<'a, 'tcx> {
	fn res(&self, res: Res) -> Vec<(&'static str, J)> {
		let tcx = self.tcx;
		let mut v = Vec::new();
		match res {
			Res::Local(hid) => {
				v.push(("res", s("local")));
				v.push(("hid", J::Num(hid.local_id.as_u32() as i128)));
				v.push(("name", s(tcx.hir_name(hid).to_string())));
			},
			Res::Def(kind, did) => {
				v.push(("res", s("def")));
				v.push(("dk", s(format!("{:?}", kind))));
				v.push(("def", s(dps(tcx, did))));
				if let DefKind::Ctor(..) = kind {
					// path of the variant / struct the ctor belongs to
					let parent = tcx.parent(did);
					v.push(("ctor_of", s(dps(tcx, parent))));
				}
			},
			Res::SelfCtor(impl_did) => {
				v.push(("res", s("selfctor")));
				let ty = tcx.type_of(impl_did).instantiate_identity().skip_norm_wip();
				v.push(("def", s(tys(ty))));
			},
			Res::SelfTyAlias { alias_to, .. } => {
				v.push(("res", s("selfty")));
				let ty = tcx.type_of(alias_to).instantiate_identity().skip_norm_wip();
				v.push(("def", s(tys(ty))));
			},
			Res::SelfTyParam { .. } => v.push(("res", s("selftyparam"))),
			Res::PrimTy(p) => {
				v.push(("res", s("prim")));
				v.push(("def", s(p.name_str())));
			},
			other => {
				v.push(("res", s(format!("{:?}", other))));
			},
		}
		v
	}

	fn qpath(&self, qp: &hir::QPath<'tcx>, hid: hir::HirId) -> Vec<(&'static str, J)> {
		let res = self.tr.qpath_res(qp, hid);
		let mut v = self.res(res);
		// the textual last segment, for readability of reports
		let seg = match qp {
			hir::QPath::Resolved(_, p) => p.segments.last().map(|s| s.ident.to_string()),
			hir::QPath::TypeRelative(_, seg) => Some(seg.ident.to_string()),
		};
		if let Some(seg) = seg {
			v.push(("seg", s(seg)));
		}
		// generic arguments of a path to an associated item (`Self::LABEL`, `T::OID`, `<T as Tr>::f`)
		if let Res::Def(DefKind::AssocConst { .. } | DefKind::AssocFn, _) = res {
			if !self.tr.node_args(hid).is_empty() {
				v.push(("targs", self.targs(hid)));
			}
		}
		v
	}

	fn instance(&self, did: DefId, hid: hir::HirId) -> Option<String> {
		let args = self.tr.node_args(hid);
		if self.tcx.generics_of(did).count() != args.len() {
			return None;
		}
		let env = ty::TypingEnv::post_analysis(self.tcx, self.owner.to_def_id());
		match ty::Instance::try_resolve(self.tcx, env, did, args) {
			Ok(Some(inst)) => {
				let id = inst.def_id();
				if id != did {
					Some(dps(self.tcx, id))
				} else {
					None
				}
			},
			_ => None,
		}
	}

	/// the generic arguments of a call, positionally (types spelt out, lifetimes as `'_`): together with the callee's
	/// `generics` names they let a consumer substitute `T` / `Self` inside generic and trait-provided bodies
	fn targs(&self, hid: hir::HirId) -> J {
		let args = self.tr.node_args(hid);
		J::Arr(
			args.iter()
				.map(|a| match a.as_type() {
					Some(t) => s(tys(t)),
					None => s("'_"),
				})
				.collect(),
		)
	}

	/// `x.into()` / `x.try_into()`: the `From` / `TryFrom` impl that core's blanket impl forwards to
	fn forwarded(&self, did: DefId, hid: hir::HirId) -> Option<String> {
		let args = self.tr.node_args(hid);
		if self.tcx.generics_of(did).count() != args.len() {
			return None;
		}
		let env = ty::TypingEnv::post_analysis(self.tcx, self.owner.to_def_id());
		blanket_forward(self.tcx, env, did, args)
	}

	fn adt_of(&self, ty: Ty<'tcx>) -> Option<String> {
		let mut t = ty;
		loop {
			match t.kind() {
				ty::Ref(_, inner, _) => t = *inner,
				ty::Adt(def, _) => {
					// peel Box
					if def.is_box() {
						t = t.boxed_ty().unwrap();
						continue;
					}
					return Some(dps(self.tcx, def.did()));
				},
				_ => return None,
			}
		}
	}

	fn lit(&self, lit: &hir::Lit, negated: bool) -> Vec<(&'static str, J)> {
		use rustc_ast::LitKind;
		let mut v = Vec::new();
		match lit.node {
			LitKind::Str(sym, _) => {
				v.push(("lk", s("str")));
				v.push(("v", s(sym.to_string())));
			},
			LitKind::ByteStr(ref b, _) | LitKind::CStr(ref b, _) => {
				v.push(("lk", s("bytestr")));
				v.push((
					"v",
					J::Arr(b.as_byte_str().iter().map(|x| J::Num(*x as i128)).collect()),
				));
			},
			LitKind::Byte(b) => {
				v.push(("lk", s("byte")));
				v.push(("v", J::Num(b as i128)));
			},
			LitKind::Char(c) => {
				v.push(("lk", s("char")));
				v.push(("v", J::Num(c as u32 as i128)));
			},
			LitKind::Int(n, _) => {
				v.push(("lk", s("int")));
				let n = n.get() as i128;
				v.push(("v", J::Num(if negated { -n } else { n })));
			},
			LitKind::Float(sym, _) => {
				v.push(("lk", s("float")));
				v.push(("v", s(sym.to_string())));
			},
			LitKind::Bool(b) => {
				v.push(("lk", s("bool")));
				v.push(("v", J::Bool(b)));
			},
			LitKind::Err(_) => v.push(("lk", s("err"))),
		}
		v
	}

	fn pat_expr(&self, pe: &hir::PatExpr<'tcx>) -> J {
		let mut v: Vec<(&'static str, J)> = Vec::new();
		match &pe.kind {
			hir::PatExprKind::Lit { lit, negated } => {
				v.push(("k", s("Lit")));
				v.extend(self.lit(lit, *negated));
			},
			hir::PatExprKind::Path(qp) => {
				v.push(("k", s("Path")));
				v.extend(self.qpath(qp, pe.hir_id));
			},
		}
		obj(v)
	}

	fn pat(&self, p: &hir::Pat<'tcx>) -> J {
		use hir::PatKind::*;
		let mut v: Vec<(&'static str, J)> = Vec::new();
		let ty = self.tr.pat_ty(p);
		match &p.kind {
			Missing => v.push(("k", s("Missing"))),
			Wild => v.push(("k", s("Wild"))),
			Binding(mode, hid, ident, sub) => {
				v.push(("k", s("Binding")));
				v.push(("name", s(ident.to_string())));
				v.push(("hid", J::Num(hid.local_id.as_u32() as i128)));
				v.push(("byref", J::Bool(!matches!(mode.0, hir::ByRef::No))));
				v.push(("mut", J::Bool(mode.1.is_mut())));
				if let Some(sub) = sub {
					v.push(("sub", self.pat(sub)));
				}
			},
			Struct(qp, fields, rest) => {
				v.push(("k", s("Struct")));
				v.extend(self.qpath(qp, p.hir_id));
				v.push((
					"fields",
					J::Arr(
						fields
							.iter()
							.map(|f| {
								obj(vec![
									("name", s(f.ident.to_string())),
									("pat", self.pat(f.pat)),
								])
							})
							.collect(),
					),
				));
				v.push(("rest", J::Bool(rest.is_some())));
			},
			TupleStruct(qp, pats, ddpos) => {
				v.push(("k", s("TupleStruct")));
				v.extend(self.qpath(qp, p.hir_id));
				v.push(("pats", J::Arr(pats.iter().map(|x| self.pat(x)).collect())));
				v.push(("rest", J::Bool(ddpos.as_opt_usize().is_some())));
			},
			Or(pats) => {
				v.push(("k", s("Or")));
				v.push(("pats", J::Arr(pats.iter().map(|x| self.pat(x)).collect())));
			},
			Never => v.push(("k", s("Never"))),
			Tuple(pats, ddpos) => {
				v.push(("k", s("Tuple")));
				v.push(("pats", J::Arr(pats.iter().map(|x| self.pat(x)).collect())));
				v.push(("rest", J::Bool(ddpos.as_opt_usize().is_some())));
			},
			Box(x) | Deref(x) => {
				v.push(("k", s("Deref")));
				v.push(("pat", self.pat(x)));
			},
			Ref(x, _, _) => {
				v.push(("k", s("Ref")));
				v.push(("pat", self.pat(x)));
			},
			Expr(pe) => {
				v.push(("k", s("Expr")));
				v.push(("e", self.pat_expr(pe)));
			},
			Guard(x, e) => {
				v.push(("k", s("Guard")));
				v.push(("pat", self.pat(x)));
				v.push(("cond", self.expr(e)));
			},
			Range(lo, hi, end) => {
				v.push(("k", s("Range")));
				v.push(("lo", lo.map(|x| self.pat_expr(x)).unwrap_or(J::Null)));
				v.push(("hi", hi.map(|x| self.pat_expr(x)).unwrap_or(J::Null)));
				v.push(("incl", J::Bool(matches!(end, hir::RangeEnd::Included))));
			},
			Slice(a, mid, b) => {
				v.push(("k", s("Slice")));
				v.push(("before", J::Arr(a.iter().map(|x| self.pat(x)).collect())));
				v.push(("mid", mid.map(|x| self.pat(x)).unwrap_or(J::Null)));
				v.push(("after", J::Arr(b.iter().map(|x| self.pat(x)).collect())));
			},
			Err(_) => v.push(("k", s("Err"))),
		}
		v.push(("ty", s(tys(ty))));
		obj(v)
	}

	fn block(&self, b: &hir::Block<'tcx>) -> J {
		let mut v: Vec<(&'static str, J)> = vec![("k", s("Block"))];
		if b.targeted_by_break {
			v.push(("bid", J::Num(b.hir_id.local_id.as_u32() as i128)));
		}
		let mut stmts = Vec::new();
		for st in b.stmts {
			match &st.kind {
				hir::StmtKind::Let(l) => {
					let mut sv: Vec<(&'static str, J)> = vec![("k", s("Let"))];
					sv.push(("pat", self.pat(l.pat)));
					sv.push(("init", l.init.map(|e| self.expr(e)).unwrap_or(J::Null)));
					sv.push(("els", l.els.map(|b| self.block(b)).unwrap_or(J::Null)));
					span_info(self.tcx, st.span, &mut sv);
					stmts.push(obj(sv));
				},
				hir::StmtKind::Item(_) => {},
				hir::StmtKind::Expr(e) => {
					stmts.push(obj(vec![("k", s("Expr")), ("e", self.expr(e))]));
				},
				hir::StmtKind::Semi(e) => {
					stmts.push(obj(vec![("k", s("Semi")), ("e", self.expr(e))]));
				},
			}
		}
		v.push(("stmts", J::Arr(stmts)));
		v.push(("expr", b.expr.map(|e| self.expr(e)).unwrap_or(J::Null)));
		span_info(self.tcx, b.span, &mut v);
		obj(v)
	}

	fn strip<'b>(&self, e: &'b hir::Expr<'tcx>) -> &'b hir::Expr<'tcx> {
		let mut e = e;
		loop {
			match &e.kind {
				hir::ExprKind::DropTemps(x) | hir::ExprKind::Use(x, _) | hir::ExprKind::Type(x, _) => {
					e = x
				},
				_ => return e,
			}
		}
	}

	/// `?`: match Try::branch(e) {...} with MatchSource::TryDesugar
	fn try_inner<'b>(&self, scrut: &'b hir::Expr<'tcx>) -> Option<&'b hir::Expr<'tcx>> {
		if let hir::ExprKind::Call(_, args) = &self.strip(scrut).kind {
			if args.len() == 1 {
				return Some(&args[0]);
			}
		}
		None
	}

	/// for loops: match IntoIterator::into_iter(it) { mut iter => loop { match next(&mut iter) { None => break, Some(pat) => body } } }
	fn for_parts<'b>(
		&self,
		scrut: &'b hir::Expr<'tcx>,
		arms: &'b [hir::Arm<'tcx>],
	) -> Option<(&'b hir::Pat<'tcx>, &'b hir::Expr<'tcx>, &'b hir::Expr<'tcx>)> {
		let iter = match &self.strip(scrut).kind {
			hir::ExprKind::Call(_, args) if args.len() == 1 => &args[0],
			_ => return None,
		};
		if arms.len() != 1 {
			return None;
		}
		let lp = match &self.strip(arms[0].body).kind {
			hir::ExprKind::Loop(b, _, hir::LoopSource::ForLoop, _) => b,
			_ => return None,
		};
		let inner = match (lp.stmts.len(), lp.expr) {
			(1, None) => match &lp.stmts[0].kind {
				hir::StmtKind::Expr(e) | hir::StmtKind::Semi(e) => self.strip(e),
				_ => return None,
			},
			(0, Some(e)) => self.strip(e),
			_ => return None,
		};
		if let hir::ExprKind::Match(_, iarms, hir::MatchSource::ForLoopDesugar) = &inner.kind {
			if iarms.len() == 2 {
				// the Some(pat) arm
				for a in iarms.iter() {
					if let hir::PatKind::TupleStruct(_, pats, _) = &a.pat.kind {
						if pats.len() == 1 {
							return Some((&pats[0], iter, a.body));
						}
					}
					if let hir::PatKind::Struct(_, fields, _) = &a.pat.kind {
						if fields.len() == 1 {
							return Some((fields[0].pat, iter, a.body));
						}
					}
				}
			}
		}
		None
	}

	fn expr(&self, e: &hir::Expr<'tcx>) -> J {
		use hir::ExprKind::*;
		let tcx = self.tcx;
		let mut v: Vec<(&'static str, J)> = Vec::new();
		match &e.kind {
			DropTemps(x) | Use(x, _) | Type(x, _) => return self.expr(x),
			ConstBlock(cb) => {
				v.push(("k", s("ConstBlock")));
				let body = tcx.hir_body(cb.body);
				// const blocks have their own typeck results
				let tr = tcx.typeck_body(cb.body);
				let cx = Cx { tcx, tr, owner: cb.def_id, _p: std::marker::PhantomData };
				v.push(("e", cx.expr(body.value)));
			},
			Array(es) => {
				v.push(("k", s("Array")));
				v.push(("es", J::Arr(es.iter().map(|x| self.expr(x)).collect())));
			},
			Call(f, args) => {
				v.push(("k", s("Call")));
				let f0 = self.strip(f);
				if let Path(qp) = &f0.kind {
					let res = self.tr.qpath_res(qp, f0.hir_id);
					match res {
						Res::Def(kind, did) => {
							v.push(("callee", s(dps(tcx, did))));
							v.push(("dk", s(format!("{:?}", kind))));
							if let DefKind::Ctor(..) = kind {
								v.push(("ctor_of", s(dps(tcx, tcx.parent(did)))));
							}
							if matches!(kind, DefKind::AssocFn | DefKind::Fn) {
								if let Some(i) = self.instance(did, f0.hir_id) {
									v.push(("inst", s(i)));
								}
								if let Some(fw) = self.forwarded(did, f0.hir_id) {
									v.push(("fwd", s(fw)));
								}
								if !self.tr.node_args(f0.hir_id).is_empty() {
									v.push(("targs", self.targs(f0.hir_id)));
								}
							}
						},
						Res::SelfCtor(impl_did) => {
							let ty = tcx.type_of(impl_did).instantiate_identity().skip_norm_wip();
							v.push(("callee", s(tys(ty))));
							v.push(("dk", s("SelfCtor")));
							v.push(("ctor_of", s(tys(ty))));
						},
						_ => {},
					}
				}
				v.push(("f", self.expr(f)));
				v.push(("args", J::Arr(args.iter().map(|x| self.expr(x)).collect())));
			},
			MethodCall(seg, recv, args, _) => {
				v.push(("k", s("MethodCall")));
				v.push(("name", s(seg.ident.to_string())));
				if let Some(did) = self.tr.type_dependent_def_id(e.hir_id) {
					v.push(("callee", s(dps(tcx, did))));
					if let Some(i) = self.instance(did, e.hir_id) {
						v.push(("inst", s(i)));
					}
					if let Some(fw) = self.forwarded(did, e.hir_id) {
						v.push(("fwd", s(fw)));
					}
					if !self.tr.node_args(e.hir_id).is_empty() {
						v.push(("targs", self.targs(e.hir_id)));
					}
				}
				v.push(("recv", self.expr(recv)));
				v.push(("args", J::Arr(args.iter().map(|x| self.expr(x)).collect())));
			},
			Tup(es) => {
				v.push(("k", s("Tup")));
				v.push(("es", J::Arr(es.iter().map(|x| self.expr(x)).collect())));
			},
			Binary(op, l, r) => {
				v.push(("k", s("Binary")));
				v.push(("op", s(op.node.as_str())));
				if let Some(did) = self.tr.type_dependent_def_id(e.hir_id) {
					v.push(("callee", s(dps(tcx, did))));
					if let Some(i) = self.instance(did, e.hir_id) {
						v.push(("inst", s(i)));
					}
				}
				v.push(("l", self.expr(l)));
				v.push(("r", self.expr(r)));
			},
			Unary(op, x) => {
				v.push(("k", s("Unary")));
				v.push(("op", s(op.as_str())));
				v.push(("e", self.expr(x)));
			},
			Lit(l) => {
				v.push(("k", s("Lit")));
				v.extend(self.lit(l, false));
			},
			Cast(x, _) => {
				v.push(("k", s("Cast")));
				v.push(("e", self.expr(x)));
			},
			Let(l) => {
				v.push(("k", s("LetCond")));
				v.push(("pat", self.pat(l.pat)));
				v.push(("init", self.expr(l.init)));
			},
			If(c, t, el) => {
				v.push(("k", s("If")));
				v.push(("c", self.expr(c)));
				v.push(("t", self.expr(t)));
				v.push(("e", el.map(|x| self.expr(x)).unwrap_or(J::Null)));
			},
			Loop(b, _, src, _) => {
				v.push(("k", s("Loop")));
				v.push(("src", s(format!("{:?}", src))));
				v.push(("body", self.block(b)));
			},
			Match(scrut, arms, src) => {
				let mut done = false;
				match src {
					hir::MatchSource::TryDesugar(_) => {
						if let Some(inner) = self.try_inner(scrut) {
							v.push(("k", s("Try")));
							v.push(("e", self.expr(inner)));
							done = true;
						}
					},
					hir::MatchSource::ForLoopDesugar => {
						if let Some((pat, iter, body)) = self.for_parts(scrut, arms) {
							v.push(("k", s("For")));
							v.push(("pat", self.pat(pat)));
							v.push(("iter", self.expr(iter)));
							v.push(("body", self.expr(body)));
							done = true;
						}
					},
					_ => {},
				}
				if !done {
					v.push(("k", s("Match")));
					v.push(("src", s(format!("{:?}", src))));
					v.push(("scrut", self.expr(scrut)));
					v.push((
						"arms",
						J::Arr(
							arms.iter()
								.map(|a| {
									let mut av: Vec<(&'static str, J)> = vec![
										("pat", self.pat(a.pat)),
										("guard", a.guard.map(|g| self.expr(g)).unwrap_or(J::Null)),
										("body", self.expr(a.body)),
									];
									span_info(tcx, a.span, &mut av);
									obj(av)
								})
								.collect(),
						),
					));
				}
			},
			Closure(c) => {
				v.push(("k", s("Closure")));
				v.push(("def", s(dps(tcx, c.def_id.to_def_id()))));
				let body = tcx.hir_body(c.body);
				v.push((
					"params",
					J::Arr(body.params.iter().map(|p| self.pat(p.pat)).collect()),
				));
				v.push(("body", self.expr(body.value)));
			},
			Block(b, _) => {
				return self.block_with_ty(b, e);
			},
			Assign(l, r, _) => {
				v.push(("k", s("Assign")));
				v.push(("l", self.expr(l)));
				v.push(("r", self.expr(r)));
			},
			AssignOp(op, l, r) => {
				v.push(("k", s("AssignOp")));
				v.push(("op", s(op.node.as_str())));
				v.push(("l", self.expr(l)));
				v.push(("r", self.expr(r)));
			},
			Field(base, ident) => {
				v.push(("k", s("Field")));
				v.push(("name", s(ident.to_string())));
				let bty = self.tr.expr_ty_adjusted(base);
				if let Some(a) = self.adt_of(bty) {
					v.push(("adt", s(a)));
				}
				v.push(("base", self.expr(base)));
			},
			Index(b, i, _) => {
				v.push(("k", s("Index")));
				if let Some(did) = self.tr.type_dependent_def_id(e.hir_id) {
					v.push(("callee", s(dps(tcx, did))));
				}
				v.push(("base", self.expr(b)));
				v.push(("idx", self.expr(i)));
			},
			Path(qp) => {
				v.push(("k", s("Path")));
				v.extend(self.qpath(qp, e.hir_id));
			},
			AddrOf(_, m, x) => {
				v.push(("k", s("AddrOf")));
				v.push(("mut", J::Bool(m.is_mut())));
				v.push(("e", self.expr(x)));
			},
			Break(dest, x) => {
				v.push(("k", s("Break")));
				v.push(("e", x.map(|x| self.expr(x)).unwrap_or(J::Null)));
				if let Ok(t) = dest.target_id {
					v.push(("target", J::Num(t.local_id.as_u32() as i128)));
				}
			},
			Continue(dest) => {
				v.push(("k", s("Continue")));
				if let Ok(t) = dest.target_id {
					v.push(("target", J::Num(t.local_id.as_u32() as i128)));
				}
			},
			Ret(x) => {
				v.push(("k", s("Ret")));
				v.push(("e", x.map(|x| self.expr(x)).unwrap_or(J::Null)));
			},
			Become(x) => {
				v.push(("k", s("Become")));
				v.push(("e", self.expr(x)));
			},
			Struct(qp, fields, tail) => {
				v.push(("k", s("Struct")));
				v.extend(self.qpath(qp, e.hir_id));
				if let Some(a) = self.adt_of(self.tr.expr_ty(e)) {
					v.push(("adt", s(a)));
				}
				v.push((
					"fields",
					J::Arr(
						fields
							.iter()
							.map(|f| {
								obj(vec![
									("name", s(f.ident.to_string())),
									("e", self.expr(f.expr)),
									("shorthand", J::Bool(f.is_shorthand)),
								])
							})
							.collect(),
					),
				));
				match tail {
					hir::StructTailExpr::Base(b) => v.push(("base", self.expr(b))),
					_ => v.push(("base", J::Null)),
				}
			},
			Repeat(x, _) => {
				v.push(("k", s("Repeat")));
				v.push(("e", self.expr(x)));
			},
			Yield(x, _) => {
				v.push(("k", s("Yield")));
				v.push(("e", self.expr(x)));
			},
			InlineAsm(_) => v.push(("k", s("InlineAsm"))),
			OffsetOf(..) => v.push(("k", s("OffsetOf"))),
			UnsafeBinderCast(_, x, _) => {
				v.push(("k", s("UnsafeBinderCast")));
				v.push(("e", self.expr(x)));
			},
			Err(_) => v.push(("k", s("Err"))),
		}
		self.finish(e, v)
	}

	fn finish(&self, e: &hir::Expr<'tcx>, mut v: Vec<(&'static str, J)>) -> J {
		let ty = self.tr.expr_ty(e);
		v.push(("ty", s(tys(ty))));
		let aty = self.tr.expr_ty_adjusted(e);
		if aty != ty {
			v.push(("aty", s(tys(aty))));
		}
		v.push(("id", J::Num(e.hir_id.local_id.as_u32() as i128)));
		span_info(self.tcx, e.span, &mut v);
		obj(v)
	}

	fn block_with_ty(&self, b: &hir::Block<'tcx>, e: &hir::Expr<'tcx>) -> J {
		let blk = self.block(b);
		if let J::Obj(mut fields) = blk {
			fields.push(("ty".to_string(), s(tys(self.tr.expr_ty(e)))));
			fields.push(("id".to_string(), J::Num(e.hir_id.local_id.as_u32() as i128)));
			J::Obj(fields)
		} else {
			blk
		}
	}
}

// ---------------------------------------------------------------------------
// MIR serialisation (reduced CFG)

fn mir_body<'tcx>(tcx: TyCtxt<'tcx>, ldid: LocalDefId, body: &mir::Body<'tcx>) -> J {
	use mir::TerminatorKind as T;
	let env = ty::TypingEnv::post_analysis(tcx, ldid.to_def_id());
	let mut blocks = Vec::new();
	for (bb, data) in body.basic_blocks.iter_enumerated() {
		let mut bv: Vec<(&'static str, J)> = Vec::new();
		bv.push(("id", J::Num(bb.as_usize() as i128)));
		bv.push(("cleanup", J::Bool(data.is_cleanup)));
		let stmts: Vec<J> = data
			.statements
			.iter()
			.filter(|st| {
				!matches!(
					st.kind,
					mir::StatementKind::StorageLive(_)
						| mir::StatementKind::StorageDead(_)
						| mir::StatementKind::Nop
						| mir::StatementKind::FakeRead(..)
						| mir::StatementKind::Coverage(..)
						| mir::StatementKind::ConstEvalCounter
				)
			})
			.map(|st| {
				let mut sv: Vec<(&'static str, J)> =
					vec![("s", s(with_no_trimmed_paths!(format!("{:?}", st))))];
				span_info(tcx, st.source_info.span, &mut sv);
				obj(sv)
			})
			.collect();
		bv.push(("stmts", J::Arr(stmts)));
		let term = data.terminator();
		let mut tv: Vec<(&'static str, J)> = Vec::new();
		let mut succ: Vec<usize> = Vec::new();
		match &term.kind {
			T::Goto { target } => {
				tv.push(("k", s("Goto")));
				succ.push(target.as_usize());
			},
			T::SwitchInt { discr, targets } => {
				tv.push(("k", s("SwitchInt")));
				tv.push(("discr", s(with_no_trimmed_paths!(format!("{:?}", discr)))));
				let mut vals = Vec::new();
				for (val, tgt) in targets.iter() {
					vals.push(J::Arr(vec![J::Num(val as i128), J::Num(tgt.as_usize() as i128)]));
					succ.push(tgt.as_usize());
				}
				tv.push(("vals", J::Arr(vals)));
				tv.push(("otherwise", J::Num(targets.otherwise().as_usize() as i128)));
				succ.push(targets.otherwise().as_usize());
			},
			T::Return => tv.push(("k", s("Return"))),
			T::Unreachable => tv.push(("k", s("Unreachable"))),
			T::UnwindResume => tv.push(("k", s("UnwindResume"))),
			T::UnwindTerminate(_) => tv.push(("k", s("UnwindTerminate"))),
			T::Drop { place, target, .. } => {
				tv.push(("k", s("Drop")));
				tv.push(("place", s(format!("{:?}", place))));
				succ.push(target.as_usize());
			},
			T::Call { func, args, destination, target, .. } => {
				tv.push(("k", s("Call")));
				if let Some((did, gargs)) = func.const_fn_def() {
					tv.push(("callee", s(dps(tcx, did))));
					if let Ok(Some(inst)) = ty::Instance::try_resolve(tcx, env, did, gargs) {
						let id = inst.def_id();
						if id != did {
							tv.push(("inst", s(dps(tcx, id))));
						}
					}
					// `x.into()` / `x.try_into()` resolve to core's blanket impls; name the From / TryFrom
					// impl they forward to, so that the call graph sees through them
					if let Some(fwd) = blanket_forward(tcx, env, did, gargs) {
						tv.push(("fwd", s(fwd)));
					}
				} else {
					tv.push(("callee_op", s(with_no_trimmed_paths!(format!("{:?}", func)))));
				}
				tv.push((
					"args",
					J::Arr(
						args.iter()
							.map(|a| s(with_no_trimmed_paths!(format!("{:?}", a.node))))
							.collect(),
					),
				));
				tv.push(("dest", s(format!("{:?}", destination))));
				if let Some(t) = target {
					succ.push(t.as_usize());
				}
			},
			T::TailCall { func, .. } => {
				tv.push(("k", s("TailCall")));
				if let Some((did, _)) = func.const_fn_def() {
					tv.push(("callee", s(dps(tcx, did))));
				}
			},
			T::Assert { cond, expected, msg, target, .. } => {
				tv.push(("k", s("Assert")));
				tv.push(("cond", s(format!("{:?}", cond))));
				tv.push(("expected", J::Bool(*expected)));
				let kind = match &**msg {
					mir::AssertKind::BoundsCheck { .. } => "BoundsCheck".to_string(),
					mir::AssertKind::Overflow(op, ..) => format!("Overflow({:?})", op),
					mir::AssertKind::OverflowNeg(_) => "OverflowNeg".to_string(),
					mir::AssertKind::DivisionByZero(_) => "DivisionByZero".to_string(),
					mir::AssertKind::RemainderByZero(_) => "RemainderByZero".to_string(),
					other => format!("{:?}", std::mem::discriminant(other)),
				};
				tv.push(("assert", s(kind)));
				tv.push(("msg", s(with_no_trimmed_paths!(format!("{:?}", msg)))));
				succ.push(target.as_usize());
			},
			T::FalseEdge { real_target, .. } => {
				tv.push(("k", s("FalseEdge")));
				succ.push(real_target.as_usize());
			},
			T::FalseUnwind { real_target, .. } => {
				tv.push(("k", s("FalseUnwind")));
				succ.push(real_target.as_usize());
			},
			other => {
				tv.push(("k", s(format!("Other:{:?}", std::mem::discriminant(other)))));
			},
		}
		span_info(tcx, term.source_info.span, &mut tv);
		tv.push(("succ", J::Arr(succ.into_iter().map(|x| J::Num(x as i128)).collect())));
		bv.push(("term", obj(tv)));
		blocks.push(obj(bv));
	}
	let mut locals = Vec::new();
	for vdi in body.var_debug_info.iter() {
		locals.push(obj(vec![
			("name", s(vdi.name.to_string())),
			("value", s(with_no_trimmed_paths!(format!("{:?}", vdi.value)))),
		]));
	}
	let mut v: Vec<(&'static str, J)> = vec![
		("blocks", J::Arr(blocks)),
		("locals", J::Arr(locals)),
		("arg_count", J::Num(body.arg_count as i128)),
	];
	let ltys: Vec<J> = body.local_decls.iter().map(|d| s(tys(d.ty))).collect();
	v.push(("local_tys", J::Arr(ltys)));
	if tcx.is_closure_like(ldid.to_def_id()) {
		let caps: Vec<J> = tcx
			.closure_captures(ldid)
			.iter()
			.map(|c| s(with_no_trimmed_paths!(c.to_string(tcx))))
			.collect();
		v.push(("captures", J::Arr(caps)));
	}
	obj(v)
}

// ---------------------------------------------------------------------------

fn vis_str(tcx: TyCtxt<'_>, vis: ty::Visibility<DefId>) -> String {
	match vis {
		ty::Visibility::Public => "pub".to_string(),
		ty::Visibility::Restricted(m) => {
			if m.is_crate_root() {
				"crate".to_string()
			} else {
				format!("in:{}", dps(tcx, m))
			}
		},
	}
}

fn doc_of(tcx: TyCtxt<'_>, ldid: LocalDefId) -> String {
	use rustc_ast::attr::AttributeExt;
	let hid = tcx.local_def_id_to_hir_id(ldid);
	let mut out = String::new();
	for a in tcx.hir_attrs(hid) {
		if let Some(d) = a.doc_str() {
			out.push_str(d.as_str());
			out.push('\n');
		}
	}
	out
}

fn emit(tcx: TyCtxt<'_>, dir: &str, name: &str) {
	let kind = {
		let cts = tcx.crate_types();
		let is_test = tcx.sess.opts.test;
		let k = if cts.iter().any(|c| matches!(c, rustc_session::config::CrateType::Executable)) {
			"bin"
		} else {
			"lib"
		};
		if is_test {
			format!("{}-test", k)
		} else {
			k.to_string()
		}
	};
	let mut top: Vec<(&'static str, J)> = Vec::new();
	top.push(("crate", s(name)));
	top.push(("kind", s(kind.clone())));
	top.push(("config", s(std::env::var("RCGEN_FACTS_CONFIG").unwrap_or_default())));
	top.push(("tree_hash", s(std::env::var("RCGEN_FACTS_TREE_HASH").unwrap_or_default())));

	// crate-level lint: forbid(unsafe_code)
	{
		let store = rustc_lint::unerased_lint_store(tcx.sess);
		let lvl = match store.find_lints("unsafe_code") {
			Some(ids) if !ids.is_empty() => {
				format!("{:?}", tcx.lint_level_at_node(ids[0].lint, hir::CRATE_HIR_ID).level)
			},
			_ => "unknown".to_string(),
		};
		top.push(("unsafe_code_level", s(lvl)));
	}

	let eff = tcx.effective_visibilities(());
	let mut adts = Vec::new();
	let mut fns = Vec::new();
	let mut statics = Vec::new();
	let mut consts = Vec::new();
	let mut impls = Vec::new();
	let mut traits = Vec::new();

	for ldid in tcx.hir_crate_items(()).definitions() {
		let did = ldid.to_def_id();
		let dk = tcx.def_kind(did);
		match dk {
			DefKind::Struct | DefKind::Enum | DefKind::Union => {
				let adt = tcx.adt_def(did);
				let mut variants = Vec::new();
				for (idx, var) in adt.variants().iter_enumerated() {
					let mut fields = Vec::new();
					for f in var.fields.iter() {
						let fty = tcx.type_of(f.did).instantiate_identity().skip_norm_wip();
						fields.push(obj(vec![
							("name", s(f.name.to_string())),
							("vis", s(vis_str(tcx, f.vis))),
							("ty", s(tys(fty))),
						]));
					}
					let mut vv: Vec<(&'static str, J)> = vec![
						("name", s(var.name.to_string())),
						("def", s(dps(tcx, var.def_id))),
						("fields", J::Arr(fields)),
						("ctor", s(format!("{:?}", var.ctor_kind()))),
						("non_exhaustive", J::Bool(var.is_field_list_non_exhaustive())),
					];
					if adt.is_enum() {
						let d = adt.discriminant_for_variant(tcx, idx);
						vv.push(("discr", J::Num(d.val as i128)));
					}
					variants.push(obj(vv));
				}
				let mut av: Vec<(&'static str, J)> = vec![
					("def", s(dps(tcx, did))),
					("kind", s(format!("{:?}", dk))),
					("vis", s(vis_str(tcx, tcx.visibility(did)))),
					("reachable", J::Bool(eff.is_reachable(ldid))),
					("non_exhaustive", J::Bool(adt.is_variant_list_non_exhaustive())),
					("variants", J::Arr(variants)),
				];
				let ty = tcx.type_of(did).instantiate_identity().skip_norm_wip();
				let env = ty::TypingEnv::post_analysis(tcx, did);
				if tcx.generics_of(did).is_empty() {
					av.push(("freeze", J::Bool(ty.is_freeze(tcx, env))));
					// auto traits: Send / Sync (type-level witness for thread-safety claims)
					use rustc_infer::infer::TyCtxtInferExt;
					use rustc_trait_selection::infer::InferCtxtExt;
					let (infcx, penv) = tcx.infer_ctxt().build_with_typing_env(env);
					if let Some(send) = tcx.get_diagnostic_item(rustc_span::sym::Send) {
						av.push(("send", J::Bool(infcx.type_implements_trait(send, [ty], penv).must_apply_modulo_regions())));
					}
					if let Some(sync) = tcx.lang_items().sync_trait() {
						av.push(("sync", J::Bool(infcx.type_implements_trait(sync, [ty], penv).must_apply_modulo_regions())));
					}
				}
				span_info(tcx, tcx.def_span(did), &mut av);
				adts.push(obj(av));
			},
			DefKind::Fn | DefKind::AssocFn => {
				let sig = tcx.fn_sig(did).instantiate_identity().skip_norm_wip().skip_binder();
				let mut fv: Vec<(&'static str, J)> = vec![
					("def", s(dps(tcx, did))),
					("kind", s(format!("{:?}", dk))),
					("vis", s(vis_str(tcx, tcx.visibility(did)))),
					("reachable", J::Bool(eff.is_reachable(ldid))),
					("inputs", J::Arr(sig.inputs().iter().map(|t| s(tys(*t))).collect())),
					("output", s(tys(sig.output()))),
					("doc", s(doc_of(tcx, ldid))),
				];
				if dk == DefKind::AssocFn {
					let parent = tcx.parent(did);
					fv.push(("parent", s(dps(tcx, parent))));
					fv.push(("parent_kind", s(format!("{:?}", tcx.def_kind(parent)))));
					if let DefKind::Impl { of_trait } = tcx.def_kind(parent) {
						let sty = tcx.type_of(parent).instantiate_identity().skip_norm_wip();
						fv.push(("self_ty", s(tys(sty))));
						if of_trait {
							let tr = tcx.impl_trait_ref(parent).instantiate_identity().skip_norm_wip();
							fv.push(("trait", s(dps(tcx, tr.def_id))));
						}
					}
				}
				span_info(tcx, tcx.def_span(did), &mut fv);
				fns.push(obj(fv));
			},
			DefKind::Static { .. } => {
				let ty = tcx.type_of(did).instantiate_identity().skip_norm_wip();
				let env = ty::TypingEnv::post_analysis(tcx, did);
				let mut sv: Vec<(&'static str, J)> = vec![
					("def", s(dps(tcx, did))),
					("vis", s(vis_str(tcx, tcx.visibility(did)))),
					("reachable", J::Bool(eff.is_reachable(ldid))),
					("mutable", J::Bool(tcx.is_mutable_static(did))),
					("ty", s(tys(ty))),
					("freeze", J::Bool(ty.is_freeze(tcx, env))),
				];
				span_info(tcx, tcx.def_span(did), &mut sv);
				statics.push(obj(sv));
			},
			DefKind::Const { .. } | DefKind::AssocConst { .. } => {
				let ty = tcx.type_of(did).instantiate_identity().skip_norm_wip();
				let mut cv: Vec<(&'static str, J)> = vec![
					("def", s(dps(tcx, did))),
					("vis", s(vis_str(tcx, tcx.visibility(did)))),
					("ty", s(tys(ty))),
				];
				span_info(tcx, tcx.def_span(did), &mut cv);
				consts.push(obj(cv));
			},
			DefKind::Impl { of_trait } => {
				let sty = tcx.type_of(did).instantiate_identity().skip_norm_wip();
				let mut iv: Vec<(&'static str, J)> = vec![
					("def", s(dps(tcx, did))),
					("self_ty", s(tys(sty))),
					("derived", J::Bool(tcx.is_automatically_derived(did))),
				];
				if let Some(a) = (match sty.kind() {
					ty::Adt(d, _) => Some(dps(tcx, d.did())),
					_ => None,
				}) {
					iv.push(("self_adt", s(a)));
				}
				if of_trait {
					let tr = tcx.impl_trait_ref(did).instantiate_identity().skip_norm_wip();
					iv.push(("trait", s(dps(tcx, tr.def_id))));
					iv.push(("trait_ref", s(with_no_trimmed_paths!(tr.to_string()))));
				}
				let items: Vec<J> = tcx
					.associated_item_def_ids(did)
					.iter()
					.map(|d| s(dps(tcx, *d)))
					.collect();
				iv.push(("items", J::Arr(items)));
				span_info(tcx, tcx.def_span(did), &mut iv);
				impls.push(obj(iv));
			},
			DefKind::Trait => {
				let items: Vec<J> = tcx
					.associated_item_def_ids(did)
					.iter()
					.map(|d| s(dps(tcx, *d)))
					.collect();
				traits.push(obj(vec![
					("def", s(dps(tcx, did))),
					("vis", s(vis_str(tcx, tcx.visibility(did)))),
					("items", J::Arr(items)),
				]));
			},
			_ => {},
		}
	}
	top.push(("adts", J::Arr(adts)));
	top.push(("fns", J::Arr(fns)));
	top.push(("statics", J::Arr(statics)));
	top.push(("consts", J::Arr(consts)));
	top.push(("impls", J::Arr(impls)));
	top.push(("traits", J::Arr(traits)));

	// bodies
	let mut bodies = Vec::new();
	for ldid in tcx.hir_body_owners() {
		let did = ldid.to_def_id();
		let dk = tcx.def_kind(did);
		let mut bv: Vec<(&'static str, J)> = vec![
			("def", s(dps(tcx, did))),
			("dk", s(format!("{:?}", dk))),
		];
		span_info(tcx, tcx.def_span(did), &mut bv);
		let is_closure = tcx.is_closure_like(did);
		if matches!(dk, DefKind::Fn | DefKind::AssocFn | DefKind::AssocConst { .. }) {
			let g = tcx.generics_of(did);
			if g.count() > 0 {
				bv.push((
					"generics",
					J::Arr((0..g.count()).map(|i| s(g.param_at(i, tcx).name.to_string())).collect()),
				));
			}
		}
		if !is_closure && !matches!(dk, DefKind::AnonConst | DefKind::InlineConst) {
			if let Some(body) = tcx.hir_maybe_body_owned_by(ldid) {
				let tr = tcx.typeck(ldid);
				let cx = Cx { tcx, tr, owner: ldid, _p: std::marker::PhantomData };
				bv.push((
					"params",
					J::Arr(body.params.iter().map(|p| cx.pat(p.pat)).collect()),
				));
				bv.push(("hir", cx.expr(body.value)));
			}
		}
		if is_closure {
			bv.push(("closure", J::Bool(true)));
			bv.push(("parent_fn", s(dps(tcx, tcx.typeck_root_def_id(did)))));
		}
		if matches!(dk, DefKind::Fn | DefKind::AssocFn | DefKind::Closure) && tcx.is_mir_available(did) {
			let body = tcx.optimized_mir(did);
			bv.push(("mir", mir_body(tcx, ldid, body)));
		}
		bodies.push(obj(bv));
	}
	top.push(("bodies", J::Arr(bodies)));

	let out = obj(top);
	let mut text = String::new();
	out.write(&mut text);
	let path = format!("{}/{}.{}.json", dir, name, kind);
	let tmp = format!("{}.tmp.{}", path, std::process::id());
	std::fs::write(&tmp, text).expect("write facts");
	std::fs::rename(&tmp, &path).expect("rename facts");
}


/// For a call of `Into::into` / `TryInto::try_into` with generic args `[T, U]`, the path of the
/// `<U as From<T>>::from` / `<U as TryFrom<T>>::try_from` implementation the blanket impl forwards to.
fn blanket_forward<'tcx>(
	tcx: TyCtxt<'tcx>,
	env: ty::TypingEnv<'tcx>,
	did: DefId,
	gargs: ty::GenericArgsRef<'tcx>,
) -> Option<String> {
	let tr = tcx.trait_of_assoc(did)?;
	let target_trait = if Some(tr) == tcx.get_diagnostic_item(rustc_span::sym::Into) {
		tcx.get_diagnostic_item(rustc_span::sym::From)?
	} else if Some(tr) == tcx.get_diagnostic_item(rustc_span::sym::TryInto) {
		tcx.get_diagnostic_item(rustc_span::sym::TryFrom)?
	} else {
		return None;
	};
	if gargs.len() != 2 {
		return None;
	}
	let t = gargs[0];
	let u = gargs[1];
	let method = tcx
		.associated_items(target_trait)
		.in_definition_order()
		.find(|i| matches!(i.kind, ty::AssocKind::Fn { .. }))?
		.def_id;
	let new_args = tcx.mk_args(&[u, t]);
	match ty::Instance::try_resolve(tcx, env, method, new_args) {
		Ok(Some(inst)) => Some(dps(tcx, inst.def_id())),
		_ => None,
	}
}
