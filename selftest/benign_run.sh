#!/bin/bash
# Applies every behaviour-preserving refactoring under selftest/benign to /repo in turn, runs all 20 quick checks
# and reports every alarm (each one is a false alarm to be fixed in the rules).
cd /repo || exit 2
for f in /verif/selftest/benign/${1:-*}.diff; do
  b=$(basename $f .diff)
  if ! git apply --check $f 2>/dev/null; then echo "== $b: does not apply (skipped)"; continue; fi
  git apply $f
  out=""
  for i in 01 02 03 04 05 06 07 08 09 10 11 12 13 14 15 16 17 18 19 20; do
    r=$(cd /verif && ./check C$i 2>&1 | grep -E "^  violated" | head -3 | cut -c1-230)
    [ -n "$r" ] && out="$out
$r"
  done
  git checkout -q -- . && git clean -fdq
  if [ -n "$out" ]; then echo "== $b: FALSE ALARM$out"; else echo "== $b: silent"; fi
done
