#!/bin/bash
# Applies every property-breaking patch listed in selftest/liveness.json to /repo in turn, runs the mapped quick
# checks and reports any that stays silent (a missed mutant).  Restores /repo after each patch.
cd /repo || exit 2
python3 - <<'PY' > /tmp/.mutants.$$ 
import json
d=json.load(open('/verif/selftest/liveness.json'))
for p,props in sorted(d.items()): print(p, " ".join(props))
PY
miss=0; n=0
while read p props; do
  if ! git apply --check /verif/$p 2>/dev/null; then echo "== $p: does not apply (skipped)"; continue; fi
  git apply /verif/$p
  for c in $props; do
    n=$((n+1))
    if (cd /verif && ./check $c 2>&1 | grep -q "^VIOLATION property=$c"); then :; else echo "== $p: MISSED by $c"; miss=$((miss+1)); fi
  done
  git checkout -q -- . && git clean -fdq
done < /tmp/.mutants.$$
rm -f /tmp/.mutants.$$
echo "$n mutant/property pairs, $miss missed"
