#!/bin/sh
# usage: mk.sh <name> <file-relative-to-repo> <python-replace-old> <python-replace-new>
# creates /verif/selftest/patches/<name>.diff by replacing one exact occurrence; leaves /repo untouched
N="$1"; F="$2"
mkdir -p /verif/selftest/patches
python3 - "$F" "$3" "$4" <<'PY' || exit 2
import sys
p='/repo/'+sys.argv[1]
t=open(p).read()
old=sys.argv[2].encode().decode('unicode_escape'); new=sys.argv[3].encode().decode('unicode_escape')
if t.count(old)!=1:
    print("pattern occurs %d times"%t.count(old)); sys.exit(2)
open(p,'w').write(t.replace(old,new))
PY
git -C /repo diff > /verif/selftest/patches/$N.diff
git -C /repo checkout -- .
echo "made $N ($(wc -l < /verif/selftest/patches/$N.diff) lines)"
