#!/bin/sh
# usage: try.sh <patch-file> <Cxx> [more props]  -- applies a patch to /repo, runs the checks, restores the tree
P="$1"; shift
cd /repo || exit 2
git apply "$P" || { echo "PATCH DOES NOT APPLY"; exit 2; }
for c in "$@"; do (cd /verif && ./check "$c" 2>&1 | grep -E "violated|VIOLATION|rule instances|KNOWN" | cut -c1-260 | head -${TRY_LINES:-8}); done
git -C /repo checkout -- . && git -C /repo clean -fdq 
