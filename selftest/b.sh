#!/bin/bash
# usage: b.sh <benign-name> Cxx [Cyy..]   apply a benign refactor to /repo, run checks (with detail), restore
B="$1"; shift
cd /repo || exit 2
git apply /verif/selftest/benign/$B.diff || exit 2
for c in "$@"; do (cd /verif && ./check $c 2>&1 | grep -v KNOWN | head -${BL:-14} | cut -c1-${BW:-330}); done
git -C /repo checkout -q -- . && git -C /repo clean -fdq
