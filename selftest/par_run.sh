#!/bin/bash
# usage: par_run.sh benign|mutants [workers] [glob]
# Parallel version of benign_run.sh / mutants_run.sh: every worker has its own scratch checkout of /repo's HEAD (a git
# worktree under /tmp), its own fact cache and evidence directory (RCGEN_REPO / VERIF_CACHE_DIR / VERIF_EVIDENCE_DIR),
# so /repo itself is never touched.  Scratch directories are removed at the end.
MODE="$1"; N="${2:-5}"; GLOB="${3:-*}"
# the checker that is run: the tree this script lives in (so that a frozen snapshot copy of /verif can be swept while
# /verif itself is being edited)
VH="$(cd "$(dirname "$0")/.." && pwd)"
ROOT=$(mktemp -d /tmp/verif-par.XXXXXX)
LIST=$ROOT/list
if [ "$MODE" = benign ]; then
  for f in $VH/selftest/benign/$GLOB.diff; do echo "$f ALL"; done > $LIST
elif [ "$MODE" = seeds ]; then
  # all twenty checks against every seeded change; writes seeded/<id>/checks.txt (input of seeded/reindex.sh --index-only)
  for f in $VH/seeded/$GLOB/patch.diff; do echo "$f ALL"; done > $LIST
else
  VH=$VH python3 - > $LIST <<'PY'
import json
import os
d=json.load(open(os.environ['VH']+'/selftest/liveness.json'))
for p,props in sorted(d.items()): print(os.environ['VH']+'/'+p, " ".join(props))
PY
fi
worker() {
  i=$1; W=$ROOT/w$i
  ok=0
  for try in 1 2 3 4 5 6; do      # concurrent `git worktree add` calls contend for a lock: retry
    if git -C /repo worktree add --detach $W/repo HEAD -q 2>/dev/null; then ok=1; break; fi
    sleep $((i + try))
  done
  [ $ok = 1 ] || { echo "worker $i: worktree failed"; return; }
  mkdir -p $W/ev
  cp -a $VH/.cache $W/cache 2>/dev/null; rm -rf $W/cache/facts $W/cache/lock
  export RCGEN_REPO=$W/repo VERIF_CACHE_DIR=$W/cache VERIF_EVIDENCE_DIR=$W/ev
  awk -v n=$N -v i=$i 'NR % n == i' $LIST | while read p props; do
    b=$(basename $(dirname $p))/$(basename $p .diff); [ "$MODE" = benign ] && b=$(basename $p .diff)
    if ! git -C $W/repo apply --check $p 2>/dev/null; then echo "== $b: does not apply (skipped)"; continue; fi
    git -C $W/repo apply $p
    if [ "$MODE" = seeds ]; then
      RES=$(dirname $p)/checks.txt; : > $RES.tmp
      for c in 01 02 03 04 05 06 07 08 09 10 11 12 13 14 15 16 17 18 19 20; do
        o=$(cd $VH && ./check C$c 2>&1)
        if echo "$o" | grep -q "^VIOLATION"; then echo "C$c: VIOLATION" >> $RES.tmp; echo "$o" | grep "violated" | head -6 | cut -c1-240 >> $RES.tmp; else echo "C$c: pass" >> $RES.tmp; fi
      done
      mv $RES.tmp $RES; echo "== $b: caught by $(grep VIOLATION $RES | cut -d: -f1 | tr '\n' ' ')"
    elif [ "$MODE" = benign ]; then
      out=""
      for c in 01 02 03 04 05 06 07 08 09 10 11 12 13 14 15 16 17 18 19 20; do
        r=$(cd $VH && ./check C$c 2>&1 | grep -E "^  violated" | head -3 | cut -c1-230)
        [ -n "$r" ] && out="$out
$r"
      done
      if [ -n "$out" ]; then echo "== $b: FALSE ALARM$out"; else echo "== $b: silent"; fi
    else
      for c in $props; do
        if (cd $VH && ./check $c 2>&1 | grep -q "^VIOLATION property=$c"); then echo "== $b: fired $c"; else echo "== $b: MISSED by $c"; fi
      done
    fi
    git -C $W/repo checkout -q -- . && git -C $W/repo clean -fdq
  done
  git -C /repo worktree remove --force $W/repo
}
for i in $(seq 0 $((N-1))); do worker $i > $ROOT/out.$i 2>&1 & done
wait
cat $ROOT/out.* | grep -v ": fired " 
grep -h "worktree failed" $ROOT/out.* && echo "--- INCOMPLETE RUN: some workers did not start"
echo "--- summary: $(cat $ROOT/out.* | grep -c ': silent') silent, $(cat $ROOT/out.* | grep -c 'FALSE ALARM') false alarms, $(cat $ROOT/out.* | grep -c ': fired ') fired, $(cat $ROOT/out.* | grep -c 'MISSED') missed, $(cat $ROOT/out.* | grep -c 'does not apply') skipped"
rm -rf $ROOT
git -C /repo worktree prune
